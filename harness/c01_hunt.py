"""C01 sweep families added after the round-4 bug hunt (design/HUNT-C01.md).  Every program is closed, deterministic and
prints what it computes.  Families are small cross products over one dimension the original corpus did not vary:
import placement, lazy iterators, rebound builtins, string-literal shapes, line separators, indentation width,
global/nonlocal, dead yields, class bodies, lambdas, f-strings, async, static methods, duck-typed numpy/pandas shapes,
star imports of stdlib modules, PEP 695 syntax."""
from __future__ import annotations


def _j(*lines):
    return "\n".join(lines) + "\n"


def import_scope():
    out = {}
    for mod in ("imp", "asyncore", "asynchat", "smtpd", "distutils"):
        out[f"guard_try:{mod}"] = _j("try:", f"    import {mod}", "except ImportError:", f"    {mod} = None", f"print({mod} is None)")
    out["guard_if:msilib"] = _j("import sys", "if len(sys.argv) > 5:", "    import msilib", "    print(msilib)", "print('ok')")
    out["guard_func:msilib"] = _j("def rare():", "    import msilib", "    return msilib", "print('never called', rare.__name__ != '')")
    for how, stmts in (("assign", ["join = 3"]), ("for", ["for join in (1, 2):", "    pass"]), ("del", ["del join", "join = 0"]),
                       ("aug", ["join = 1", "join += 2"])):
        out[f"local_rebind:{how}"] = _j("def f():", "    from os.path import join", "    r = join('a', 'b')", *["    " + s for s in stmts],
                                        "    return r, join", "print(f())")
    for imp, use in (("import json", "self.json.dumps([1])"), ("import os", "self.os.sep"), ("from os import sep", "self.sep"),
                     ("import os.path as p", "self.p.basename('/a/b')")):
        out[f"class_body:{imp}"] = _j("class A:", f"    {imp}", "    def get(self):", f"        return {use}", "print(A().get())")
    out["class_body:attr"] = _j("class A:", "    import os", "print(A.os.sep)")
    out["import_effect:submodule"] = _j("import xml", "import xml.dom as unused_dom", "print(xml.dom.Node.ELEMENT_NODE)")
    out["import_use:aug"] = _j("from math import pi", "pi += 1", "print(1)")
    out["import_use:del"] = _j("import os", "del os", "print('deleted')")
    out["import_use:global_in_func"] = _j("import os", "def f():", "    global os", "    os = None", "f()", "print(os)")
    return out


def lazy_iterators():
    out = {}
    head = ["def show(x):", "    print('item', x)", "    return x", ""]
    makers = {"genexp": "g = (show(x) for x in [1, 2])", "map": "g = map(show, [1, 2])", "gen": "def mk():\n    for i in [1, 2]:\n        yield show(i)\ng = mk()",
              "filter": "g = filter(show, [1, 2])", "zip": "g = zip(map(show, [1, 2]), [3, 4])"}
    drains = {"for_pass": ["for _ in g:", "    pass"], "for_pass_named": ["for item in g:", "    pass"], "list": ["list(g)"], "tuple": ["tuple(g)"],
              "sorted": ["sorted(g)"], "listcomp": ["[None for _ in g]"], "any": ["any(g)"], "sum0": ["sum(0 for _ in g)"], "set": ["set(g)"],
              "unpack": ["a, b = g"], "star": ["[*g]"], "in": ["5 in g"], "deque": ["import collections", "collections.deque(g, maxlen=0)"]}
    for mk, msrc in makers.items():
        for dn, d in drains.items():
            if (hash_small(mk, dn) % 3) and mk != "genexp":
                continue
            out[f"drain:{mk}:{dn}"] = _j(*head, *msrc.split("\n"), *d, "print('done')")
    out["contains:list_of_iter"] = _j("g = iter([1, 2, 3])", "print(2 in list(g))", "print(list(g))")
    out["contains:tuple_of_iter"] = _j("g = iter([1, 2, 3])", "print(2 in tuple(g))", "print(list(g))")
    out["contains:sorted_of_iter"] = _j("g = iter([3, 1, 2])", "print(1 in sorted(g))", "print(list(g))")
    for w in ("list", "tuple", "sorted"):
        out[f"for_snapshot:{w}"] = _j("def gen():", "    for i in range(2):", "        print('produce', i)", "        yield i", f"for x in {w}(gen()):",
                                      "    print('consume', x)")
        out[f"iter_snapshot:{w}"] = _j("x = [1, 2, 3]", f"it = iter({w}(x))", "x.append(4)", "print(list(it))")
        out[f"mutate_while_iterating:{w}"] = _j("x = [1, 2, 3]", f"for v in {w}(x):", "    if v == 2:", "        x.remove(v)", "print(x)")
    out["eager_inner_comp"] = _j("a = [1, 2, 3]", "g = (x * 2 for x in [y for y in a if y])", "a.append(4)", "print(list(g))")
    out["eager_inner_comp2"] = _j("a = [1, 2, 3]", "g = (x for x in [y + 1 for y in a])", "a.clear()", "print(list(g))")
    out["deferred_read"] = _j("x = 1", "g = (i + x for i in range(3))", "x = 2", "print(list(g))")
    out["unpack_generator"] = _j("def g():", "    print('a')", "    yield 1", "    print('b')", "    yield 2", "    print('c')", "a, b = g()", "print('done')")
    out["map_lambda_stopiteration"] = _j("it = iter('abc')", "print(list(map(lambda x: next(it), range(5))))")
    out["filter_lambda_stopiteration"] = _j("it = iter('abc')", "print(list(filter(lambda x: next(it), range(5))))")
    return out


def hash_small(*parts) -> int:
    return sum(ord(c) * (i + 1) for i, c in enumerate("/".join(parts)))


BUILTINS_REBOUND = ["len", "list", "sorted", "sum", "dict", "set", "bool", "range", "int", "tuple", "min", "max", "any", "all", "abs",
                    "enumerate", "zip", "map", "filter", "iter", "reversed", "str", "isinstance", "print_"]


def rebound_builtins():
    out = {}
    for name in BUILTINS_REBOUND:
        if name == "print_":
            continue
        for how in ("def", "lambda", "import"):
            if how == "def":
                bind = [f"def {name}(*a, **k):", "    return [7 + len(a)]"]
            elif how == "lambda":
                bind = [f"{name} = lambda *a, **k: [7 + len(a)]"]
            else:
                if hash_small(name) % 3:
                    continue
                bind = ["import types", f"{name} = types.SimpleNamespace(__call__=None) and (lambda *a, **k: [7 + len(a)])"]
            uses = [f"print({name}([1, 2]))", f"print({name}())", f"for i in {name}([3, 1]):", "    print(i)", f"print(4 in {name}([4]))",
                    f"print({name}([3, 1])[0])", f"if {name}('abc'):", "    print('t')", "else:", "    print('f')",
                    f"print([v for v in {name}([1])])", f"print({name}(x for x in [1]))", f"print({name}({name}([2])))",
                    f"print({name}([1, 2]) == [1, 2], not {name}([]))", f"ys = {name}([5])", "print(ys)", f"print(f'{{{name}([1])}}')"]
            if how != "def" and hash_small(name, how) % 2:
                continue
            out[f"rebound:{name}:{how}"] = _j(*bind, *uses)
    out["rebound:len:if"] = _j("def len(x):", "    return 0", "if len('abc'):", "    print('a')", "else:", "    print('b')")
    out["rebound:list:call0"] = _j("def list():", "    return 5", "print(list())")
    out["rebound:mixed"] = _j("def list(x):", "    return [v * 2 for v in x]", "for i in list([1, 2]):", "    print(i)", "def sorted(x, key=None):",
                              "    return [v * 2 for v in x]", "y = [1, 2]", "print(4 in sorted(y), sorted([3, 1], key=abs)[0])", "def sum(x):",
                              "    return 'total'", "print(sum([1, 2]), sum(range(3)))")
    out["param_named_like_safe_function"] = _j("def cb():", "    return 1", "def run(cb):", "    cb()", "run(lambda: print('hi'))", "print(cb())")
    out["class_inherits_init"] = _j("class A:", "    def __init__(self):", "        print('hi')", "class B(A):", "    pass", "B()", "print('end')")
    out["class_inherits_new"] = _j("class A:", "    def __new__(cls):", "        print('new')", "        return super().__new__(cls)", "class B(A):",
                                   "    pass", "B()", "print('end')")
    for kind, src in (("def", ["def _(s):", "    return s.upper()"]), ("lambda", ["_ = lambda s: s.upper()"]), ("class", ["class _:", "    upper = 'X'", "_ = _.upper.join"]),
                      ("assign", ["_ = str.upper"])):
        out[f"underscore:{kind}"] = _j(*src, "print(_('hi'))")
    return out


def string_literals():
    out = {}
    bodies = {"hex": r"\d\x41", "octal": r"\d\101", "octal0": r"\d\0", "unicode": r"\d\u0041", "named": r"\d\N{BULLET}", "backslash": r"\d\\d",
              "quote": r"\d\'", "newline": r"\d\n", "linecont": "\\d\\\nx", "only_invalid": r"\d\w\s", "tab": r"\d\t"}
    for bn, body in bodies.items():
        for pn, (pre, q) in {"plain": ("", '"'), "bytes": ("b", '"'), "triple": ("", '"""'), "single": ("", "'")}.items():
            if pn == "bytes" and bn in ("unicode", "named"):
                continue
            if bn == "linecont" and pn != "triple" and pn != "plain":
                continue
            b2 = body.replace("'", '"') if q == "'" and bn == "quote" else body
            out[f"escape:{bn}:{pn}"] = f"print(repr({pre}{q}{b2}{q}))\n"
    out["escape:fstring_quote"] = "x = 1\nprint(f'{x}\"\\d')\n"
    out["escape:fstring_field_first"] = "x = 1\nprint(f\"{x}\\d{x}\")\n"
    out["escape:fstring_hex"] = "x = 1\nprint(f\"\\d\\x41{x}\")\n"
    out["escape:concat"] = "print(repr(\"\\d\" \"\\x41\"))\n"
    # raw-text passes vs literal contents
    out["ws:trailing_in_triple"] = 's = """a   \nb"""\nprint(repr(s))\n'
    out["ws:blank_line_in_triple"] = 'def f():\n    s = """a\n        \n    b"""\n    return s\nprint(repr(f()))\n'
    out["ws:bytes_trailing"] = 's = b"""a   \nb"""\nprint(repr(s))\n'
    out["ws:hash_lines_in_bytes"] = 'data = b"""\n# x = compute(1)\n# y = compute(2)\n"""\nprint(data)\n'
    out["ws:hash_lines_in_str"] = 'data = """\n# x = compute(1)\n# y = compute(2)\n"""\nprint(data)\n'
    out["ws:hash_lines_in_fstring"] = 'v = 1\ndata = f"""\n# x = compute({v})\n# y = 2\n"""\nprint(data)\n'
    out["ws:literal_in_dead_if"] = 'if True:\n    s = """a\n    b"""\n    print(s)\n'
    out["ws:literal_in_else"] = 'def f(x):\n    if x:\n        return 1\n    else:\n        s = """a\n    b\n        c"""\n        return s\nprint(repr(f(0)))\n'
    for cn, ch in (("ff", "\x0c"), ("fs", "\x1c"), ("gs", "\x1d"), ("rs", "\x1e"), ("nel", "\x85"), ("ls", "\u2028"), ("ps", "\u2029"), ("vt", "\x0b")):
        out[f"sep:{cn}:missing_import"] = f's = """a{ch}bc"""\ndef helper():\n    return os.sep\nprint(ascii(s))\n'
        out[f"sep:{cn}:assign_return"] = f'def f():\n    s = "a{ch}b"\n    return s\nprint(ascii(f()))\n'
        out[f"sep:{cn}:in_if_else"] = f'def f(x):\n    if x:\n        return "a{ch}b"\n    else:\n        return "c{ch}d"\nprint(ascii(f(0)), ascii(f(1)))\n'
    out["crlf:if_else"] = "def f(x):\r\n    if x:\r\n        return 1\r\n    else:\r\n        return 2\r\nprint(f(0), f(1))\r\n"
    out["crlf:loop"] = "out = []\r\nfor x in [1, 2]:\r\n    out.append(x * 2)\r\nprint(out)\r\n"
    return out


def indentation():
    out = {}
    progs = {
        "redundant_else": ["def f(x):", "@if x:", "@@return 1", "@else:", "@@print('a')", "@@return 2", "print(f(0), f(1))"],
        "dead_if": ["def f(x):", "@if True:", "@@y = x + 1", "@@print(y)", "@else:", "@@print('no')", "@return x", "print(f(1))"],
        "nested": ["def f(x, y):", "@if x:", "@@if y:", "@@@return 'xy'", "@@else:", "@@@print('x only')", "@@@return 'x'", "@else:", "@@return 'none'",
                   "print(f(1, 1), f(1, 0), f(0, 0))"],
        "loop_continue": ["def f(xs):", "@out = []", "@for x in xs:", "@@if x % 2:", "@@@continue", "@@else:", "@@@out.append(x)", "@@@print(x)", "@return out",
                          "print(f([1, 2, 3, 4]))"],
        "swap": ["def f(x):", "@if not x:", "@@print('1')", "@else:", "@@print('2')", "@@print('3')", "@@print('4')", "@return x", "print(f(0), f(1))"],
        "class": ["class A:", "@def m(self, x):", "@@if x:", "@@@return self", "@@else:", "@@@print('z')", "@@@return None", "print(A().m(0))"],
    }
    for pn, lines in progs.items():
        for wn, unit in (("2sp", "  "), ("3sp", "   "), ("8sp", "        "), ("tab", "\t"), ("1sp", " ")):
            out[f"indent:{pn}:{wn}"] = "\n".join(l.replace("@", unit) for l in lines) + "\n"
    for sp in ("else :", "else  :", "else:  # why", "else:\t"):
        out[f"else_spelling:{sp!r}"] = _j("def f(x):", "    if x:", "        y = 1", "    else:", "        y = 2", "    if y:", "        return 1",
                                          f"    {sp}", "        return 2", "print(f(0))")
    return out


def scopes():
    out = {}
    for kw, setup in (("global", ["r = 0", "def f(c):", "    global r"]), ("nonlocal", ["def outer(c):", "    r = 0", "    def f(c):", "        nonlocal r"])):
        ind = "    " if kw == "global" else "        "
        shapes = {
            "if_else_return": ["if c:", "    r = 1", "else:", "    r = 2", "return r"],
            "assign_return": ["r = c + 1", "return r"],
            "loop_build": ["r = []", "for i in range(c):", "    r.append(i)", "return len(r)"],
            "aug": ["r += c", "return 5"],
            "write_only": ["r = c * 2", "return 5"],
        }
        for sn, body in shapes.items():
            if kw == "global":
                tail = ["print(f(1), r)", "print(f(0), r)"]
                out[f"{kw}:{sn}"] = _j(*setup, *[ind + b for b in body], *tail)
            else:
                tail = ["    v = f(c)", "    return v, r", "print(outer(1), outer(0))"]
                out[f"{kw}:{sn}"] = _j(*setup, *[ind + b for b in body], *tail)
    out["nonlocal:unused_outer"] = _j("def outer():", "    count = 0", "    def inc():", "        nonlocal count", "        count = 1", "    inc()", "    return 5", "print(outer())")
    for dn, dead in (("return_yield", ["return", "yield"]), ("if_false", ["if False:", "    yield", "return"]), ("if_zero", ["if 0:", "    yield 1", "return"]),
                     ("while_false", ["while False:", "    yield", "return None"]), ("raise_yield", ["raise ValueError('x')", "yield"]),
                     ("yield_from_dead", ["return", "yield from ()"])):
        tail = ["try:", "    print(list(gen()))", "except ValueError as e:", "    print('VE', e)", "print(type(gen()).__name__)"]
        out[f"dead_yield:{dn}"] = _j("def gen():", *["    " + d for d in dead], *tail)
    out["match:assign_in_case"] = _j("import sys", "v = len(sys.argv)", "x = 0", "match v:", "    case 7:", "        x = 1", "print(x)")
    out["match:literal_pattern"] = _j("def f(x):", "    match x:", "        case 'abcdefghijklmnopqrstuvwxyz':", "            return 1", "        case _:", "            return 0",
                                      "print(f('abcdefghijklmnopqrstuvwxyz'), f('q'))", "a = 'abcdefghijklmnopqrstuvwxyz'", "b = 'abcdefghijklmnopqrstuvwxyz'",
                                      "c = 'abcdefghijklmnopqrstuvwxyz'", "print(a, b, c)")
    out["walrus:short_circuit"] = _j("import sys", "x = 0", "c = len(sys.argv) > 5", "c and (x := 5)", "print(x)")
    out["walrus:map_lambda"] = _j("y = 0", "print(list(map(lambda x: (y := x), [1, 2])))", "print(y)")
    out["walrus:comprehension"] = _j("xs = [1, 5, 3]", "print([y for x in xs if (y := x * 2) > 4], y)")
    out["with:assign_in_suppress"] = _j("import contextlib", "x = 0", "with contextlib.suppress(ValueError):", "    print(int('q'))", "    x = 1", "print(x)")
    out["with:assign_before_raise"] = _j("import contextlib", "x = 0", "with contextlib.suppress(KeyError):", "    x = 1", "    {}['k']", "    x = 2", "print(x)")
    return out


def class_bodies():
    out = {}
    out["loop_to_comp"] = _j("class A:", "    k = 2", "    res = []", "    for x in range(3):", "        res.append(x * k)", "print(A.res)")
    out["loop_to_setcomp"] = _j("class A:", "    k = 2", "    res = set()", "    for x in range(3):", "        res.add(x * k)", "print(sorted(A.res))")
    out["loop_to_dictcomp"] = _j("class A:", "    k = 2", "    res = {}", "    for x in range(3):", "        res[x] = x * k", "print(A.res)")
    out["loop_sum"] = _j("class A:", "    k = 2", "    total = 0", "    for x in range(3):", "        total += x * k", "print(A.total)")
    for cn, comp in (("if_else", ["if sys.maxsize > 5:", "    sep = 'a'", "else:", "    sep = 'b'"]), ("for", ["for sep in 'ab':", "    pass"]),
                     ("try", ["try:", "    sep = int('3')", "except ValueError:", "    sep = 0"]), ("with", ["with contextlib.nullcontext():", "    sep = 'w'"])):
        out[f"attr_in:{cn}"] = _j("import sys", "import contextlib", "class A:", *["    " + c for c in comp], "print(A.sep)")
    out["lambda_attr_builtin"] = _j("class A:", "    def __len__(self):", "        return 3", "    size = lambda self: len(self)", "print(A().size())")
    out["lambda_attr_function"] = _j("def helper(obj):", "    return 'h'", "class A:", "    m = lambda self: helper(self)", "print(A().m())")
    out["lambda_kwargs"] = _j("def f(a):", "    return a", "g = lambda x: f(x)", "print(g(x=1))")
    out["lambda_defaults"] = _j("def f(a, b=2):", "    return a + b", "g = lambda a: f(a)", "print(g(1), g(a=5))")
    out["not_eq_custom_ne"] = _j("class A:", "    def __eq__(self, o):", "        return True", "    def __ne__(self, o):", "        return True", "print(not A() == 1, not A() != 1)")
    out["not_lt_partial_order"] = _j("a, b = {1}, {2}", "print(not a < b, not a <= b, not a > b, not a >= b)", "n = float('nan')", "print(not n < 1, not n >= 1)")
    for fld in ("set([x, 2])", "dict(a=x)", "{x: 1}", "{v for v in [x]}", "list()", "tuple([x])", "{x, 2}", "set()"):
        out[f"fstring_field:{fld}"] = _j("x = 5", f"print(f\"{{ {fld} }}\")" if fld.startswith("{") else f"print(f\"{{{fld}}}\")")
    out["setattr_dunder_eq"] = _j("class Foo:", "    def __init__(self, v):", "        self.v = v", "Foo.__eq__ = lambda self, other: self.v == other.v", "print(len({Foo(1): 1}))")
    out["setattr_slots"] = _j("class Foo:", "    pass", "Foo.__slots__ = ('a',)", "f = Foo()", "f.b = 1", "print(f.b)")
    out["setattr_reads_class"] = _j("def mk():", "    return Foo.a + 1", "class Foo:", "    a = 1", "Foo.b = mk()", "print(Foo.b)")
    out["setattr_doc"] = _j("class Foo:", "    a = 1", "Foo.__doc__ = 'late'", "Foo.c = Foo.a + 1", "print(Foo.__doc__, Foo.c)")
    return out


def static_methods():
    out = {}
    out["extra_decorator"] = _j("import functools", "class A:", "    @staticmethod", "    @functools.lru_cache(maxsize=None)", "    def m(x):", "        return x + 1", "print(A.m(1))")
    out["default_from_class"] = _j("class A:", "    K = 3", "    @staticmethod", "    def m(x=K):", "        return x + 1", "print(A.m())")
    out["private_name"] = _j("class A:", "    __secret = 7", "    @staticmethod", "    def m():", "        return A.__secret", "print(A.m())")
    out["async_static"] = _j("import asyncio", "class A:", "    @staticmethod", "    async def m(x):", "        return x + 1", "async def main():", "    print(await A.m(1))", "asyncio.run(main())")
    out["store_to_method"] = _j("class A:", "    @staticmethod", "    def m():", "        return 1", "def patch():", "    A.m = lambda: 5", "patch()", "print(A.m())")
    out["instance_shadows"] = _j("class A:", "    def __init__(self):", "        self.sm = lambda: 'inst'", "    @staticmethod", "    def sm():", "        return 'static'",
                                 "    def m(self):", "        return self.sm()", "print(A().m())")
    out["subclass_override"] = _j("class A:", "    @staticmethod", "    def m():", "        return 'a'", "    def call(self):", "        return self.m()", "class B(A):", "    @staticmethod",
                                  "    def m():", "        return 'b'", "print(A().call(), B().call())")
    out["decorator_in_class_body"] = _j("class A:", "    def deco(f):", "        return lambda self: 42", "    @deco", "    def m(self):", "        return self.x", "print(A().m())")
    out["decorated_method_uses_self"] = _j("def logged(f):", "    def w(self, *a):", "        print('call on', self.name)", "        return f(self, *a)", "    return w", "class A:",
                                           "    name = 'a'", "    @logged", "    def m(self, x):", "        return x + 1", "print(A().m(1))")
    out["async_for_extend"] = _j("import asyncio", "async def agen():", "    yield [1]", "    yield [2]", "async def main(res):", "    async for x in agen():", "        res.extend(x)",
                                 "    print(res)", "asyncio.run(main([]))")
    out["async_for_append"] = _j("import asyncio", "async def agen():", "    yield 1", "    yield 2", "async def main():", "    res = []", "    async for x in agen():", "        res.append(x * 2)",
                                 "    return res", "print(asyncio.run(main()))")
    out["pep695_function"] = _j("def firstItem[T](xs: list[T]) -> T:", "    return xs[0]", "print(firstItem([1, 2]))")
    out["pep695_class"] = _j("class box_thing[T]:", "    def __init__(self, v: T):", "        self.v = v", "print(box_thing(3).v)")
    out["pep695_alias"] = _j("type IntList = list[int]", "def total(xs: IntList) -> int:", "    return sum(xs)", "print(total([1, 2]))")
    return out


def abstractions_and_perf():
    L = "'abcdefghijklmnopqrstuvwxyz'"
    out = {}
    out["overused:docstring_future"] = _j('"""Doc."""', "from __future__ import annotations", "", *[f"{v} = {L}" for v in "abcde"], "print(a, b, c, d, e, __doc__)")
    out["overused:docstring_only"] = _j('"""Doc."""', *[f"{v} = {L}" for v in "abcde"], "print(a, b, c, d, e, __doc__)")
    out["overused:nested_tuple"] = _j(*[f"{v} = ({L}, 1)" for v in "abcde"], "print(a, b, c, d, e)")
    out["overused:decorated_first"] = _j("import functools", "", "@functools.lru_cache(maxsize=None)", "def f(x):", f"    return x + {L}", "", *[f"{v} = {L}" for v in "abcd"],
                                         "print(a, b, c, d, f('x'))")
    out["overused:in_default_arg"] = _j(f"def f(x={L}):", "    return x", *[f"{v} = {L}" for v in "abcd"], "print(a, b, c, d, f())")
    out["ifflow:lambda_params"] = _j("import sys", "c = len(sys.argv) > 5", "xs = [1, 2, 3]", "zz = yy = 100", "if c:",
                                     "    print(sorted(map(lambda zz: zz * 2 + 1, xs), reverse=True), 'then more')", "else:",
                                     "    print(sorted(map(lambda yy: yy * 2 + 1, xs), reverse=True), 'then more')")
    out["ifflow:comprehension_vars"] = _j("import sys", "c = len(sys.argv) > 5", "xs = [1, 2, 3]", "zz = yy = 100", "if c:",
                                          "    print(sorted([zz * 2 + 1 for zz in xs], reverse=True), 'then more')", "else:",
                                          "    print(sorted([yy * 2 + 1 for yy in xs], reverse=True), 'then more')")
    for op, expr in (("mul", "sum([a + 1, a + 2]) * 2"), ("pow", "-sum([-1, -2]) ** 2"), ("mod", "sum([a, a + 3]) % 4"), ("floordiv", "sum([a + 1, a]) // 2"),
                     ("sub", "10 - sum([a - 1, a - 2])"), ("rpow", "2 ** sum([a - 4, a - 5])"), ("attr", "sum([a, 1]).bit_length()"), ("cmp", "sum([a, a + 1]) < 3 * a")):
        out[f"math_precedence:{op}"] = _j("a = 5", f"print({expr})")
    out["math_float"] = _j("print(sum([0.1, 0.2]))", "print(sum([4 / 2, 1]))", "print(sum(x / 2 for x in range(4)))")
    out["boolop_guard_order"] = _j("def f(cfg, a, b):", "    if (cfg and cfg['on'] and a) or (cfg and cfg['on'] and b):", "        return 'yes'", "    return 'no'",
                                   "print(f({}, 1, 0), f({'on': 1}, 0, 1))")
    out["duck:matmul"] = _j("left = [[1, 2], [3, 4]]", "right = [[5, 6], [7, 8]]",
                            "result = [[sum(left[i][k] * right[k][j] for k in range(len(right))) for j in range(len(right[0]))] for i in range(len(left))]", "print(result)")
    out["duck:dot"] = _j("u = [1, 2, 3]", "v = [4, 5, 6]", "print(sum(u[i] * v[i] for i in range(len(u))))", "print(sum(a * b for a, b in zip(u, v)))")
    out["duck:loc_iterrows"] = _j("class Grid:", "    def __init__(self):", "        self.loc = {0: 'origin'}", "        self.iloc = {0: 'first'}", "        self.rows = ['r0', 'r1']",
                                  "    def iterrows(self):", "        return enumerate(self.rows)", "g = Grid()", "print(g.loc[0], g.iloc[0])", "for i, _ in g.iterrows():", "    print(i)",
                                  "for _, r in g.iterrows():", "    print(r)")
    out["duck:T"] = _j("class P:", "    T = 'temperature'", "    def __init__(self):", "        self.T = self", "p = P()", "print(p.T.T is p, P.T)")
    out["subscript_loop_name_clash"] = _j("s = [1, 2, 3]", "s_i = 100", "print([s[i] + s_i for i in range(len(s))])")
    out["subscript_loop_name_clash2"] = _j("rows = [1, 2, 3]", "row = 100", "print([rows[i] + row for i in range(len(rows))])")
    out["sorted_key_empty"] = _j("def first(xs):", "    try:", "        return sorted(xs, key=abs)[0]", "    except IndexError:", "        return None", "print(first([]), first([3, -1]))")
    out["log_object"] = _j("class Log:", "    def info(self, msg):", "        print(msg)", "log = Log()", "a = 3", "log.info(f'a={a}')", "log.info('a=%s' % a)")
    out["logger_object"] = _j("class L:", "    def warning(self, msg, *args):", "        print(msg, args)", "logger = L()", "a = 3", "logger.warning('a={}'.format(a))")
    out["open_used_after"] = _j("import os, tempfile", "fd, path = tempfile.mkstemp()", "os.close(fd)", "w = open(path, 'w')", "w.write('a\\n')", "w.close()", "def last(paths):",
                                "    for p in paths:", "        f = open(p)", "        print('opened')", "    return f.readline()", "print(last([path]))", "os.unlink(path)")
    out["sqlite_cursor"] = _j("import sqlite3", "con = sqlite3.connect(':memory:')", "cur = con.cursor()", "cur.execute('create table t (a)')", "cur.execute('insert into t values (1)')",
                              "print(cur.execute('select * from t').fetchall())")
    return out


def star_imports():
    out = {}
    cases = {
        "math_pow_builtin": ["from math import *", "print(pow(2, 3), sqrt(4))"],
        "cmath_pow_builtin": ["from cmath import *", "print(pow(2, 3))"],
        "re_compile_builtin": ["from re import *", "print(compile('a+').pattern, sub('a', 'b', 'aa'))"],
        "operator_abs_builtin": ["from operator import *", "print(abs(-2), add(1, 2), type(abs).__module__)"],
        "math_only_builtin_name": ["from math import *", "print(pow(2, 3))"],
        "bound_earlier": ["e = 'mine'", "from math import *", "print(e, pi > 3)"],
        "bound_earlier_errno": ["ENOENT = -1", "from errno import *", "print(ENOENT, EPERM)"],
        "bound_later": ["from math import *", "print(e > 2)", "e = 5", "print(e)"],
        "local_elsewhere": ["from math import *", "def area(r):", "    return pi * r * r", "def describe():", "    pi = '3.14-ish'", "    return 'pi is ' + pi", "print(area(1), describe())"],
        "param_elsewhere": ["from math import *", "def scale(e):", "    return e * 2", "print(scale(1), e > 2)"],
        "loop_var_elsewhere": ["from math import *", "print([tau for tau in (1, 2)], tau > 6)"],
        "two_stars": ["from math import *", "from cmath import *", "print(sqrt(-1), floor(2.5))"],
        "star_and_explicit": ["from math import *", "from math import floor", "print(floor(2.5), ceil(2.5))"],
        "os_path": ["from os.path import *", "print(basename('/x/y'), split('/a/b'))"],
        "string_consts": ["from string import *", "print(digits, capwords('a b'))"],
        "itertools": ["from itertools import *", "print(list(islice(count(), 3)), list(chain([1], [2])))"],
    }
    for n, lines in cases.items():
        out[f"star:{n}"] = _j(*lines)
    return out


def comparison_bounds():
    """Every pair of comparisons of one variable with constants in every order relation, under `and` / `or`, in a value
    context (return) and in a test (if): the boundary values decide (seed C01-b relaxed `<` to `<=` in the bound table of
    symbolic_math.simplify_boolean_expressions).  One program per boolean operator and context; each evaluates all
    6 x 6 x 3 combinations on every integer from -1 to 5."""
    out = {}
    ops = ("<", "<=", ">", ">=", "==", "!=")
    consts = ((1, 3), (2, 2), (3, 1))
    for bop in ("and", "or"):
        for ctx in ("return", "if"):
            lines, names = [], []
            for a in ops:
                for b in ops:
                    for (c1, c2) in consts:
                        name = f"f{len(names)}"
                        names.append(name)
                        cond = f"x {a} {c1} {bop} x {b} {c2}"
                        if ctx == "return":
                            lines += [f"def {name}(x):", f"    return {cond}"]
                        else:
                            lines += [f"def {name}(x):", f"    if {cond}:", "        return 'y'", "    return 'n'"]
            lines.append("fs = [" + ", ".join(names) + "]")
            lines.append("for f in fs:")
            lines.append("    print([f(v) for v in range(-1, 6)])")
            out[f"bounds:{bop}:{ctx}"] = _j(*lines)
    return out


FAMILIES = {"imports": import_scope, "lazy": lazy_iterators, "rebound": rebound_builtins, "strings": string_literals, "indent": indentation,
            "scopes": scopes, "classbody": class_bodies, "static": static_methods, "abstr": abstractions_and_perf, "star": star_imports,
            "bounds": comparison_bounds}


def all_programs() -> list[tuple[str, str]]:
    out = []
    for fam, fn in FAMILIES.items():
        for name, src in fn().items():
            out.append((f"{fam}/{name}", src))
    return out
