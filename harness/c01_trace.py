"""Stage interception for main.format_code (C01): every top-level stage application -- the rule functions reached through
module attributes, the processing.chain object, rmspace.format_str, textwrap.dedent/indent, str.expandtabs (through a str
subclass) and processing.minimize_whitespace_line_differences -- is routed through one handler.  The handler either calls
through and records (bisecting real runs) or answers from a script (driver correspondence).  Nothing in /repo is edited:
module attributes are replaced for the duration of a `with` block and restored afterwards."""
from __future__ import annotations

import functools
import types

STAGE_MODULES = ("fixes", "tracing", "abstractions", "performance", "performance_numpy", "performance_pandas",
                 "object_oriented", "symbolic_math")


class Tracer:
    def __init__(self, mods, handler, overrides=None):
        """handler(tracer, name, fn, args, kwargs) -> result, called for depth-0 stage applications only.
        overrides: {(module key, attribute): replacement} for guards (core.is_valid_python, ...)."""
        self.mods, self.handler, self.overrides = mods, handler, overrides or {}
        self.depth = 0
        self.in_multi = False
        self.multi_idx = 0
        self.multi_counts: list[int] = []
        self._saved: list = []

    # -- plumbing
    def call(self, name, fn, args, kwargs):
        if self.depth:
            return fn(*args, **kwargs)
        self.depth += 1
        try:
            return self.handler(self, name, fn, args, kwargs)
        finally:
            self.depth -= 1
            if self.in_multi:
                self.multi_idx += 1

    def _wrap(self, name, fn):
        @functools.wraps(fn)
        def w(*a, **k):
            return self.call(name, fn, a, k)
        return w

    def _set(self, obj, attr, val):
        self._saved.append((obj, attr, getattr(obj, attr)))
        setattr(obj, attr, val)

    def traced_str(self, s: str):
        tracer = self

        class TracedStr(str):
            def expandtabs(self, tabsize=8):
                return tracer.call("str.expandtabs", str.expandtabs, (str(self), tabsize), {})
        return TracedStr(s)

    def __enter__(self):
        mods = self.mods
        for modname in STAGE_MODULES:
            mod = mods[modname]
            for name, fn in list(vars(mod).items()):
                if name.startswith("_") or not callable(fn) or isinstance(fn, (type, types.ModuleType)):
                    continue
                if getattr(fn, "__module__", None) != mod.__name__:
                    continue
                self._set(mod, name, self._wrap(f"{modname}.{name}", fn))
        proc, main = mods["processing"], mods["main"]
        self._set(proc, "minimize_whitespace_line_differences",
                  self._wrap("processing.minimize_whitespace_line_differences", proc.minimize_whitespace_line_differences))
        real_chain = proc.chain

        def chain(fix_funcs, *a, **k):
            fix_funcs = tuple(fix_funcs)
            built = real_chain(fix_funcs, *a, **k)
            label = "processing.chain[" + ",".join(getattr(f, "__name__", "?") for f in fix_funcs) + "]"
            return self._wrap(label, built)
        self._set(proc, "chain", chain)
        real_rmspace, real_textwrap = main.rmspace, main.textwrap
        self._set(main, "rmspace", types.SimpleNamespace(format_str=self._wrap("rmspace.format_str", real_rmspace.format_str)))
        self._set(main, "textwrap", types.SimpleNamespace(dedent=self._wrap("textwrap.dedent", real_textwrap.dedent),
                                                          indent=self._wrap("textwrap.indent", real_textwrap.indent)))
        # since repair ffe758f the snippet is re-indented by core.indent (textwrap.indent splits at form feeds etc.):
        # the same stage of the driver, recorded under the same name
        core = mods["core"]
        if hasattr(core, "indent"):
            self._set(core, "indent", self._wrap("textwrap.indent", core.indent))
        real_multi = main._multi_run_fixes

        @functools.wraps(real_multi)
        def multi(*a, **k):
            self.in_multi, self.multi_idx = True, 0
            try:
                return real_multi(*a, **k)
            finally:
                self.multi_counts.append(self.multi_idx)
                self.in_multi = False
        self._set(main, "_multi_run_fixes", multi)
        # since repair 9438482 main.format_code is a wrapper around main._format_code (which holds the stages): the
        # str subclass that intercepts expandtabs has to be handed to the inner function (text + "\n" is a plain str)
        if hasattr(main, "_format_code"):
            real_inner = main._format_code

            @functools.wraps(real_inner)
            def inner(source, *a, **k):
                return real_inner(self.traced_str(str(source)), *a, **k)
            self._set(main, "_format_code", inner)
        for (modkey, attr), val in self.overrides.items():
            self._set(mods[modkey], attr, val)
        return self

    def format_code(self, source: str, **opts):
        """main.format_code on `source` with expandtabs intercepted (inside a `with` block)"""
        main = self.mods["main"]
        if hasattr(main, "_format_code"):
            return main.format_code(source, **opts)
        return main.format_code(self.traced_str(source), **opts)

    def __exit__(self, *exc):
        for obj, attr, val in reversed(self._saved):
            setattr(obj, attr, val)
        self._saved.clear()
        return False


def clear_caches(mods):
    core = mods["core"]
    for name in ("parse", "_group_nodes_in_scope", "_get_line_start_charnos"):
        f = getattr(core, name, None)
        if f is not None and hasattr(f, "cache_clear"):
            f.cache_clear()


def trace_format_code(mods, source: str, **opts):
    """Real run with recording: returns (result text or exception instance, log of (name, in, out, recall))
    where recall(text) re-applies the same stage (same keyword arguments) to another text."""
    log = []

    def handler(tr, name, fn, args, kwargs):
        r = fn(*args, **kwargs)
        if name == "processing.minimize_whitespace_line_differences":
            a0, out = args[1], r[0]
            recall = (lambda t, fn=fn, o=args[0]: fn(o, t)[0])
        else:
            a0, out = args[0], r
            recall = (lambda t, fn=fn, rest=args[1:], kw=dict(kwargs): fn(t, *rest, **kw))
        if isinstance(a0, str) and isinstance(out, str):
            log.append((name, str(a0), out, recall))
        return r

    clear_caches(mods)
    tr = Tracer(mods, handler)
    with tr:
        try:
            res = tr.format_code(source, **opts)
        except Exception as e:  # noqa
            res = e
    return res, log
