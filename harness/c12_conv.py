"""C12 glue: converters  Python value / template  ->  Gallina terms of coq/theories/MatchModel.v,
canonicalisation of core.match_template results, an independent reference for compile_template and
an independent brute-force *declarative* matcher (the property's oracle).  Trusted base of C12."""
from __future__ import annotations

import ast
import re

from .common import glist, gbool


def gz(n: int) -> str:
    return f"({n})%Z"


def gn(n: int) -> str:
    return f"{n}%N"

POS_ATTRS = ("lineno", "col_offset", "end_lineno", "end_col_offset")
ATOM_TYPES = (type(None), bool, int, str, float, complex, bytes, type(Ellipsis))
ALL_AST = sorted({c for c in vars(ast).values() if isinstance(c, type) and issubclass(c, ast.AST)},
                 key=lambda c: c.__name__)


IMPOSSIBLE = "(Some (None, []))"     # a result shape the model never produces: always a disagreement


class OutOfDomain(Exception):
    """The case is outside what the model represents (stated in design/C12.md)."""


class Intern:
    """str -> nat, stable inside one run; stands for equality of unparse()/str() texts."""

    def __init__(self):
        self.tab: dict[str, int] = {}

    def __call__(self, s: str) -> int:
        return self.tab.setdefault(s, len(self.tab))


class Conv:
    def __init__(self, core):
        self.core = core
        self.intern = Intern()
        self.uids: dict[int, int] = {}      # id(node) -> uid
        self.keep: list = []                # keep converted objects alive (ids must stay unique)
        self.defs: dict[str, tuple] = {}    # Gallina name -> (sequence number, text, names it uses)
        self._vcache: dict[int, str] = {}
        self.text_of: dict[int, ast.AST] = {}

    def define(self, name: str, text: str) -> str:
        deps = set(re.findall(r"\b(?:n|t)_\d+\b", text))
        self.defs[name] = (len(self.defs), text, deps)
        return name

    # ---- atoms ------------------------------------------------------------------------------
    def atom(self, x) -> str:
        if x is None:
            return "ANone"
        if x is True or x is False:
            return f"(ABool {gbool(x)})"
        if type(x) is int:
            return f"(AInt {gz(x)})"
        if type(x) is str:
            return f"(AStr {gn(self.intern('s:' + x))})"
        if type(x) is float:
            if x != x:
                raise OutOfDomain("nan")
            return f'(AOth "float" {gn(self.intern("f:" + repr(x + 0.0)))})'      # -0.0 == 0.0
        if type(x) is complex:
            return f'(AOth "complex" {gn(self.intern("c:" + repr(x + 0)))})'
        if type(x) is bytes:
            return f'(AOth "bytes" {gn(self.intern("b:" + repr(x)))})'
        if x is Ellipsis:
            return '(AOth "ellipsis" 0%N)'
        raise OutOfDomain(f"atom {type(x).__name__}")

    def key(self, x) -> int:
        """what _all_fields_consistent compares (core.py:134)"""
        if isinstance(x, ast.AST):
            x = self.text_of.get(id(x), x)      # hand-built copies unparse like the node they were copied from
            try:
                return self.intern("u:" + self.core.unparse(x))
            except Exception as e:  # noqa
                raise OutOfDomain(f"unparse fails: {type(e).__name__}")
        return self.intern("u:" + str(x))

    def uid(self, node) -> int:
        if id(node) not in self.uids:
            self.uids[id(node)] = len(self.uids)
            self.keep.append(node)
        return self.uids[id(node)]

    # ---- values -----------------------------------------------------------------------------
    def value(self, x) -> str:
        if isinstance(x, ast.AST):
            c = self._vcache.get(id(x))
            if c is not None:
                return c
            d = vars(x)
            names = [f for f in getattr(x, "_fields", ()) if f in d]
            names += [k for k in d if k not in names and k not in POS_ATTRS]
            fs = [f'("{k}", {self.value(d[k])})' for k in names]
            fs.append(f'("@", VA 0%N (AInt {gz(self.uid(x))}))')
            s = f'(VT {gn(self.key(x))} "{type(x).__name__}" {glist(fs)})'
            s = self.define(f"n_{self.uid(x)}", s)      # every node is defined once and shared by name
            self._vcache[id(x)] = s
            return s
        if isinstance(x, list):
            return f"(VL {gn(self.key(x))} {glist([self.value(a) for a in x])})"
        if isinstance(x, ATOM_TYPES):
            return f"(VA {gn(self.key(x))} {self.atom(x)})"
        raise OutOfDomain(f"value {type(x).__name__}")

    # ---- templates --------------------------------------------------------------------------
    def type_tags(self, t: type) -> list[str]:
        if issubclass(t, ast.AST):
            return [c.__name__ for c in ALL_AST if issubclass(c, t)]
        tags = [a.__name__ for a in ATOM_TYPES if issubclass(a, t)]
        if issubclass(list, t):
            tags.append("list")
        return tags

    def wild_names(self, t, acc=None, seen=None) -> list[str]:
        acc = [] if acc is None else acc
        seen = set() if seen is None else seen
        if id(t) in seen:
            return acc
        seen.add(id(t))
        core = self.core
        if isinstance(t, core.Wildcard):
            acc.append(t.name)
            self.wild_names(t.template, acc, seen)
        elif isinstance(t, (core.ZeroOrOne, core.ZeroOrMany, core.OneOrMany)):
            self.wild_names(t.template, acc, seen)
        elif isinstance(t, type):
            pass
        elif isinstance(t, (list, tuple, set, frozenset)):
            for c in t:
                self.wild_names(c, acc, seen)
        elif isinstance(t, ast.AST):
            for c in vars(t).values():
                self.wild_names(c, acc, seen)
        return acc

    def name_ids(self, *templates) -> dict[str, int]:
        ns = sorted({n for t in templates for n in self.wild_names(t)})
        if "root" in ns:
            raise OutOfDomain("wildcard named root")
        return {n: i for i, n in enumerate(ns)}

    def root_is_node(self, t) -> bool:
        if isinstance(t, list):
            return False
        if isinstance(t, tuple):
            return all(self.root_is_node(c) for c in t)
        return True

    def tmpl(self, t, ignore, ids, sort_fields=False) -> str:
        core = self.core
        rec = lambda c: self.tmpl(c, ignore, ids, sort_fields)  # noqa
        if isinstance(t, type):
            if t is object:
                return "TAny"
            return f"(TType {glist(self.type_tags(t), lambda s: chr(34) + s + chr(34))})"
        if isinstance(t, tuple):
            return f"(TOr {glist([rec(c) for c in t])})"
        if isinstance(t, (set, frozenset)):
            items = [rec(c) for c in tuple(t)]
            return f"(TSet {glist(sorted(items) if sort_fields else items)})"
        if isinstance(t, list):
            its = []
            for c in t:
                if isinstance(c, core.ZeroOrOne):
                    its.append(f"(Opt {rec(c.template)})")
                elif isinstance(c, core.ZeroOrMany):
                    its.append(f"(Star {rec(c.template)})")
                elif isinstance(c, core.OneOrMany):
                    its.append(f"(Plus {rec(c.template)})")
                else:
                    its.append(f"(One {rec(c)})")
            return f"(TList {glist(its)})"
        if t is True or t is False or t is None:
            return f"(TAtom {self.atom(t)})"
        if isinstance(t, core.Wildcard):
            if t.name == "Ellipsis_anything" and t.template is object:
                return "TEll"
            if not self.root_is_node(t.template):
                # the match of a list template carries the template permutation in its root slot
                # (core.py:250) and a wildcard would bind THAT; the model does not represent it
                raise OutOfDomain("wildcard over a list template")
            return f"(TWild {ids[t.name]} {gbool(bool(t.common))} {rec(t.template)})"
        if isinstance(t, (core.ZeroOrOne, core.ZeroOrMany, core.OneOrMany)):
            return f'(TNode "{type(t).__name__}" [])'      # never matches a source node
        if isinstance(t, ast.AST):
            keys = list(vars(t).keys() - ignore)           # the very expression of core.py:283
            if any(k in POS_ATTRS for k in keys):
                raise OutOfDomain("template with position attributes that are not ignored")
            if sort_fields:
                keys = sorted(keys)
            fs = [f'("{k}", {rec(vars(t)[k])})' for k in keys]
            return f'(TNode "{type(t).__name__}" {glist(fs)})'
        if isinstance(t, ATOM_TYPES):
            return f"(TAtom {self.atom(t)})"
        raise OutOfDomain(f"template {type(t).__name__}")

    # ---- results ----------------------------------------------------------------------------
    def ref(self, x) -> str:
        if isinstance(x, ast.AST):
            return f"(RUid {gz(self.uid(x))})"
        if isinstance(x, list):
            return f'(RKey "list" {gn(self.key(x))})'
        if isinstance(x, ATOM_TYPES):
            return f'(RKey "{type(x).__name__}" {gn(self.key(x))})'
        raise OutOfDomain(f"result value {type(x).__name__}")

    def expected(self, m, ids, skip_root=False) -> str:
        """canonical form of a core.match_template result (tuple / namedtuple / ())"""
        if not m:
            return "None"
        fields = getattr(m, "_fields", None)
        if type(m) is not tuple and fields == ("root",):
            # merge_matches returns the PLAIN tuple (root,) when nothing is bound (core.py:150); a
            # namedtuple with only `root` is not a result the model has
            return IMPOSSIBLE
        if fields is None:
            assert len(m) == 1, m
            root = "(Some RSkip)" if skip_root else f"(Some {self.ref(m[0])})"
            return f"(Some ({root}, []))"
        root = "None"
        bs = []
        for f, x in zip(fields, m):
            if f == "root":
                root = "(Some RSkip)" if skip_root else f"(Some {self.ref(x)})"
            else:
                bs.append(f"({ids[f]}, {self.ref(x)})")
        return f"(Some ({root}, {glist(bs)}))"


# ---------------------------------------------------------------------------------------------
# independent reference for compile_template (expressions and simple statements only)

_PH = re.compile(r"\{\{(\w+|\.\.\.)([?*+]?)\}\}")


def ref_compile(core, source: str, expand=(), **types):
    """pattern text -> template objects, written from the documented meaning of the {{..}} syntax:
    {{n}} = Wildcard(n), {{n?}} {{n*}} {{n+}} = quantified Wildcard(n, common=False), {{...}} =
    anything (binds nothing) and its quantified forms; positions and ctx are not part of a pattern;
    a single expression statement stands for its expression.  `types`: name=<type or tuple of types>
    restricts what the wildcard matches.  `expand`: a list field that consists of the single wildcard
    `{{n}}` with n in expand stands for any number of elements, each matching it (a set template)."""
    table = {}
    expand = (expand,) if isinstance(expand, str) else tuple(expand)
    def clean(v):
        """a wildcard's own template: a type, a tuple of such, or a wildcard-free AST instance (of which
        positions and ctx are not part of the pattern)"""
        if isinstance(v, type):
            return v
        if isinstance(v, tuple):
            return tuple(clean(c) for c in v)
        if isinstance(v, ast.AST) and not isinstance(v, (core.Wildcard, core.ZeroOrOne, core.ZeroOrMany, core.OneOrMany)):
            kw = {}
            for k, c in vars(v).items():
                if k in POS_ATTRS or k == "ctx":
                    continue
                kw[k] = [clean(e) for e in c] if isinstance(c, list) else (clean(c) if isinstance(c, ast.AST) else c)
            return type(v)(**kw)
        raise OutOfDomain("wildcard template that is neither a type nor a plain AST instance")
    types = {k: clean(v) for k, v in types.items()}

    def sub(m):
        nm, suf = m.group(1), m.group(2)
        ph = f"zzph{len(table)}zz"
        for k, v in table.items():
            if v == (nm, suf):
                return k
        table[ph] = (nm, suf)
        return ph

    text = _PH.sub(sub, source)
    by_name = {}
    for nm, suf in table.values():
        if nm != "..." and by_name.setdefault(nm, suf) != suf:
            # compile_template keys its wildcard table by name: {{x}} with {{x*}} raises ValueError
            raise OutOfDomain("one name with two different quantifier suffixes")
    tree = ast.parse(text)

    def wildcard(ph):
        nm, suf = table[ph]
        q = {"": None, "?": core.ZeroOrOne, "*": core.ZeroOrMany, "+": core.OneOrMany}[suf]
        if nm == "...":
            w = core.Wildcard("Ellipsis_anything", object, common=False) if q is None else object
        else:
            w = core.Wildcard(nm, types.get(nm, object), common=q is None)
        return w if q is None else q(w)

    def fin(node):
        if not expand or not isinstance(node, ast.AST):
            return node
        kw, changed = dict(vars(node)), False
        for k, v in kw.items():
            if isinstance(v, list) and v and isinstance(v[0], core.Wildcard) and v[0].name in expand:
                if len(v) != 1:
                    raise OutOfDomain("expand of a list with more than one element (compile_template asserts)")
                kw[k], changed = {v[0]}, True
        return type(node)(**kw) if changed else node

    def go(x):
        return fin(go0(x))

    def go0(x):
        if isinstance(x, list):
            return [go(c) for c in x]
        if not isinstance(x, ast.AST):
            return x
        if isinstance(x, ast.Name) and x.id in table:
            return wildcard(x.id)
        if isinstance(x, ast.Expr) and isinstance(x.value, ast.Name) and x.value.id in table:
            w = wildcard(x.value.id)
            if isinstance(w, core.Wildcard) and isinstance(w.template, (ast.Name, ast.Attribute, ast.Constant)):
                # a statement-level wildcard typed by an expression instance stands for that expression
                # statement (visit_Expr)
                w = core.Wildcard(w.name, ast.Expr(w.template), common=w.common)
            return w
        if isinstance(x, (ast.FunctionDef, ast.AsyncFunctionDef, ast.ClassDef, ast.arg)):
            raise OutOfDomain("definition patterns are outside the reference")
        if isinstance(x, ast.ImportFrom):
            # `from m import a` is the ABSOLUTE import: level is part of the pattern, 0 included
            module = wildcard(x.module) if x.module in table else x.module
            if not isinstance(module, (str, type(None), core.Wildcard)):
                raise OutOfDomain("quantified module name")
            return ast.ImportFrom(module=module, names=[go(a) for a in x.names], level=x.level)
        if isinstance(x, ast.alias):
            name = wildcard(x.name) if x.name in table else x.name
            asname = wildcard(x.asname) if x.asname in table else x.asname
            if isinstance(name, (core.ZeroOrOne, core.ZeroOrMany, core.OneOrMany)):
                # a quantified name stands for whole aliases, with or without `as` (documented in
                # visit_alias: "we match both in the case where new_asname is None")
                return type(name)(ast.alias(name=name.template, asname=object if asname is None else asname))
            return ast.alias(name=name, asname=asname)
        kw = {}
        for k, v in vars(x).items():
            if k in POS_ATTRS or k == "ctx":
                continue
            if isinstance(x, ast.Attribute) and k == "attr" and v in table:
                kw[k] = wildcard(v)
            else:
                kw[k] = go(v)
        return type(x)(**kw)

    body = go(tree.body)
    if len(body) > 1:
        return body
    t = body[0]
    if isinstance(t, ast.Expr):
        return t.value
    return t


# ---------------------------------------------------------------------------------------------
# independent declarative matcher: the property's oracle.  Complete backtracking search for an
# environment rho such that the value IS the template with each common wildcard replaced by rho's
# tree (same source text for every occurrence) and every item list read as a regular expression.


def decl_solve(core, t, v, env, ignore):
    """yield every extension of env under which template t matches value v"""
    if isinstance(t, type):
        if isinstance(v, t):
            yield env
        return
    if isinstance(t, tuple):
        for c in t:
            yield from decl_solve(core, c, v, env, ignore)
        return
    if isinstance(t, (set, frozenset)):
        if not isinstance(v, list):
            return
        yield from _decl_seq(core, [tuple(t)] * len(v), v, env, ignore)
        return
    if isinstance(t, list):
        if not isinstance(v, list):
            return
        yield from _decl_items(core, t, v, env, ignore)
        return
    if t is True or t is False or t is None:
        if v is t:
            yield env
        return
    if isinstance(t, core.Wildcard):
        if t.name == "Ellipsis_anything" and t.template is object:
            yield env
            return
        for e in decl_solve(core, t.template, v, env, ignore):
            if not t.common:
                yield e
                continue
            text = core.unparse(v) if isinstance(v, ast.AST) else str(v)
            if t.name in e:
                if e[t.name] == text:
                    yield e
            else:
                yield {**e, t.name: text}
        return
    if isinstance(t, ast.AST):
        if not isinstance(v, ast.AST) or type(v) is not type(t):
            return
        keys = [k for k in vars(t) if k not in ignore]
        if any(k not in vars(v) for k in keys):
            return
        yield from _decl_seq(core, [vars(t)[k] for k in keys], [vars(v)[k] for k in keys], env, ignore)
        return
    # plain constants: the same constant, of the same type (the pattern `1` is the int 1)
    if type(v) is type(t) and v == t:
        yield env


def _decl_seq(core, ts, vs, env, ignore):
    if not ts:
        yield env
        return
    for e in decl_solve(core, ts[0], vs[0], env, ignore):
        yield from _decl_seq(core, ts[1:], vs[1:], e, ignore)


def _decl_items(core, items, vs, env, ignore):
    if not items:
        if not vs:
            yield env
        return
    it = items[0]
    if isinstance(it, core.ZeroOrOne):
        lo, hi, tt = 0, 1, it.template
    elif isinstance(it, core.ZeroOrMany):
        lo, hi, tt = 0, len(vs), it.template
    elif isinstance(it, core.OneOrMany):
        lo, hi, tt = 1, len(vs), it.template
    else:
        lo, hi, tt = 1, 1, it
    for n in range(lo, min(hi, len(vs)) + 1):
        for e in _decl_seq(core, [tt] * n, vs[:n], env, ignore):
            yield from _decl_items(core, items[1:], vs[n:], e, ignore)


def decl_matches(core, t, v, ignore=()) -> bool:
    return next(decl_solve(core, t, v, {}, ignore), None) is not None


def decl_findall(core, template, root, ignore=()) -> list:
    """every sub-node of root (ast.walk order) that the template matches declaratively; statement
    sequence templates (a list): every window of a body/orelse of module/def/class/if/for/while/with"""
    if isinstance(template, list):
        out = []
        kinds = (ast.Module, ast.FunctionDef, ast.AsyncFunctionDef, ast.ClassDef, ast.If, ast.For, ast.While,
                 ast.With)
        k = len(template)
        for node in ast.walk(root):
            if type(node) not in kinds:
                continue
            for body in (getattr(node, "body", []), getattr(node, "orelse", [])):
                for i in range(0, len(body) - k + 1):
                    if next(_decl_seq(core, template, body[i:i + k], {}, ignore), None) is not None:
                        out.append(tuple(body[i:i + k]))
        return out
    return [n for n in ast.walk(root) if decl_matches(core, template, n, ignore)]


# ---------------------------------------------------------------------------------------------
# Python twin of MatchModel.match_tmpl (a transliteration of the Gallina model, NOT of core.py): used
# only to decide whether a wrong search answer is an instance of a *listed* finding -- the model has
# exactly the listed defects, so an answer the twin does not reproduce is a new defect.

_NOROOT = object()


def _key(core, x):
    return core.unparse(x) if isinstance(x, ast.AST) else str(x)


def _twin_merge(core, root, rs):
    acc = {}
    for r in rs:
        if r is None:
            return None
    for r in rs:
        for n, x in r[1].items():
            if n in acc and _key(core, acc[n]) != _key(core, x):
                return None
            acc[n] = x
    return (root, acc)


def _twin_cvecs(core, items, n):
    def lohi(it, slack):
        if isinstance(it, core.ZeroOrOne):
            return 0, 1
        if isinstance(it, core.ZeroOrMany):
            return 0, slack
        if isinstance(it, core.OneOrMany):
            return 1, 1 + slack
        return 1, 1
    mins = sum(lohi(it, 0)[0] for it in items)
    if n < mins:
        return
    slack = n - mins

    def go(i, left):
        if i == len(items):
            if left == 0:
                yield []
            return
        lo, hi = lohi(items[i], slack)
        for c in range(lo, hi + 1):
            if c <= left:
                for rest in go(i + 1, left - c):
                    yield [c] + rest
    yield from go(0, n)


def twin_match(core, t, v, ignore):
    if isinstance(t, type):
        return (v, {}) if isinstance(v, t) else None
    if isinstance(t, tuple):
        for c in t:
            r = twin_match(core, c, v, ignore)
            if r is not None:
                return r
        return None
    if isinstance(t, (set, frozenset)):
        if not isinstance(v, list):
            return None
        return _twin_merge(core, v, [twin_match(core, tuple(t), a, ignore) for a in v])
    if isinstance(t, list):
        if not isinstance(v, list):
            return None
        for cs in _twin_cvecs(core, t, len(v)):
            exp = []
            for it, c in zip(t, cs):
                tt = it.template if isinstance(it, (core.ZeroOrOne, core.ZeroOrMany, core.OneOrMany)) else it
                exp += [tt] * c
            r = _twin_merge(core, v, [twin_match(core, tt, a, ignore) for tt, a in zip(exp, v)])
            if r is not None:
                return r
        return None
    if t is True or t is False or t is None:
        return (v, {}) if v is t else None
    if isinstance(t, core.Wildcard):
        if t.name == "Ellipsis_anything" and t.template is object:
            return (v, {})
        r = twin_match(core, t.template, v, ignore)
        if r is None:
            return None
        n = (0 if r[0] is _NOROOT else 1) + len(r[1])
        if n != 1:
            return None
        first = r[0] if r[0] is not _NOROOT else next(iter(r[1].values()))
        return (_NOROOT, {t.name: first})
    if isinstance(t, ast.AST):
        if not isinstance(v, ast.AST) or type(v) is not type(t):
            return None
        keys = [k for k in vars(t) if k not in ignore]
        if any(k not in vars(v) for k in keys):
            return None
        return _twin_merge(core, v, [twin_match(core, vars(t)[k], vars(v)[k], ignore) for k in keys])
    return (v, {}) if type(v) is type(t) and v == t else None


def twin_findall(core, template, root):
    """the model's search: walk_wildcard (ignore=()) / walk_sequence windows (DEFAULT_IGNORE)"""
    if isinstance(template, list):
        out = []
        kinds = (ast.Module, ast.FunctionDef, ast.AsyncFunctionDef, ast.ClassDef, ast.If, ast.For, ast.While,
                 ast.With)
        k = len(template)
        for node in ast.walk(root):
            if type(node) not in kinds:
                continue
            for body in (getattr(node, "body", []), getattr(node, "orelse", [])):
                for i in range(0, len(body) - k + 1):
                    rs = [twin_match(core, t, n, core.DEFAULT_IGNORE) for t, n in zip(template, body[i:i + k])]
                    if _twin_merge(core, root, rs) is not None:
                        out.append(tuple(body[i:i + k]))
        return out
    if isinstance(template, type):
        cand = [n for n in ast.walk(root) if isinstance(n, template)]
    elif isinstance(template, ast.AST) and not isinstance(template, core.Wildcard):
        cand = [n for n in ast.walk(root) if type(n) is type(template)]
    else:
        cand = []
    return [n for n in cand if twin_match(core, template, n, ()) is not None]


# structural predicates on compiled patterns (signatures of the known findings)

def _walk_tmpl(core, t, fn, inside=()):
    fn(t, inside)
    if isinstance(t, core.Wildcard):
        _walk_tmpl(core, t.template, fn, inside)
    elif isinstance(t, (core.ZeroOrOne, core.ZeroOrMany, core.OneOrMany)):
        _walk_tmpl(core, t.template, fn, inside)
    elif isinstance(t, type):
        pass
    elif isinstance(t, list):
        for c in t:
            _walk_tmpl(core, c, fn, inside + (id(t),))
    elif isinstance(t, (tuple, set, frozenset)):
        for c in t:
            _walk_tmpl(core, c, fn, inside)
    elif isinstance(t, ast.AST):
        for c in vars(t).values():
            _walk_tmpl(core, c, fn, inside)


def has_noncommon_named(core, tmpl) -> bool:
    hit = []
    _walk_tmpl(core, tmpl, lambda t, _: hit.append(1) if isinstance(t, core.Wildcard) and not t.common
               and not t.name.endswith("_anything") else None)
    return bool(hit)


def name_in_and_out_of_quantified_list(core, tmpl) -> bool:
    """a common name occurs inside a list that has a ? * + item and also outside that list"""
    qlists, occ = set(), []

    def fn(t, inside):
        if isinstance(t, list) and any(isinstance(c, (core.ZeroOrOne, core.ZeroOrMany, core.OneOrMany)) for c in t):
            qlists.add(id(t))
        if isinstance(t, core.Wildcard) and t.common:
            occ.append((t.name, inside))
    _walk_tmpl(core, tmpl, fn)
    for name, inside in occ:
        for L in inside:
            if L in qlists and any(n == name and L not in ins for n, ins in occ):
                return True
    return False
