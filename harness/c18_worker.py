"""Subprocess worker for C18: really imports generated package trees under CPython.

stdin: JSON {"jobs": [{"dir": tree directory, "modules": [names], "pool": [names],
                       "clients": [{"id":.., "before": src, "after": src | null, "names": [..]}]}]}
stdout: one JSON document {"results": [{"namespaces": {module: {name: tag}} | {"error": ..},
                                         "clients": [{"id":.., "before": {...}, "after": {...}, "diff": [...]}]}]}

For every job the tree directory becomes cwd and sys.path[0]; modules of earlier trees are purged.
tag(value): ["obj", module, name] for the tagged lists / functions / classes the generator emits,
["mod", name] for modules, ["other", type, repr] otherwise.  A client is executed before/after in
the SAME process (same sys.modules), so `is` decides whether a name resolves to the same object."""
import contextlib
import importlib
import io
import json
import os
import re
import sys
import types

MISSING = ["missing"]


def tag(v):
    if isinstance(v, types.ModuleType):
        return ["mod", v.__name__]
    if isinstance(v, list) and len(v) == 1 and isinstance(v[0], str) and v[0].startswith("@"):
        m, _, n = v[0][1:].rpartition(":")
        return ["obj", m, n]
    if isinstance(v, (types.FunctionType, type)) and getattr(v, "__module__", None):
        return ["obj", v.__module__, v.__qualname__]
    return ["other", type(v).__name__, repr(v)[:80]]


def purge(root):
    for name, mod in list(sys.modules.items()):
        f = getattr(mod, "__file__", None) or ""
        p = getattr(mod, "__path__", None)
        if f.startswith(root) or (p and any(str(x).startswith(root) for x in p)):
            del sys.modules[name]
    importlib.invalidate_caches()


def run_client(src, names, package=None):
    ns = {"__name__": "client_mod"}
    if package:
        ns = {"__name__": package + ".client_mod", "__package__": package}
    out = {"exc": None}
    buf = io.StringIO()
    try:
        with contextlib.redirect_stdout(buf), contextlib.redirect_stderr(buf):
            exec(compile(src, "client_mod.py", "exec"), ns)
    except BaseException as e:  # noqa
        out["exc"] = type(e).__name__ + ": " + str(e)[:120]
    out["stdout"] = re.sub(r" at 0x[0-9a-fA-F]+", "", buf.getvalue())[:400]   # objects the client creates move
    return ns, out


def probe(ns, names):
    """value of each referenced global; functions of the client are called to observe local imports"""
    vals = {}
    for n in names:
        vals[n] = ns.get(n, MISSING)
    return vals


def same(a, b):
    if a is b:
        return True
    if a is MISSING or b is MISSING:
        return False
    ta, tb = tag(a), tag(b)
    # objects the client itself creates are re-created by the second execution
    return ta == tb and ta[0] == "obj" and ta[1] == "client_mod"


def main():
    req = json.load(sys.stdin)
    base = req.get("base", "")
    results = []
    sys.path.insert(0, "")
    for job in req["jobs"]:
        d = job["dir"]
        os.chdir(d)
        sys.path[0] = d
        if base:
            purge(base)
        res = {"namespaces": {}, "clients": []}
        for m in job.get("modules", []):
            try:
                with contextlib.redirect_stdout(io.StringIO()):
                    mod = importlib.import_module(m)
                res["namespaces"][m] = {n: tag(getattr(mod, n)) for n in job["pool"] if hasattr(mod, n)}
            except BaseException as e:  # noqa
                res["namespaces"][m] = {"__error__": type(e).__name__ + ": " + str(e)[:120]}
        for c in job.get("clients", []):
            if c.get("fresh"):
                # import-time effects matter: every execution starts without the tree's modules and with the
                # original sys.path; only stdout and the exception are compared (objects are re-created)
                path0 = list(sys.path)
                outs = []
                for src in (c["before"], c["after"]):
                    purge(base or d)
                    _, o = run_client(src, [], c.get("package"))
                    sys.path[:] = path0
                    outs.append(o)
                diff = []
                if outs[0]["stdout"] != outs[1]["stdout"]:
                    diff.append("<stdout>")
                if (outs[0]["exc"] or "").split(":")[0] != (outs[1]["exc"] or "").split(":")[0]:
                    diff.append("<exception>")
                res["clients"].append({"id": c["id"], "before": outs[0], "after": outs[1], "diff": diff})
                continue
            ns0, o0 = run_client(c["before"], c["names"])
            v0 = probe(ns0, c["names"])
            r = {"id": c["id"], "before": {"exc": o0["exc"], "vals": {n: (tag(v) if v is not MISSING else MISSING)
                                                                       for n, v in v0.items()}}}
            if c.get("calls"):
                r["before"]["stdout"] = o0["stdout"]
            if c.get("after") is not None:
                ns1, o1 = run_client(c["after"], c["names"])
                v1 = probe(ns1, c["names"])
                r["after"] = {"exc": o1["exc"], "vals": {n: (tag(v) if v is not MISSING else MISSING)
                                                         for n, v in v1.items()}}
                diff = [n for n in c["names"] if not same(v0[n], v1[n])]
                if c.get("calls") and o0["stdout"] != o1["stdout"]:
                    diff.append("<stdout>")
                    r["after"]["stdout"] = o1["stdout"]
                if (o0["exc"] is None) != (o1["exc"] is None):
                    diff.append("<exception>")
                r["diff"] = diff
            res["clients"].append(r)
        results.append(res)
    json.dump({"results": results}, sys.stdout)


if __name__ == "__main__":
    main()
