"""Expression / statement terms of EffectModel.v: printers to Python source and to Gallina, and the
converter from `ast` (used for witnesses and for whole modules).

expressions
  ("const", is_str, text) ("name", x) ("unary", op, e) ("bin", op, l, r) ("cmp", l, [(op, r)...])
  ("bool", "and"|"or", [e...]) ("ifexp", t, b, o) ("seq", "list"|"tuple"|"set", [e...])
  ("dict", [(k|None, v)...]) ("attr", e, a) ("sub", e, i) ("slice", lo|None, hi|None, st|None)
  ("call", f, [arg...], [(kw|None, v)...]) ("star", e) ("comp", "list"|"set"|"gen", elt, gens)
  ("dictcomp", k, v, gens) ("fstr", [part...]) part = ("const", True, text) | ("fmt", v, spec|None)
  ("lambda", [param...], star, [default...], body) ("named", x, v) ("other", "yield"|"await", [e...])
  gens = [(("name", x) | ("tuple", [x...]), iter, [if...])...]
targets
  ("tname", x) ("tattr", e, a) ("tsub", e, i) ("tseq", [t...]) ("tstar", t)
statements
  ("expr", e) ("assign", [t...], v) ("aug", t, v) ("pass",) ("ctl", "return"|"raise"|"break"|"continue")
  ("if", t, b, o) ("for", t, it, b, o) ("while", t, b, o) ("with", ctx, b)
  ("def", "def"|"class", x, [deco...], [evaluated...], cbody) ("otherstmt", text)
"""
from __future__ import annotations

import ast

from .common import glist


class Unsupported(Exception):
    pass


# ---------------------------------------------------------------------------------------------
# printing to Python (every compound sub-expression is parenthesised: `ast` ignores the parentheses)


def P(e) -> str:
    s = e_src(e)
    return s if e[0] == "name" or (e[0] == "const" and e[1]) else "(" + s + ")"


def gens_src(gens) -> str:
    out = []
    for tgt, it, ifs in gens:
        t = tgt[1] if tgt[0] == "name" else "(" + ", ".join(tgt[1]) + ("," if len(tgt[1]) == 1 else "") + ")"
        out.append(f"for {t} in {P(it)}" + "".join(f" if {P(c)}" for c in ifs))
    return " ".join(out)


def fstr_body(parts) -> str:
    out = ""
    for p in parts:
        if p[0] == "const":
            out += p[3] if len(p) > 3 else "t"
        else:
            out += "{" + P(p[1]) + ("" if p[2] is None else ":" + fstr_body(p[2][1])) + "}"
    return out


def e_src(e) -> str:
    k = e[0]
    if k == "const":
        return e[2]
    if k == "name":
        return e[1]
    if k == "unary":
        return f"{e[1]} {P(e[2])}"
    if k == "bin":
        return f"{P(e[2])} {e[1]} {P(e[3])}"
    if k == "cmp":
        return P(e[1]) + "".join(f" {op} {P(r)}" for op, r in e[2])
    if k == "bool":
        return f" {e[1]} ".join(P(v) for v in e[2])
    if k == "ifexp":
        return f"{P(e[2])} if {P(e[1])} else {P(e[3])}"
    if k == "seq":
        items = ", ".join(P(x) if x[0] != "star" else e_src(x) for x in e[2])
        if e[1] == "list":
            return "[" + items + "]"
        if e[1] == "set":
            assert e[2]
            return "{" + items + "}"
        return "(" + items + ("," if len(e[2]) == 1 else "") + ")"
    if k == "dict":
        return "{" + ", ".join(("**" + P(v)) if kk is None else f"{P(kk)}: {P(v)}" for kk, v in e[1]) + "}"
    if k == "attr":
        return f"{P(e[1])}.{e[2]}"
    if k == "sub":
        return f"{P(e[1])}[{e_src(e[2]) if e[2][0] == 'slice' else P(e[2])}]"
    if k == "slice":
        lo, hi, st = (("" if x is None else P(x)) for x in e[1:4])
        return f"{lo}:{hi}" + ("" if e[3] is None else ":" + st)
    if k == "call":
        args = [e_src(a) if a[0] == "star" else P(a) for a in e[2]]
        args += [("**" + P(v)) if kw is None else f"{kw}={P(v)}" for kw, v in e[3]]
        # a generator expression as an argument keeps its own parentheses via P()
        return f"{P(e[1])}({', '.join(args)})"
    if k == "star":
        return "*" + P(e[1])
    if k == "comp":
        body = f"{P(e[2])} {gens_src(e[3])}"
        return {"list": "[" + body + "]", "set": "{" + body + "}", "gen": "(" + body + ")"}[e[1]]
    if k == "dictcomp":
        return "{" + f"{P(e[1])}: {P(e[2])} {gens_src(e[3])}" + "}"
    if k == "fstr":
        return 'f"' + fstr_body(e[1]) + '"'
    if k == "lambda":
        params = list(e[1])
        nd = len(e[3])
        ps = []
        for i, p in enumerate(params):
            j = i - (len(params) - nd)
            ps.append(p if j < 0 else f"{p}={P(e[3][j])}")
        if e[2]:
            ps.append("*" + e[2])
        return "lambda" + (" " + ", ".join(ps) if ps else "") + ": " + P(e[4])
    if k == "named":
        return f"{e[1]} := {P(e[2])}"
    if k == "other":
        if e[1] == "yield":
            return "yield" + (" " + P(e[2][0]) if e[2] else "")
        if e[1] == "await":
            return "await " + P(e[2][0])
    raise ValueError(e)


def t_src(t) -> str:
    k = t[0]
    if k == "tname":
        return t[1]
    if k == "tattr":
        return f"{P(t[1])}.{t[2]}"
    if k == "tsub":
        return f"{P(t[1])}[{P(t[2])}]"
    if k == "tseq":
        return "(" + ", ".join(t_src(x) for x in t[1]) + ("," if len(t[1]) == 1 else "") + ")"
    if k == "tstar":
        return "*" + t_src(t[1])
    raise ValueError(t)


def block_src(b, ind) -> str:
    if not b:
        return "    " * ind + "pass\n"
    return "".join(s_src(x, ind) for x in b)


def SE(e) -> str:
    """an expression in statement position (a walrus needs its parentheses there)"""
    return P(e) if e[0] in ("named", "other", "star") else e_src(e)


def s_src(s, ind=0) -> str:
    p = "    " * ind
    k = s[0]
    if k == "expr":
        return p + SE(s[1]) + "\n"
    if k == "assign":
        return p + "".join(t_src(t) + " = " for t in s[1]) + SE(s[2]) + "\n"
    if k == "aug":
        return p + f"{t_src(s[1])} += {SE(s[2])}\n"
    if k == "pass":
        return p + "pass\n"
    if k == "ctl":
        return p + {"return": "return", "raise": "raise E", "break": "break", "continue": "continue"}[s[1]] + "\n"
    if k == "if":
        out = p + f"if {SE(s[1])}:\n" + block_src(s[2], ind + 1)
        if s[3]:
            out += p + "else:\n" + block_src(s[3], ind + 1)
        return out
    if k == "for":
        out = p + f"for {t_src(s[1])} in {SE(s[2])}:\n" + block_src(s[3], ind + 1)
        if s[4]:
            out += p + "else:\n" + block_src(s[4], ind + 1)
        return out
    if k == "while":
        out = p + f"while {SE(s[1])}:\n" + block_src(s[2], ind + 1)
        if s[3]:
            out += p + "else:\n" + block_src(s[3], ind + 1)
        return out
    if k == "with":
        ctx = "(" + SE(s[1]) + ")" if s[1][0] == "seq" and s[1][1] == "tuple" else SE(s[1])
        return p + f"with {ctx}:\n" + block_src(s[2], ind + 1)
    if k == "def":
        out = "".join(p + "@" + SE(d) + "\n" for d in s[3])
        if s[1] == "def":
            params = ", ".join(f"p{i}={P(d)}" for i, d in enumerate(s[4]))
            return out + p + f"def {s[2]}({params}):\n" + block_src([], ind + 1)
        bases = ("(" + ", ".join(P(b) for b in s[4]) + ")") if s[4] else ""
        return out + p + f"class {s[2]}{bases}:\n" + block_src(s[5], ind + 1)
    if k == "otherstmt":
        return p + s[1] + "\n"
    raise ValueError(s)


# ---------------------------------------------------------------------------------------------
# printing to Gallina


def q(x: str) -> str:
    assert all(32 <= ord(c) < 127 and c != '"' for c in x), x
    return '"' + x + '"%string'


def elist(items, f) -> str:
    out = "ENil"
    for x in reversed(list(items)):
        out = f"(ECons {f(x)} {out})"
    return out


CONST0 = ("const", False, "None")


def gens_coq(gens) -> str:
    out = "GNil"
    for tgt, it, ifs in reversed(list(gens)):
        t = f"(CTName {q(tgt[1])})" if tgt[0] == "name" else f"(CTTuple {glist(tgt[1], q)})"
        out = f"(GCons {t} {e_coq(it)} {elist(ifs, e_coq)} {out})"
    return out


def e_coq(e) -> str:
    k = e[0]
    C = e_coq
    if k == "const":
        return f"(EConst {'true' if e[1] else 'false'})"
    if k == "name":
        return f"(EName {q(e[1])})"
    if k == "unary":
        return f"(EUnary {C(e[2])})"
    if k == "bin":
        return f"(EBin {C(e[2])} {C(e[3])})"
    if k == "cmp":
        return f"(ECompare {C(e[1])} {elist([r for _, r in e[2]], C)})"
    if k == "bool":
        return f"(EBoolOp {elist(e[2], C)})"
    if k == "ifexp":
        return f"(EIfExp {C(e[1])} {C(e[2])} {C(e[3])})"
    if k == "seq":
        return f"(ESeq {elist(e[2], C)})"
    if k == "dict":
        kvs = []
        for kk, v in e[1]:
            kvs += [CONST0 if kk is None else kk, v]
        return f"(EDict {elist(kvs, C)})"
    if k == "attr":
        return f"(EAttr {C(e[1])} {q(e[2])})"
    if k == "sub":
        return f"(ESub {C(e[1])} {C(e[2])})"
    if k == "slice":
        return "(ESlice " + " ".join(C(CONST0 if x is None else x) for x in e[1:4]) + ")"
    if k == "call":
        return f"(ECall {C(e[1])} {elist(e[2], C)} {elist([v for _, v in e[3]], C)})"
    if k == "star":
        return f"(EStarred {C(e[1])})"
    if k == "comp":
        return f"(EComp {C(e[2])} {gens_coq(e[3])})"
    if k == "dictcomp":
        return f"(EDictComp {C(e[1])} {C(e[2])} {gens_coq(e[3])})"
    if k == "fstr":
        return f"(EFStr {elist(e[1], C)})"
    if k == "fmt":
        return f"(EFmt {C(e[1])} {C(CONST0 if e[2] is None else e[2])})"
    if k == "lambda":
        return f"(ELambda {'true' if e[1] else 'false'} {elist(e[3], C)} {C(e[4])})"
    if k == "named":
        return f"(ENamed {q(e[1])} {C(e[2])})"
    if k == "other":
        return f"(EOther {elist(e[2], C)})"
    raise ValueError(e)


def t_coq(t) -> str:
    k = t[0]
    if k == "tname":
        return f"(TName {q(t[1])})"
    if k == "tattr":
        return f"(TAttr {e_coq(t[1])} {q(t[2])})"
    if k == "tsub":
        return f"(TSub {e_coq(t[1])} {e_coq(t[2])})"
    if k == "tseq":
        return f"(TSeq {tlist(t[1])})"
    if k == "tstar":
        return f"(TStar {t_coq(t[1])})"
    raise ValueError(t)


def tlist(ts) -> str:
    out = "TNil"
    for x in reversed(list(ts)):
        out = f"(TCons {t_coq(x)} {out})"
    return out


def slist(ss) -> str:
    out = "SNil"
    for x in reversed(list(ss)):
        out = f"(SCons {s_coq(x)} {out})"
    return out


def s_coq(s) -> str:
    k = s[0]
    if k == "expr":
        return f"(SExpr {e_coq(s[1])})"
    if k == "assign":
        return f"(SAssign {tlist(s[1])} {e_coq(s[2])})"
    if k == "aug":
        return f"(SAug {t_coq(s[1])} {e_coq(s[2])})"
    if k == "pass":
        return "SPass"
    if k == "ctl":
        return "(SControl " + {"return": "CReturn", "raise": "CRaise", "break": "CBreak", "continue": "CContinue"}[s[1]] + ")"
    if k == "if":
        return f"(SIf {e_coq(s[1])} {slist(s[2])} {slist(s[3])})"
    if k == "for":
        return f"(SFor {t_coq(s[1])} {e_coq(s[2])} {slist(s[3])} {slist(s[4])})"
    if k == "while":
        return f"(SWhile {e_coq(s[1])} {slist(s[2])} {slist(s[3])})"
    if k == "with":
        return f"(SWith {e_coq(s[1])} {slist(s[2])})"
    if k == "def":
        bases = "true" if s[1] == "class" and s[4] else "false"
        return f"(SDef {q(s[2])} {elist(s[3], e_coq)} {elist(s[4], e_coq)} {bases} {slist(s[5])})"
    if k == "otherstmt":
        return "SOther"
    raise ValueError(s)


# ---------------------------------------------------------------------------------------------
# ast -> term

BINOPS = {ast.Add: "+", ast.Sub: "-", ast.Mult: "*", ast.Mod: "%", ast.Div: "/", ast.FloorDiv: "//",
          ast.BitOr: "|", ast.BitAnd: "&", ast.Pow: "**", ast.BitXor: "^", ast.LShift: "<<", ast.RShift: ">>",
          ast.MatMult: "@"}
CMPOPS = {ast.Lt: "<", ast.Eq: "==", ast.Gt: ">", ast.LtE: "<=", ast.GtE: ">=", ast.NotEq: "!=", ast.In: "in",
          ast.NotIn: "not in", ast.Is: "is", ast.IsNot: "is not"}
UNOPS = {ast.Not: "not", ast.USub: "-", ast.UAdd: "+", ast.Invert: "~"}


def gens_of(generators):
    out = []
    for g in generators:
        if g.is_async:
            raise Unsupported("async comprehension")
        if isinstance(g.target, ast.Name):
            tgt = ("name", g.target.id)
        elif isinstance(g.target, ast.Tuple) and all(isinstance(x, ast.Name) for x in g.target.elts):
            tgt = ("tuple", [x.id for x in g.target.elts])
        else:
            raise Unsupported("comprehension target")
        out.append((tgt, e_of(g.iter), [e_of(c) for c in g.ifs]))
    return out


def e_of(n):
    E = e_of
    if isinstance(n, ast.Constant):
        return ("const", isinstance(n.value, str), repr(n.value))
    if isinstance(n, ast.Name):
        if not isinstance(n.ctx, ast.Load):
            raise Unsupported("name in store context inside an expression")
        return ("name", n.id)
    if isinstance(n, ast.UnaryOp):
        return ("unary", UNOPS[type(n.op)], E(n.operand))
    if isinstance(n, ast.BinOp):
        return ("bin", BINOPS[type(n.op)], E(n.left), E(n.right))
    if isinstance(n, ast.Compare):
        return ("cmp", E(n.left), [(CMPOPS[type(o)], E(c)) for o, c in zip(n.ops, n.comparators)])
    if isinstance(n, ast.BoolOp):
        return ("bool", "and" if isinstance(n.op, ast.And) else "or", [E(v) for v in n.values])
    if isinstance(n, ast.IfExp):
        return ("ifexp", E(n.test), E(n.body), E(n.orelse))
    if isinstance(n, (ast.List, ast.Tuple, ast.Set)):
        if not isinstance(getattr(n, "ctx", ast.Load()), ast.Load):
            raise Unsupported("store context")
        return ("seq", {ast.List: "list", ast.Tuple: "tuple", ast.Set: "set"}[type(n)], [E(x) for x in n.elts])
    if isinstance(n, ast.Dict):
        return ("dict", [(None if k is None else E(k), E(v)) for k, v in zip(n.keys, n.values)])
    if isinstance(n, ast.Attribute):
        if not isinstance(n.ctx, ast.Load):
            raise Unsupported("store context")
        return ("attr", E(n.value), n.attr)
    if isinstance(n, ast.Subscript):
        if not isinstance(n.ctx, ast.Load):
            raise Unsupported("store context")
        return ("sub", E(n.value), E(n.slice))
    if isinstance(n, ast.Slice):
        return ("slice",) + tuple(None if x is None else E(x) for x in (n.lower, n.upper, n.step))
    if isinstance(n, ast.Call):
        return ("call", E(n.func), [E(a) for a in n.args], [(k.arg, E(k.value)) for k in n.keywords])
    if isinstance(n, ast.Starred):
        return ("star", E(n.value))
    if isinstance(n, (ast.ListComp, ast.SetComp, ast.GeneratorExp)):
        kind = {ast.ListComp: "list", ast.SetComp: "set", ast.GeneratorExp: "gen"}[type(n)]
        return ("comp", kind, E(n.elt), gens_of(n.generators))
    if isinstance(n, ast.DictComp):
        return ("dictcomp", E(n.key), E(n.value), gens_of(n.generators))
    if isinstance(n, ast.JoinedStr):
        parts = []
        for v in n.values:
            if isinstance(v, ast.Constant):
                if v.value == "":
                    continue          # CPython 3.12 adds an empty constant after a nested format spec
                parts.append(("const", True, repr(v.value), v.value))
            else:
                parts.append(("fmt", E(v.value), None if v.format_spec is None else E(v.format_spec)))
        return ("fstr", parts)
    if isinstance(n, ast.Lambda):
        a = n.args
        if a.kwarg or any(d is not None for d in a.kw_defaults):
            raise Unsupported("lambda with **kwargs / keyword-only defaults")
        params = [x.arg for x in a.posonlyargs + a.args + a.kwonlyargs]
        return ("lambda", params, a.vararg.arg if a.vararg else None, [E(d) for d in a.defaults], E(n.body))
    if isinstance(n, ast.NamedExpr):
        return ("named", n.target.id, E(n.value))
    if isinstance(n, ast.Yield):
        return ("other", "yield", [] if n.value is None else [E(n.value)])
    if isinstance(n, ast.Await):
        return ("other", "await", [E(n.value)])
    raise Unsupported(type(n).__name__)


def t_of(n):
    if isinstance(n, ast.Name):
        return ("tname", n.id)
    if isinstance(n, ast.Attribute):
        return ("tattr", e_of(n.value), n.attr)
    if isinstance(n, ast.Subscript):
        return ("tsub", e_of(n.value), e_of(n.slice))
    if isinstance(n, (ast.Tuple, ast.List)):
        return ("tseq", [t_of(x) for x in n.elts])
    if isinstance(n, ast.Starred):
        return ("tstar", t_of(n.value))
    raise Unsupported(type(n).__name__)


def s_of(n):
    B = lambda b: [s_of(x) for x in b]  # noqa
    if isinstance(n, ast.Expr):
        return ("expr", e_of(n.value))
    if isinstance(n, ast.Assign):
        return ("assign", [t_of(t) for t in n.targets], e_of(n.value))
    if isinstance(n, ast.AugAssign):
        return ("aug", t_of(n.target), e_of(n.value))
    if isinstance(n, ast.Pass):
        return ("pass",)
    if isinstance(n, ast.Return):
        return ("ctl", "return")
    if isinstance(n, ast.Raise):
        return ("ctl", "raise")
    if isinstance(n, ast.Break):
        return ("ctl", "break")
    if isinstance(n, ast.Continue):
        return ("ctl", "continue")
    if isinstance(n, ast.If):
        return ("if", e_of(n.test), B(n.body), B(n.orelse))
    if isinstance(n, ast.For):
        return ("for", t_of(n.target), e_of(n.iter), B(n.body), B(n.orelse))
    if isinstance(n, ast.While):
        return ("while", e_of(n.test), B(n.body), B(n.orelse))
    if isinstance(n, ast.With) and len(n.items) == 1 and n.items[0].optional_vars is None:
        return ("with", e_of(n.items[0].context_expr), B(n.body))
    if isinstance(n, (ast.FunctionDef, ast.AsyncFunctionDef)):
        a = n.args
        ev = list(a.defaults) + [d for d in a.kw_defaults if d is not None]
        ev += [x.annotation for x in (*a.posonlyargs, *a.args, *a.kwonlyargs, a.vararg, a.kwarg)
               if x is not None and x.annotation is not None]
        if n.returns is not None:
            ev.append(n.returns)
        return ("def", "def", n.name, [e_of(d) for d in n.decorator_list], [e_of(x) for x in ev], [])
    if isinstance(n, ast.ClassDef):
        ev = list(n.bases) + [k.value for k in n.keywords]
        return ("def", "class", n.name, [e_of(d) for d in n.decorator_list], [e_of(x) for x in ev], B(n.body))
    if isinstance(n, (ast.Import, ast.ImportFrom, ast.Global, ast.Nonlocal, ast.Delete, ast.Try, ast.Assert,
                      ast.AnnAssign, ast.With, ast.AsyncFor, ast.AsyncWith, ast.Match)):
        return ("otherstmt", ast.unparse(n).split("\n")[0])
    raise Unsupported(type(n).__name__)


def strip_text(e):
    """canonical form for round-trip comparison (constant texts of f-string parts are dropped)"""
    if isinstance(e, tuple):
        if e and e[0] == "const" and len(e) > 3:
            e = e[:3]
        return tuple(strip_text(x) for x in e)
    if isinstance(e, list):
        return [strip_text(x) for x in e]
    return e


# names / calls occurring in a term (for whitelists and stubs) -------------------------------------

def walk(e):
    """every tuple of a term (nodes, and the pairs / triples used for keywords, dict items, generators)"""
    if isinstance(e, tuple):
        yield e
    if isinstance(e, (tuple, list)):
        for x in e:
            if isinstance(x, (tuple, list)):
                yield from walk(x)


def names_in(term) -> set[str]:
    out = set()
    for n in walk(term):
        if not n or not isinstance(n[0], str):
            continue
        if n[0] in ("name", "tname") and isinstance(n[1], str):
            out.add(n[1])
        elif n[0] == "named":
            out.add(n[1])
        elif n[0] == "tuple" and isinstance(n[1], list):
            out.update(x for x in n[1] if isinstance(x, str))
        elif n[0] in ("attr", "tattr"):
            out.add(n[2])
        elif n[0] == "def":
            out.add(n[2])
        elif n[0] == "call":
            out.update(kw for kw, _ in n[3] if kw)
    return out
