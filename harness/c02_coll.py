"""C02, statement-merging / collection-literal tranche (coq/theories/RulesCollModel.v + RulesCollProofs.v).

Plug-in of harness/c02.py:  check(run, mods, wd, rnd) -> dict.  Ties the Gallina models to pyrefact on every run:
  * rule correspondence: generated statement blocks / expressions / lambdas are printed, the REAL rule function is
    applied to the text, the result is parsed back and compared in Coq with the model (brule_case_ok, ...);
  * side-condition kernels (pure ~ not core.has_side_effect, mentions ~ fixes._name_mentions) on their own;
  * semantics validation: every input and output block runs under CPython with logging stubs and through
    RulesCollModel.exec_block (outcome, every bound name incl. type / key order / surviving key object, call log);
  * property oracle (the failing-input search): before / after executed under fixed valuations; a difference is
    reported unless a listed finding (site + structural predicate, SIGS below) covers it;
  * witness programs for the parts of the rules that have no Gallina model.
Findings of this tranche: F02coll-n (property=C02), reported here."""
from __future__ import annotations

import ast
import collections.abc
import contextlib
import copy
import io
import itertools
import json
import re
import signal
import time
from collections import Counter

from . import common
from . import c02_expr as X
from .common import glist, gbool

C, N = X.C, X.N
Unsupported = X.Unsupported

# ---------------------------------------------------------------------------------------------
# statement terms (mirror of RulesCollModel.stmt)
#   ("assign", x, e) ("setitem", x, k, v) ("meth", x, m, [args]) ("expr", e) ("ret", e)
#   ("pass",) ("cont",) ("break",) ("if", c, b1, b2) ("for", tgt, isrc, body)
#   isrc: ("plain", e) | ("filter", None | n, e) | ("keys", e) | ("values", e) | ("items", e)

METHS = {"append": "MAppend", "extend": "MExtend", "add": "MAdd", "update": "MUpdate"}
ISRC_G = {"plain": "IPlain", "keys": "IKeys", "values": "IValues", "items": "IItems"}


def p_isrc(it) -> str:
    k = it[0]
    if k == "plain":
        return X.p_expr(it[1])
    if k == "filter":
        return f"filter({'None' if it[1] is None else 'f%d' % it[1]}, {X.p_expr(it[2])})"
    e = X.p_expr(it[1])
    if it[1][0] != "name":
        e = f"({e})"
    return f"{e}.{k}()"


def p_block(b, ind=0) -> str:
    pad = "    " * ind
    if not b:
        return pad + "pass\n"
    out = []
    for s in b:
        k = s[0]
        if k == "assign":
            out.append(f"{pad}{X.name_txt(s[1])} = {X.p_expr(s[2], top=True)}\n")
        elif k == "setitem":
            out.append(f"{pad}{X.name_txt(s[1])}[{X.p_expr(s[2])}] = {X.p_expr(s[3], top=True)}\n")
        elif k == "meth":
            out.append(f"{pad}{X.name_txt(s[1])}.{s[2]}(" + ", ".join(X.p_expr(a) for a in s[3]) + ")\n")
        elif k == "expr":
            out.append(f"{pad}{X.p_expr(s[1], top=True)}\n")
        elif k == "ret":
            out.append(f"{pad}return {X.p_expr(s[1], top=True)}\n")
        elif k in ("pass", "break"):
            out.append(f"{pad}{k}\n")
        elif k == "cont":
            out.append(f"{pad}continue\n")
        elif k == "if":
            out.append(f"{pad}if {X.p_expr(s[1])}:\n" + p_block(s[2], ind + 1))
            if s[3]:
                out.append(f"{pad}else:\n" + p_block(s[3], ind + 1))
        elif k == "for":
            out.append(f"{pad}for {X.p_tgt(s[1])} in {p_isrc(s[2])}:\n" + p_block(s[3], ind + 1))
        else:
            raise ValueError(s)
    return "".join(out)


def _is_v(name: str) -> bool:
    return name == "_" or (name[0] == "v" and name[1:].isdigit())


def s_of_ast(n) -> tuple:
    if isinstance(n, ast.Assign) and len(n.targets) == 1:
        t = n.targets[0]
        if isinstance(t, ast.Name):
            return ("assign", X.name_of(t.id), X.t_of_ast(n.value))
        if isinstance(t, ast.Subscript) and isinstance(t.value, ast.Name):
            return ("setitem", X.name_of(t.value.id), X.t_of_ast(t.slice), X.t_of_ast(n.value))
        raise Unsupported("assign target")
    if isinstance(n, ast.Expr):
        v = n.value
        if (isinstance(v, ast.Call) and isinstance(v.func, ast.Attribute) and isinstance(v.func.value, ast.Name)
                and _is_v(v.func.value.id) and v.func.attr in METHS and not v.keywords):
            return ("meth", X.name_of(v.func.value.id), v.func.attr, [X.t_of_ast(a) for a in v.args])
        return ("expr", X.t_of_ast(v))
    if isinstance(n, ast.Return):
        return ("ret", C(None) if n.value is None else X.t_of_ast(n.value))
    if isinstance(n, ast.Pass):
        return ("pass",)
    if isinstance(n, ast.Continue):
        return ("cont",)
    if isinstance(n, ast.Break):
        return ("break",)
    if isinstance(n, ast.If):
        return ("if", X.t_of_ast(n.test), b_of_ast(n.body), b_of_ast(n.orelse))
    if isinstance(n, ast.For) and not n.orelse:
        it = n.iter
        src = None
        if isinstance(it, ast.Call) and not it.keywords:
            fn = X.func_txt(it.func)
            if fn == "filter" and len(it.args) == 2:
                f = it.args[0]
                if isinstance(f, ast.Constant) and f.value is None:
                    src = ("filter", None, X.t_of_ast(it.args[1]))
                elif isinstance(f, ast.Name) and re.fullmatch(r"f\d+", f.id):
                    src = ("filter", int(f.id[1:]), X.t_of_ast(it.args[1]))
                else:
                    raise Unsupported("filter test")
            elif isinstance(it.func, ast.Attribute) and it.func.attr in ("keys", "values", "items") and not it.args:
                src = (it.func.attr, X.t_of_ast(it.func.value))
        if src is None:
            src = ("plain", X.t_of_ast(it))
        return ("for", X.t_tgt(n.target), src, b_of_ast(n.body))
    raise Unsupported(type(n).__name__)


def b_of_ast(stmts) -> list:
    return [s_of_ast(s) for s in stmts]


def norm_block(b):
    out = []
    for s in b:
        if s[0] == "if":
            out.append(("if", X.norm_term(s[1]), norm_block(s[2]), norm_block(s[3])))
        elif s[0] == "for":
            it = s[2]
            it = (it[0],) + tuple(X.norm_term(x) if isinstance(x, tuple) else x for x in it[1:])
            out.append(("for", s[1], it, norm_block(s[3])))
        else:
            out.append(tuple(X.norm_term(x) if isinstance(x, (tuple, list)) and i > 0 else x for i, x in enumerate(s)))
    return out


def g_isrc(it) -> str:
    if it[0] == "filter":
        f = "None" if it[1] is None else f"(Some {it[1]}%nat)"
        return f"(IFilter {f} {X.g_expr(it[2])})"
    return f"({ISRC_G[it[0]]} {X.g_expr(it[1])})"


def g_block(b) -> str:
    return glist(b, g_stmt)


def g_stmt(s) -> str:
    k = s[0]
    if k == "assign":
        return f"(SAssign {s[1]} {X.g_expr(s[2])})"
    if k == "setitem":
        return f"(SSetItem {s[1]} {X.g_expr(s[2])} {X.g_expr(s[3])})"
    if k == "meth":
        return f"(SMeth {s[1]} {METHS[s[2]]} {glist(s[3], X.g_expr)})"
    if k == "expr":
        return f"(SExpr {X.g_expr(s[1])})"
    if k == "ret":
        return f"(SRet {X.g_expr(s[1])})"
    if k == "pass":
        return "SPass"
    if k == "cont":
        return "SCont"
    if k == "break":
        return "SBreak"
    if k == "if":
        return f"(SIf {X.g_expr(s[1])} {g_block(s[2])} {g_block(s[3])})"
    if k == "for":
        return f"(SFor {X.g_tgt(s[1])} {g_isrc(s[2])} {g_block(s[3])})"
    raise ValueError(s)


def parse_block(src: str) -> list:
    return norm_block(b_of_ast(ast.parse(src).body))


# ---------------------------------------------------------------------------------------------
# running blocks under CPython

NORET = object()
NAME_RE = re.compile(r"\b(?:v\d+|_)\b")


class _Timeout(Exception):
    pass


def _alarm(signum, frame):
    raise _Timeout()


def snap(a):
    if isinstance(a, collections.abc.Iterator):
        return X.snapshot(copy.copy(a))
    try:
        return copy.deepcopy(a)
    except Exception:  # noqa
        return a


def run_block(src: str, bindings: dict, local: bool = False):
    """Run a printed block as the body of a function whose variables are module globals (local=False) or locals
    (local=True: only the returned value and the log are observable).  -> (outcome, final bindings, log) where
    outcome is ("ret", v) | ("normal",) | ("exc", name)"""
    names = sorted(set(NAME_RE.findall(src)) | set(bindings))
    body = "".join("    " + l + "\n" for l in src.splitlines()) or "    pass\n"
    if local:
        prog = "def __prog(" + ", ".join(sorted(bindings)) + "):\n" + body + "    return __NORET\n"
    else:
        prog = "def __prog():\n" + (f"    global {', '.join(names)}\n" if names else "") + body + "    return __NORET\n"
    log = []
    G = {}

    def stub(i):
        def f(*args):
            r = len(log)
            if r > 3000:
                # a block that keeps filling the collection it iterates over: same classification as the 2 s alarm, but
                # before the snapshots of the growing arguments take gigabytes (thorough tier: the process was killed)
                raise _Timeout()
            log.append((i, [snap(a) for a in args]))
            if i == 0:
                return r
            if i == 1:
                return [2, True, 1]
            if i == 2:
                return args[0] if args else None
            if i == 3:
                raise X.Raised()
            if i == 5:
                v = G.get("v1")
                return len(v) if isinstance(v, (list, tuple, set, frozenset, dict)) else -1
            return (i, r)
        return f

    G.update({f"f{i}": stub(i) for i in range(6)})
    G["__NORET"] = NORET
    G["collections"] = __import__("collections")
    G["itertools"] = itertools
    if not local:
        G.update({k: copy.deepcopy(v) for k, v in bindings.items()})
    old = signal.signal(signal.SIGALRM, _alarm)
    signal.setitimer(signal.ITIMER_REAL, 2.0)
    try:
        import warnings
        with warnings.catch_warnings():
            warnings.simplefilter("ignore")
            exec(compile(prog, "<blk>", "exec"), G)
            with contextlib.redirect_stdout(io.StringIO()):
                r = G["__prog"](**({k: copy.deepcopy(v) for k, v in bindings.items()} if local else {}))
    except BaseException as e:  # noqa
        if isinstance(e, KeyboardInterrupt):
            raise
        return ("exc", type(e).__name__), {}, log
    finally:
        signal.setitimer(signal.ITIMER_REAL, 0)
        signal.signal(signal.SIGALRM, old)
    fin = {} if local else {k: v for k, v in G.items() if _is_v(k)}
    return (("normal",) if r is NORET else ("ret", r)), fin, log


def obs(v, depth=0) -> str:
    """what a program can print of a value: type and contents; sets up to their (hash dependent) order"""
    if depth > 6:
        return "..."
    t = type(v).__name__
    if isinstance(v, collections.abc.Iterator):
        return f"{t}<" + ", ".join(obs(x, depth + 1) for x in copy.copy(v)) + ">"
    if isinstance(v, (set, frozenset)):
        return f"{t}{{" + ", ".join(sorted(obs(x, depth + 1) for x in v)) + "}"
    if isinstance(v, (list, tuple)):
        return f"{t}[" + ", ".join(obs(x, depth + 1) for x in v) + "]"
    if isinstance(v, dict):
        extra = f"<{getattr(v, 'default_factory', None)!r}>" if t != "dict" else ""
        return f"{t}{extra}{{" + ", ".join(f"{obs(k, depth + 1)}: {obs(x, depth + 1)}" for k, x in v.items()) + "}"
    return f"{t}:{v!r}"


def observation(res, ignore=("_",)):
    out, fin, log = res
    o = out if out[0] != "ret" else ("ret", obs(out[1]))
    return (o, tuple(sorted((k, obs(v)) for k, v in fin.items() if k not in ignore)),
            tuple((i, tuple(obs(a) for a in args)) for i, args in log))


# Gallina expected results ----------------------------------------------------------------------

def g_outcome(o) -> str:
    return "ONormal" if o[0] == "normal" else f"(ORet {X.g_val(o[1])})"


def g_expected(res) -> str:
    out, fin, log = res
    if out[0] == "exc":
        return "None"
    return f"(Some ({g_outcome(out)}, {X.g_bindings(fin)}, {X.g_trace(log)}))"


# ---------------------------------------------------------------------------------------------
# the real rules

MRULES = {
    "MDictAssign": "replace_dict_assign_with_dict_literal",
    "MDictUpdate": "replace_dict_update_with_dict_literal",
    "MDictCompAssign": "replace_dictcomp_assign_with_dict_literal",
    "MDictCompUpdate": "replace_dictcomp_update_with_dict_literal",
    "MCollAdd": "replace_collection_add_update_with_collection_literal",
}
MODELLED = ["fixes." + v for v in MRULES.values()] + [
    "fixes.breakout_starred_args", "fixes.simplify_assign_immediate_return", "fixes.replace_with_filter",
    "fixes.implicit_dict_keys_values_items", "fixes.simplify_redundant_lambda", "fixes.fix_raise_missing_from",
    "fixes.implicit_defaultdict"]


def apply_rule(mods, fname: str, src: str) -> str:
    mods["core"].parse.cache_clear()
    with common.quiet():
        out = getattr(mods["fixes"], fname)(src)
    mods["core"].parse.cache_clear()
    return out


CONTEXTS = {
    "top": ("", 0),
    "if": ("if f4():\n", 1),
    "for": ("for v9 in v8:\n", 1),
    "def": ("def g9():\n", 1),
    "else": ("if f4():\n    pass\nelse:\n", 1),
}


def in_context(ctx: str, block_src: str) -> str:
    head, ind = CONTEXTS[ctx]
    return head + "".join("    " * ind + l + "\n" for l in block_src.splitlines())


def out_of_context(ctx: str, src: str) -> list:
    tree = ast.parse(src)
    if ctx == "top":
        return norm_block(b_of_ast(tree.body))
    if len(tree.body) != 1:
        raise Unsupported("context lost")
    n = tree.body[0]
    body = n.orelse if ctx == "else" else n.body
    return norm_block(b_of_ast(body))


# ---------------------------------------------------------------------------------------------
# case families.  Names: v1 = the collection being built, v2/v3 other variables, f0..f5 opaque functions.

V1, V2, V3 = N(1), N(2), N(3)
F0 = ("call", 0, [])
F4 = ("call", 4, [])
F5 = ("call", 5, [])            # reads the global v1
LEN1 = ("bi", "BLen", [V1])
LEN2 = ("bi", "BLen", [V2])


def seq(k, *e):
    return ("seq", k, list(e))


def dct(*items):
    return ("dict", list(items))


def kv(k, v):
    return ("kv", k, v)


def comp(k, elt, dval, x, it, ifs=()):
    return ("comp", k, elt, dval, ("tname", x), it, list(ifs))


LCOMP = comp("CList", N(3), X.DUMMY, 3, V2)
SCOMP = comp("CSet", N(3), X.DUMMY, 3, V2)
DCOMP = comp("CDict", N(3), C(1), 3, V2)
DCOMP2 = comp("CDict", N(3), ("call", 2, [N(3)]), 3, V2)

SEPARATORS = [("assign", 2, C(0)), ("expr", F0), ("meth", 2, "append", [C(1)]), ("pass",), ("assign", 1, seq("KList")),
              ("expr", V1)]


def fam_merge(rule: str, tier: str, det):
    """blocks for one merge rule: every init x every single following statement, pairs over a reduced pool,
    separators, two transactions, near misses"""
    x = 1
    if rule in ("MDictAssign", "MDictCompAssign"):
        inits = ([dct(), dct(kv(C(1), C(2))), dct(("dstar", V2)), dct(kv(V3, F0))] if rule == "MDictAssign"
                 else [DCOMP, DCOMP2])
        keys = [C(1), C(True), C("a"), V2, F0, seq("KTuple", C(1), V3), V1, seq("KList", C(1)), LEN1, F5]
        vals = [C(2), V3, F0, F4, LEN1, F5, seq("KList", V2), V1, seq("KTuple", F0)]
        mods = [("setitem", x, k, v) for k in keys for v in vals]
        mods += [("setitem", 2, C(1), C(2)), ("meth", x, "update", [dct(kv(C(3), C(4)))])]
        small = [("setitem", x, C(1), C(2)), ("setitem", x, C(True), V3), ("setitem", x, F0, C(5)), ("setitem", x, V2, F4),
                 ("setitem", x, F0, F4), ("setitem", x, C(3), LEN1), ("setitem", x, C(1), F5)]
    elif rule in ("MDictUpdate", "MDictCompUpdate"):
        inits = ([dct(), dct(kv(C(1), C(2))), dct(("dstar", V2)), dct(kv(V3, F0))] if rule == "MDictUpdate"
                 else [DCOMP, DCOMP2])
        args = [dct(kv(C(3), C(4))), dct(), dct(("dstar", V2)), dct(kv(C(1), F0), kv(C(True), C(7))), DCOMP, DCOMP2,
                dct(kv(C(1), LEN1)), dct(kv(C(1), F5)), comp("CDict", N(3), N(3), 3, V1), V2, ("bi", "BDict", [V2]),
                seq("KList", seq("KTuple", C(1), C(2)))]
        mods = [("meth", x, "update", [a]) for a in args]
        mods += [("meth", x, "update", [args[0], args[1]]), ("meth", x, "update", []), ("meth", 2, "update", [args[0]]),
                 ("setitem", x, C(1), C(2)), ("meth", x, "add", [C(1)])]
        small = [("meth", x, "update", [a]) for a in (args[0], args[2], args[3], args[5], args[6], args[9])]
    else:
        inits = [seq("KList"), seq("KList", C(1)), seq("KList", ("star", V2)), seq("KSet", C(1)),
                 seq("KSet", ("star", V2), C(0)), LCOMP, SCOMP, ("bi", "BSet", []), ("bi", "BSet", [V2]),
                 seq("KList", F0, V3), seq("KSet", C(True), V3),
                 # near misses
                 seq("KTuple", C(1)), ("bi", "BList", []), V2, dct(), ("bi", "BSet", [("star", V2)])]
        one = [C(2), V2, F0, V1, C(True), C(1), seq("KList", V3), F5, LEN1]
        mods = [("meth", x, m, [a]) for m in ("append", "add") for a in one]
        mods += [("meth", x, "append", [("star", V2)]), ("meth", x, "append", []), ("meth", x, "append", [C(1), C(2)])]
        many = [[seq("KList", C(3), C(4))], [V2], [seq("KTuple", C(5), ("star", V3))], [("call", 1, [])], [V1],
                [seq("KList", C(3)), V2], [], [seq("KSet", C(1), C(2))], [seq("KList", F0, F4)], [("star", V2)],
                [seq("KList", LEN1)], [dct(kv(C(1), C(2)))], [C("aa")], [seq("KList", seq("KList", C(1)))],
                [seq("KSet", C(1), C(True))], [comp("CGen", ("call", 2, [N(3)]), X.DUMMY, 3, V2)]]
        mods += [("meth", x, m, a) for m in ("extend", "update") for a in many]
        mods += [("meth", 2, "append", [C(1)]), ("setitem", x, C(0), C(9))]
        small = [("meth", x, "append", [C(2)]), ("meth", x, "add", [C(True)]), ("meth", x, "extend", [seq("KList", C(3), F0)]),
                 ("meth", x, "update", [V2, seq("KTuple", C(1))]), ("meth", x, "append", [F0]), ("meth", x, "add", [V1]),
                 ("meth", x, "extend", [V3])]
    out = []
    for i in inits:
        first = ("assign", x, i)
        for m in mods:
            out.append([first, m])
        for a in small:
            for b in small:
                out.append([first, a, b])
        for sep in SEPARATORS:
            out.append([first, sep, small[0]])
            out.append([first, small[0], sep, small[1]])
        out.append([first])
        out.append([first, small[0], ("assign", x, inits[0]), small[1], small[2]])
        out.append([("expr", F0), first, small[1], small[0], ("expr", V1)])
    out.append([small[0], ("assign", x, inits[0])])
    if tier != "quick":
        for i in inits[:6]:
            for a in small:
                for b in small:
                    for c in small[:4]:
                        out.append([("assign", x, i), a, b, c])
    return out


def fam_merge_deep(rule: str):
    """nested programs: the blocks of fam_merge inside if / else / for bodies of one program"""
    base = fam_merge(rule, "quick", None)
    picks = base[:: max(1, len(base) // 60)]
    loop = lambda body: ("for", ("tname", 9), ("plain", N(8)), body)   # noqa
    out = []
    for i in range(0, len(picks) - 2, 3):
        a, b, c = picks[i:i + 3]
        out.append([("if", F4, a, b)] + c)
        out.append([loop([("if", F0, a, [])] + b)])
        out.append(a + [loop(b), ("if", F4, [("pass",)], c)])
    return out


def rand_merge(rule: str, rnd, n: int):
    pool = fam_merge(rule, "quick", None)
    stmts = [s for b in pool for s in b]
    out = []
    for _ in range(n):
        k = rnd.randint(2, 6)
        out.append([rnd.choice(stmts) for _ in range(k)])
    return out


def fam_starargs(tier, rnd):
    """call arguments: every pair over a pool of starred / plain arguments, opaque and builtin callees"""
    pool = [C(1), V2, ("star", V2), ("star", seq("KList")), ("star", seq("KList", C(1), F0)), ("star", seq("KTuple", V3)),
            ("star", seq("KSet", C(2))), ("star", seq("KSet", C(1), C(2))), ("star", seq("KSet", ("star", V2))),
            ("star", seq("KList", ("star", V2), C(3))), ("star", LCOMP), ("star", seq("KTuple", F0, F4)),
            ("star", seq("KSet", seq("KList", C(1)))), F0]
    out = []
    for a in pool:
        out.append(("call", 4, [a]))
        out.append(("bi", "BList", [a]))
        out.append(("bi", "BChain", [a]))
        for b in pool:
            out.append(("call", 4, [a, b]))
            out.append(("bi", "BZip", [a, b]))
    out.append(("call", 4, []))
    out.append(("bi", "BSorted", [("star", seq("KList", V2)), ("kw", 0, C(True))]))
    rnd_cases = []
    for _ in range(40 if tier == "quick" else 400):
        rnd_cases.append(("call", rnd.randint(0, 4), [rnd.choice(pool) for _ in range(rnd.randint(1, 4))]))
    return out, rnd_cases


def fam_immret(tier, rnd):
    """function bodies: `x = e; return x` at the end / inside if / inside for, with other assignments and reads"""
    X1 = 1
    es = [F0, C(1), V2, seq("KList", V2, F0), seq("KTuple", C(1), C(2)), ("call", 2, [V2])]
    pre = [[], [("expr", F0)], [("assign", X1, C(0))], [("expr", V1)], [("assign", 2, C(5))], [("assign", 2, V1)],
           [("if", F0, [("assign", X1, C(3))], [])], [("for", ("tname", X1), ("plain", V2), [("pass",)])],
           [("for", ("tname", 3), ("plain", V2), [("expr", ("call", 4, [V1]))])]]
    out = []
    for e in es:
        core_ = [("assign", X1, e), ("ret", V1)]
        for p in pre:
            out.append(p + core_)
            out.append(p + [("if", F4, core_, [("ret", C(0))])])
            out.append(p + [("for", ("tname", 3), ("plain", V2), core_)])
        out.append([("assign", X1, e), ("ret", V2)])
        out.append([("assign", X1, e), ("expr", F0), ("ret", V1)])
        out.append([("assign", X1, e), ("ret", seq("KList", V1))])
        out.append([("if", F4, [("assign", X1, e), ("ret", V1)], [("assign", 2, e), ("ret", V2)])])
        out.append([("if", F4, [("assign", X1, e), ("ret", V1)], [("assign", X1, e), ("ret", V1)])])
        out.append([("assign", X1, e), ("ret", V1), ("expr", F0)])
    return out


def fam_filter(tier, rnd):
    its = [V2, ("call", 1, []), seq("KList", C(0), C(1), V3), ("bi", "BIter", [V2])]
    bodies = [("expr", ("call", 4, [V1])), ("meth", 3, "append", [V1]), ("assign", 3, V1), ("break",), ("cont",),
              ("ret", V1), ("if", V1, [("expr", F0)], []), ("assign", 1, C(7))]
    tests = [V1, ("call", 4, [V1]), ("call", 0, [V1]), ("call", 2, [V1]), ("call", 3, [V1]),
             ("not", V1), V3, ("call", 4, [V3]), ("call", 4, [V1, V1]), ("call", 4, [])]
    out = []
    for it in its:
        for t in tests:
            for b in bodies:
                out.append([("for", ("tname", 1), ("plain", it), [("if", t, [b], [])]), ("expr", V1)])
                out.append([("for", ("tname", 1), ("plain", it), [("if", ("not", t), [("cont",)], []), b])])
            out.append([("for", ("tname", 1), ("plain", it), [("if", t, [bodies[0]], [bodies[1]])])])
            out.append([("for", ("tname", 1), ("plain", it), [("if", t, [bodies[0], bodies[1]], [])])])
            out.append([("for", ("tname", 1), ("plain", it), [("if", t, [bodies[0]], []), bodies[1]])])
            out.append([("for", ("tname", 1), ("plain", it), [("if", ("not", t), [("cont",)], []), bodies[0], bodies[1]])])
            out.append([("for", ("tname", 1), ("plain", it), [("if", ("not", t), [("break",)], []), bodies[0]])])
            out.append([("for", ("tname", 1), ("plain", it), [("if", t, [("cont",)], []), bodies[0]])])
            out.append([("for", ("ttup", [1, 3]), ("plain", it), [("if", t, [bodies[0]], [])])])
        out.append([("for", ("tname", 1), ("filter", None, it), [("if", V1, [bodies[0]], [])])])
        out.append([("for", ("tname", 1), ("filter", 4, it), [("if", ("call", 0, [V1]), [bodies[0]], [])])])
    return out


def fam_items(tier, rnd):
    ds = [V2, dct(kv(C(1), C(2)), kv(C(3), F0)), ("call", 2, [V2])]
    bodies = [[("expr", ("call", 4, [V1]))], [("meth", 3, "append", [V1])], [("expr", ("call", 4, [V1, N(0)]))],
              [("assign", 4, N(0))], [("break",)], [("expr", ("call", 4, [V1])), ("assign", 1, C(0))]]
    out = []
    for d in ds:
        for b in bodies:
            for tgt in (("ttup", [1, 0]), ("ttup", [0, 1]), ("ttup", [1, 3]), ("ttup", [0, 0]), ("tname", 1), ("ttup", [1, 0, 0])):
                out.append([("for", tgt, ("items", d), b)])
                out.append([("assign", 0, C(7)), ("for", tgt, ("items", d), b), ("expr", ("call", 4, [V1]))])
                out.append([("for", tgt, ("items", d), b), ("expr", ("call", 4, [N(0)]))])
            out.append([("for", ("ttup", [1, 0]), ("keys", d), b)])
            out.append([("for", ("ttup", [1, 0]), ("values", d), b)])
            out.append([("for", ("ttup", [1, 0]), ("plain", d), b)])
    return out


LAM_BODIES = None


def fam_lambda(tier, rnd):
    """(params, ndefaults, vararg, body): lambdas over one or two parameters"""
    out = []
    for params, var in (([], None), ([1], None), ([1, 2], None), ([], 3), ([1], 3), ([2, 1], None)):
        fwd = [N(p) for p in params] + ([("star", N(var))] if var else [])
        bodies = [seq("KList"), dct(), seq("KTuple"), seq("KSet"), ("call", 4, fwd), ("bi", "BList", fwd), ("bi", "BSet", fwd),
                  ("call", 4, list(reversed(fwd))), ("call", 4, fwd + [C(1)]), ("call", 4, fwd[:-1]) if fwd else ("call", 4, [C(1)]),
                  ("bi", "BSorted", fwd), ("bi", "BLen", fwd), ("call", 0, fwd), ("bi", "BTuple", fwd)]
        if params:
            p = N(params[0])
            bodies += [seq("KList", ("star", p)), seq("KSet", ("star", p)), seq("KTuple", ("star", p)), seq("KList", p),
                       seq("KList", ("star", p), C(1)), seq("KList", ("star", V3))]
        for b in bodies:
            for nd in ((0, 1) if params else (0,)):
                out.append((params, nd, var, b))
    return out


def p_lambda(l) -> str:
    params, nd, var, body = l
    ps = []
    for i, p in enumerate(params):
        ps.append(X.name_txt(p) + ("=7" if i >= len(params) - nd else ""))
    if var:
        ps.append("*" + X.name_txt(var))
    return "lambda" + (" " + ", ".join(ps) if ps else "") + ": " + X.p_expr(body)


def g_lambda(l) -> str:
    params, nd, var, body = l
    v = "None" if var is None else f"(Some {var}%nat)"
    return f"(mkLam {glist(params, lambda p: f'{p}%nat')} {nd}%nat {v} {X.g_expr(body)})"


def lam_of_ast(n: ast.Lambda):
    a = n.args
    if a.posonlyargs or a.kwonlyargs or a.kwarg:
        raise Unsupported("lambda signature")
    return ([X.name_of(p.arg) for p in a.args], len(a.defaults), X.name_of(a.vararg.arg) if a.vararg else None,
            X.norm_term(X.t_of_ast(n.body)))


# ---------------------------------------------------------------------------------------------
# known findings: site + structural predicate on a failing oracle case {source, output, before, after, env}

def _calls_f5(case):
    return "f5(" in case["source"]


def _filter_loop_var(case):
    """only the loop variable differs after the loop, and the last element of the iterable was rejected"""
    (ob, fb, lb), (oa, fa, la) = case["obs_before"], case["obs_after"]
    m = re.search(r"for (\w+) in filter\(", case["output"])
    if not m or ob != oa or lb != la:
        return False
    x = m.group(1)
    return [kv_ for kv_ in fb if kv_[0] != x] == [kv_ for kv_ in fa if kv_[0] != x]


def _defaultdict_type(case):
    return "defaultdict" in case["output"] and "defaultdict" in repr(case["obs_after"])


def _raise_cause(case):
    return " from error" in case["output"]


SIGS = {
    "callee_reads_collection": (None, _calls_f5),
    "loop_variable_after_filter": ("fixes.replace_with_filter", _filter_loop_var),
    "defaultdict_is_observable": ("fixes.implicit_defaultdict", _defaultdict_type),
    "exception_cause_set": ("fixes.fix_raise_missing_from", _raise_cause),
}


def match_finding(kf, site, case):
    for f in kf:
        if f.kind != "finding":
            continue
        sig = SIGS.get(f.fields.get("sig", ""))
        if not sig:
            continue
        fsite = f.fields.get("site")
        if not (fsite == site or (sig[0] is None and site in fsite.split(","))):
            continue
        try:
            if sig[1](case):
                return f
        except Exception:  # noqa
            continue
    return None


# ---------------------------------------------------------------------------------------------
# valuations

VALS = [
    {"v1": [9, 9, 9], "v2": [1, True, 0], "v3": 5, "v8": [0]},
    {"v1": {7: 7}, "v2": (2, 1), "v3": "a", "v8": [0, 1]},
    {"v2": {1: "a", True: "aa", 0: None}, "v3": (1, 2), "v8": []},
    {"v1": 4, "v2": [(1, 2), (3, 4), (1, 5)], "v3": [3], "v8": [0]},
    {"v1": (), "v2": [], "v3": None, "v8": [0]},
    {"v1": [1], "v2": {2, 1}, "v3": True, "v8": [0, 1, 2]},
    {"v1": None, "v2": [0, "a", "", None, 2], "v3": 0, "v8": [0]},
    {"v1": [5, 6], "v2": {3: 4, 5: 6}, "v3": [1, 1], "_": 8, "v8": [0]},
]


def pick_vals(src: str, n: int):
    h = sum(map(ord, src)) + 31 * len(src)
    return [VALS[(h + 3 * j) % len(VALS)] for j in range(n)]


HEADER = ("From Coq Require Import List ZArith Bool.\nImport ListNotations.\nOpen Scope Z_scope.\n"
          "Require Import Pyrefact.Base Pyrefact.RulesExprModel Pyrefact.RulesCollModel.\n")

WITNESSES = [
    # (finding id or None, site, program, expect_same)
    ("F02x-18", "fixes.simplify_redundant_lambda",
     "def f(x):\n    return 1\ng = lambda x: f(x)\ndef f(x):\n    return 2\nprint(g(0))\n", None),
    (None, "fixes.simplify_redundant_lambda", "def f(x=5):\n    return x\ng = lambda x=1: f(x)\nprint(g())\n", True),
    (None, "fixes.simplify_redundant_lambda",
     "def f():\n    print('f')\n    return int\ng = lambda: f()()\nprint('def')\nprint(g())\n", True),
    (None, "fixes.simplify_redundant_lambda", "g = lambda x: x(x)\nprint(g(type))\n", True),
    (None, "fixes.simplify_assign_immediate_return",
     "hs = []\ndef f():\n    def h():\n        return x\n    hs.append(h)\n    x = 5\n    return x\nprint(f(), hs[0]())\n", True),
    (None, "fixes.simplify_assign_immediate_return",
     "x = 0\ndef f():\n    global x\n    x = 5\n    return x\nprint(f(), x)\n", True),
    (None, "fixes.replace_with_filter",
     "def mk():\n    print('mk')\n    return bool\nfor x in [1, 0, 2]:\n    if mk()(x):\n        print(x)\n", True),
    (None, "fixes.replace_with_filter",
     "def f():\n    for x in [0, 1, 2]:\n        if not x:\n            continue\n        print(x)\nf()\n", True),
    (None, "fixes.implicit_dict_keys_values_items",
     "def f():\n    print('f')\n    return {1: 2, 3: 4}\nfor k in f().keys():\n    print(f()[k])\n", True),
    (None, "fixes.implicit_dict_keys_values_items", "d = {1: 2}\nprint([_ for k, _ in d.items()])\n", True),
    (None, "fixes.implicit_dict_keys_values_items", "d = {1: 2, 3: 4}\nfor k in d.keys():\n    d[k] = d[k] * 10\nprint(d)\n", True),
    (None, "fixes.implicit_dict_keys_values_items", "d = {1: 2, 3: 4}\nprint([d[k] for k in d.keys()], {k: v for k, v in d.items()})\n", True),
    # ed9c7d4 repaired the forms that mention the mapping in the loop (method call, passed to a function); what is left of
    # F02coll-2 needs escape analysis: the mapping changed through an alias or by a callee that reads the global
    (None, "fixes.implicit_dict_keys_values_items",
     "d = {1: 2, 3: 4}\nfor k in d.keys():\n    d.update({k: 0})\n    print(d[k])\n", True),
    (None, "fixes.implicit_dict_keys_values_items",
     "def reset(m, k):\n    m[k] = 0\nd = {1: 2, 3: 4}\nfor k in d.keys():\n    reset(d, k)\n    print(d[k])\n", True),
    (None, "fixes.implicit_dict_keys_values_items",
     "d = {1: 2, 3: 4}\nprint([(d.update({k: 0}), d[k]) for k in d.keys()])\n", True),
    (None, "fixes.implicit_dict_keys_values_items",
     "d = {1: 2, 3: 4}\nfor k1 in d.keys():\n    for k2 in d.keys():\n        print(d[k1], d[k2])\n", True),
    ("F02coll-2", "fixes.implicit_dict_keys_values_items",
     "d = {1: 2, 3: 4}\ne = d\nfor k in d.keys():\n    e[k] = 0\n    print(d[k])\n", None),
    (None, "fixes.fix_raise_missing_from",
     "def h(error):\n    try:\n        int('x')\n    except ValueError:\n        raise KeyError(error)\ntry:\n    h('my message')\n"
     "except KeyError as e:\n    print(e)\n", True),
    ("F02coll-3", "fixes.fix_raise_missing_from",
     "try:\n    try:\n        int('x')\n    except ValueError:\n        raise KeyError(1)\nexcept KeyError as e:\n"
     "    print(repr(e), repr(e.__context__), repr(e.__cause__), e.__suppress_context__)\n", None),
    (None, "fixes.fix_raise_missing_from", "try:\n    int('x')\nexcept:\n    print('bare')\n", True),
    ("F02-58", "fixes.implicit_defaultdict",
     "import collections\nd = {}\nfor k, v in [(1, 2), (1, 3)]:\n    if k not in d:\n        d[k] = []\n    d[k].append(v)\nprint(d)\n", None),
    (None, "fixes.implicit_defaultdict",
     "import collections\nd = {}\nfor k, v in [(1, 2), (1, 3), (0, 1)]:\n    if k in d:\n        d[k].add(v)\n    else:\n        d[k] = {v}\n"
     "print(sorted(d.items()), len(d), d == {1: {2, 3}, 0: {1}})\n", True),
    (None, "fixes.breakout_starred_args", "def f(*a):\n    print(a)\nf(*{*[1, 1]})\nf(*[1, 2], *(3,), *{4})\n", True),
    # ---- round 5: inputs of the repairs that other owners made to the modelled rules (text level; most are outside the
    # Gallina fragment: rebound builtins, class bodies, keyword calls)
    # b5959d8: filter is not the builtin
    (None, "fixes.replace_with_filter",
     "def filter(f, xs):\n    return []\nfor x in [1, 0, 2]:\n    if x:\n        print(x)\n", True),
    # 295ec41: compound body statement (was rolled back, now rewritten)
    (None, "fixes.replace_with_filter",
     "for x in [1, 0, 2]:\n    if x:\n        for y in range(x):\n            print(x, y)\n            print('-')\n", True),
    (None, "fixes.replace_with_filter",
     "for x in [1, 0, 2]:\n    if not bool(x):\n        continue\n    if x > 1:\n        print('big', x)\n    else:\n        print('small', x)\n", True),
    # 8954d7b: a lambda assigned in a class body is a method
    (None, "fixes.simplify_redundant_lambda",
     "def f(*a):\n    return len(a)\nclass A:\n    m = lambda self: f(self)\n    n = lambda *args: f(*args)\nprint(A().m(), A().n())\n", True),
    # f4e4533: a call passes the parameter by name
    (None, "fixes.simplify_redundant_lambda",
     "def f(y):\n    return y + 1\ng = lambda x: f(x)\nprint(g(x=1))\n", True),
    # 305d7fc: the name collections is taken
    (None, "fixes.implicit_defaultdict",
     "collections = None\nd = {}\nfor k, v in [(1, 2), (1, 3)]:\n    if k not in d:\n        d[k] = []\n    d[k].append(v)\nprint(sorted(d.items()))\n", True),
    # e611558 / 92cbc84: name of the new variable
    (None, "fixes.implicit_dict_keys_values_items",
     "d = {1: 2}\nd_k = 'taken'\nfor k in d.keys():\n    print(d[k])\nprint(d_k)\n", True),
    (None, "fixes.implicit_dict_keys_values_items",
     "d = {'a': {1: 2}}\nd__a__k = 'taken'\nfor k in d['a'].keys():\n    print(d['a'][k], d__a__k)\n", True),
    # abbdfdc / 3adf99c
    (None, "fixes.simplify_assign_immediate_return",
     "def f():\n    global x\n    x = 5\n    return x\nx = 0\nprint(f(), x)\n", True),
]


def run_program(src: str) -> str:
    out = io.StringIO()
    try:
        with contextlib.redirect_stdout(out), contextlib.redirect_stderr(io.StringIO()):
            exec(compile(src, "<w>", "exec"), {"__name__": "w"})
    except BaseException as e:  # noqa
        return out.getvalue() + f"<raised {type(e).__name__}>"
    return out.getvalue()


WITNESS_AFTER = {   # what the witness of a listed finding prints after the rewrite (anything else is a new defect)
    "F02coll-2": "2\n4\n",
    "F02coll-3": "KeyError(1) ValueError(\"invalid literal for int() with base 10: 'x'\") "
                 "ValueError(\"invalid literal for int() with base 10: 'x'\") True\n",
    "F02-58": "defaultdict(<class 'list'>, {1: [2, 3]})\n",
    "F02x-18": "1\n",
}


def check_witnesses(run, mods, kf, failures, reproduced):
    n = 0
    for fid, site, src, expect_same in WITNESSES:
        new = apply_rule(mods, site.split(".")[1], src)
        before, after = run_program(src), run_program(new)
        n += 1
        if fid in WITNESS_AFTER and after != before and after != WITNESS_AFTER[fid]:
            failures.append((site, {"source": src, "output": new, "witness": True,
                                    "problem": f"stdout {before!r} before, {after!r} after (the listed finding {fid} explains {WITNESS_AFTER[fid]!r})"}))
            continue
        if before == after:
            if fid and not fid.startswith("F02x") and not fid.startswith("F02-"):
                common.log(f"note: known finding {fid} no longer reproduces on its witness")
            continue
        listed = [f for f in kf if f.kind == "finding" and f.id == fid] if fid else []
        if listed:
            if fid.startswith("F02coll"):
                reproduced.setdefault(fid, (listed[0], []))[1].append(
                    {"problem": f"witness prints {before!r} before, {after!r} after"})
        else:
            failures.append((site, {"source": src, "output": new, "problem": f"stdout {before!r} before, {after!r} after",
                                    "witness": True}))
    return n


# ---------------------------------------------------------------------------------------------

@contextlib.contextmanager
def _star_rule():
    """the expression tranche's driver of a rule generator, lent to breakout_starred_args"""
    X.RULES["LStarArgs"] = ("fixes", "breakout_starred_args")
    try:
        yield
    finally:
        del X.RULES["LStarArgs"]


def _shards(items, n=400):
    for k in range(0, len(items), n):
        yield k // n, items[k:k + n]


def check(run, mods, wd, rnd) -> dict:
    import random as _random
    t0 = time.time()
    tier = run.tier
    quick = tier == "quick"
    hist = Counter()
    timings = {}
    files, meta = [], []
    kf = common.load_findings("C02")
    fixes, core = mods["fixes"], mods["core"]
    det = _random.Random(20260929)

    # ---- block-level rules: (brule gallina, site function, blocks, context policy)
    block_cases = []          # (g_rule, fname, ctx, block, out_block | problem, source, output, seeded)
    problems = []
    fired_blocks = {}         # (fname, source) -> (block, out_block, ctx, local)

    def run_blocks(g_rule, fname, blocks, seeded=False, ctxs=("top",), local=False):
        for i, b in enumerate(blocks):
            ctx = ctxs[i % len(ctxs)]
            try:
                b = norm_block(b)
                src0 = p_block(b)
                if parse_block(src0) != b:
                    raise Unsupported("round trip " + src0)
            except (Unsupported, SyntaxError, ValueError, RecursionError):
                hist[f"{fname}:unprintable"] += 1
                continue
            src = in_context(ctx, src0)
            try:
                out = apply_rule(mods, fname, src)
            except Exception as e:  # noqa
                problems.append({"rule": fname, "source": src, "problem": f"rule raised {type(e).__name__}: {e}"})
                continue
            try:
                ob = out_of_context(ctx, out)
            except (Unsupported, SyntaxError) as e:
                problems.append({"rule": fname, "source": src, "output": out, "problem": f"output outside the fragment: {e}"})
                continue
            block_cases.append((g_rule, fname, ctx, b, ob, src, out, seeded))
            hist[f"{fname}:{'fired' if ob != b else 'silent'}"] += 1
            if ob != b and not seeded:
                fired_blocks.setdefault((fname, src0), (b, ob, ctx, local))

    for r, fname in MRULES.items():
        fam = fam_merge(r, tier, det)
        run_blocks(f"(BMerge {r})", fname, fam, ctxs=("top", "top", "top", "if", "top", "for", "top", "def", "top", "else"))
        run_blocks(f"(BMerge {r})", fname, rand_merge(r, rnd, 40 if quick else 600), seeded=True)
        run_blocks(f"(BMergeDeep {r})", fname, fam_merge_deep(r))
    timings["merge_s"] = round(time.time() - t0, 1)
    run_blocks("BImmRet", "simplify_assign_immediate_return", fam_immret(tier, rnd), ctxs=("def",), local=True)
    run_blocks("BFilter", "replace_with_filter", fam_filter(tier, rnd), ctxs=("top", "top", "def"))
    items_fam = fam_items(tier, rnd)
    for b in items_fam:
        us = any(s for s in ast.walk(ast.parse(p_block(norm_block(b)))) if isinstance(s, ast.Name) and s.id == "_"
                 and isinstance(s.ctx, ast.Load))
        run_blocks(f"(BItems {gbool(us)})", "implicit_dict_keys_values_items", [b])
    timings["block_rules_s"] = round(time.time() - t0, 1)

    for k, shard in _shards(block_cases):
        p = wd / f"lrule_{k}.v"
        body = ";\n ".join(f"({c[0]}, {g_block(c[3])}, {g_block(c[4])})" for c in shard)
        p.write_text(HEADER + f"Definition cases : list (brule * list stmt * list stmt) := [\n {body}\n].\n"
                     "Eval vm_compute in (bad_idx brule_case_ok cases).\n")
        files.append(p)
        meta.append(("brule", shard))

    # ---- breakout_starred_args (expression level; the real generator, as in the expression tranche)
    star_cases, fired_exprs = [], {}
    det_terms, rnd_terms = fam_starargs(tier, rnd)
    for seeded, terms in ((False, det_terms), (True, rnd_terms)):
        for term in terms:
            try:
                with _star_rule():
                    source, cands, _ign = X.impl_root_yields(mods, "LStarArgs", term)
            except Unsupported:
                hist["starargs:unsupported"] += 1
                continue
            except Exception as e:  # noqa
                problems.append({"rule": "breakout_starred_args", "source": "y = " + X.p_expr(term),
                                 "problem": f"generator raised {type(e).__name__}: {e}"})
                continue
            star_cases.append((term, cands, source))
            hist[f"breakout_starred_args:{'fired' if cands else 'silent'}"] += 1
            if cands and not seeded:
                fired_exprs.setdefault(source, (term, cands))
    for k, shard in _shards(star_cases):
        p = wd / f"lstar_{k}.v"
        body = ";\n ".join(f"({X.g_expr(t)}, {glist(c, X.g_expr)})" for t, c, _ in shard)
        p.write_text(HEADER + f"Definition cases : list (expr * list expr) := [\n {body}\n].\n"
                     "Eval vm_compute in (bad_idx starargs_case_ok cases).\n")
        files.append(p)
        meta.append(("star", shard))

    # ---- simplify_redundant_lambda
    lam_cases = []
    for l in fam_lambda(tier, rnd):
        src = "y = " + p_lambda(l) + "\n"
        try:
            if lam_of_ast(ast.parse(src).body[0].value) != (l[0], l[1], l[2], X.norm_term(l[3])):
                raise Unsupported("lambda round trip")
            out = apply_rule(mods, "simplify_redundant_lambda", src)
            v = ast.parse(out).body[0].value
        except Unsupported:
            hist["lambda:unsupported"] += 1
            continue
        except Exception as e:  # noqa
            problems.append({"rule": "simplify_redundant_lambda", "source": src, "problem": f"{type(e).__name__}: {e}"})
            continue
        if isinstance(v, ast.Lambda):
            res = "None"
            if out != src:
                problems.append({"rule": "simplify_redundant_lambda", "source": src, "output": out, "problem": "lambda rewritten to a lambda"})
                continue
        elif isinstance(v, ast.Name) and v.id in X.TXT_BI:
            res = f"(Some (LBi {X.TXT_BI[v.id]}))"
        elif isinstance(v, ast.Name) and re.fullmatch(r"f\d+", v.id):
            res = f"(Some (LFun {v.id[1:]}%nat))"
        else:
            problems.append({"rule": "simplify_redundant_lambda", "source": src, "output": out, "problem": "unexpected replacement"})
            continue
        lam_cases.append((l, res, src, out))
        hist[f"simplify_redundant_lambda:{'silent' if res == 'None' else 'fired'}"] += 1
    for k, shard in _shards(lam_cases):
        p = wd / f"llam_{k}.v"
        body = ";\n ".join(f"({g_lambda(l)}, {res})" for l, res, _, _ in shard)
        p.write_text(HEADER + f"Definition cases : list (lam * option lrepl) := [\n {body}\n].\n"
                     "Eval vm_compute in (bad_idx lambda_case_ok cases).\n")
        files.append(p)
        meta.append(("lam", shard))

    # ---- side-condition kernels: pure ~ not has_side_effect, mentions ~ _name_mentions
    kern_terms = {}
    for c in block_cases:
        for s in c[3]:
            for e in s[1:]:
                for t in (e if isinstance(e, list) else [e]):
                    if isinstance(t, tuple) and t and t[0] in ("const", "name", "call", "bi", "seq", "dict", "cmp", "not", "comp"):
                        kern_terms.setdefault(X.p_expr(t), t)
    for t in det_terms:
        kern_terms.setdefault(X.p_expr(t), t)
    for t in [comp("CList", N(3), X.DUMMY, 3, V2), ("comp", "CList", N(3), X.DUMMY, ("ttup", [3, 4]), V2, []),
              comp("CDict", N(3), F0, 3, V2), comp("CSet", N(3), X.DUMMY, 3, V2, [F0]), comp("CGen", N(3), X.DUMMY, 3, F0),
              ("cmp", V1, [("op", "Lt", V2), ("op", "In", F0)]), ("cmp", V1, [("op", "Lt", V2)]), ("not", F0), ("not", V1),
              dct(("dstar", F0)), dct(("dstar", V1), kv(V2, V3)), comp("CList", N(1), X.DUMMY, 1, V2)]:
        kern_terms.setdefault(X.p_expr(t), t)
    pure_cases, ment_cases = [], []
    for txt, t in kern_terms.items():
        node = ast.parse(txt, mode="eval").body
        with common.quiet():
            pure_cases.append((t, not core.has_side_effect(node)))
            for x in (1, 2, 3):
                ment_cases.append((x, t, fixes._name_mentions(node, X.name_txt(x)) > 0))
    for k, shard in _shards(pure_cases):
        p = wd / f"lpure_{k}.v"
        p.write_text(HEADER + "Definition cases : list (expr * bool) := [\n " +
                     ";\n ".join(f"({X.g_expr(t)}, {gbool(r)})" for t, r in shard) + "\n].\nEval vm_compute in (bad_idx pure_case_ok cases).\n")
        files.append(p)
        meta.append(("pure", shard))
    for k, shard in _shards(ment_cases, 1200):
        p = wd / f"lment_{k}.v"
        p.write_text(HEADER + "Definition cases : list (nat * expr * bool) := [\n " +
                     ";\n ".join(f"({x}%nat, {X.g_expr(t)}, {gbool(r)})" for x, t, r in shard) +
                     "\n].\nEval vm_compute in (bad_idx mentions_case_ok cases).\n")
        files.append(p)
        meta.append(("ment", shard))
    timings["impl_s"] = round(time.time() - t0, 1)

    # ---- semantics validation: CPython vs exec_block on inputs and outputs
    sem, seen = [], set()
    per = 2 if quick else 5
    cap = 4000 if quick else 60000
    sem_blocks = []
    for c in block_cases:
        if c[1] == "simplify_assign_immediate_return":
            continue                      # function-local variables: validated through the global form of the same blocks
        sem_blocks.append(c[3])
        if c[4] != c[3]:
            sem_blocks.append(c[4])
    for c in block_cases:
        if c[1] == "simplify_assign_immediate_return":
            sem_blocks.append(c[3])
    for b in sem_blocks:
        src = p_block(b)
        if src in seen or len(sem) >= cap:
            continue
        seen.add(src)
        for env in pick_vals(src, per):
            res = run_block(src, env)
            try:
                sem.append((b, env, g_expected(res), src, X.g_bindings(env)))
            except (Unsupported, RecursionError):
                hist["sem:unsupported-value"] += 1
    for k, shard in _shards(sem):
        p = wd / f"lsem_{k}.v"
        body = ";\n ".join(f"({g_block(b)}, {gb}, {exp})" for b, _, exp, _, gb in shard)
        p.write_text(HEADER + f"Definition cases : list sem_case := [\n {body}\n].\nEval vm_compute in (map sem_status cases).\n")
        files.append(p)
        meta.append(("sem", shard))
    # lambda application
    lam_sem = []
    for l, res, src, out in lam_cases:
        for args in ([], [[1, 1, 2]], [(2, 1), 5], [{1: 2}], [0, 1, 2]):
            env = {"v3": [4, 4]}
            val, log = X.run_expr(f"({src[4:].strip()})(" + ", ".join(repr(a) for a in args) + ")", env)
            try:
                exp = "None" if (isinstance(val, tuple) and val and val[0] == "exc") else f"(Some ({X.g_val(val)}, {X.g_trace(log)}))"
                lam_sem.append((l, env, args, exp, src))
            except Unsupported:
                hist["sem:unsupported-value"] += 1
    for k, shard in _shards(lam_sem):
        p = wd / f"llsem_{k}.v"
        body = ";\n ".join(f"({g_lambda(l)}, {X.g_bindings(env)}, {glist(args, X.g_val)}, {exp})" for l, env, args, exp, _ in shard)
        p.write_text(HEADER + "Definition cases : list (lam * list (nat * val) * list val * option (val * trace)) := [\n "
                     f"{body}\n].\nEval vm_compute in (map lam_sem_status cases).\n")
        files.append(p)
        meta.append(("lamsem", shard))
    timings["cpython_s"] = round(time.time() - t0, 1)

    results = common.run_case_files(files)
    timings["coq_s"] = round(time.time() - t0, 1)
    disagreements, sem_bad, sem_gap = [], [], 0
    for p, (kind, shard) in zip(files, meta):
        rc, out = results[p]
        idx = common.parse_nat_list(out) if rc == 0 else None
        if idx is None:
            disagreements.append({"kind": "eval-failed", "file": p.name, "log": out[-1500:]})
            continue
        if kind == "brule":
            for i in idx:
                c = shard[i]
                disagreements.append({"kind": "rule-model", "rule": c[1], "model": c[0], "source": c[5], "impl_output": c[6]})
        elif kind == "star":
            for i in idx:
                t, cands, source = shard[i]
                disagreements.append({"kind": "rule-model", "rule": "breakout_starred_args", "source": source,
                                      "impl_yields": [X.p_expr(x) for x in cands]})
        elif kind == "lam":
            for i in idx:
                disagreements.append({"kind": "rule-model", "rule": "simplify_redundant_lambda", "source": shard[i][2],
                                      "impl_output": shard[i][3]})
        elif kind == "pure":
            for i in idx:
                disagreements.append({"kind": "kernel", "kernel": "pure ~ not core.has_side_effect", "expr": X.p_expr(shard[i][0]),
                                      "impl": shard[i][1]})
        elif kind == "ment":
            for i in idx:
                disagreements.append({"kind": "kernel", "kernel": "mentions ~ fixes._name_mentions", "expr": X.p_expr(shard[i][1]),
                                      "name": shard[i][0], "impl": shard[i][2]})
        elif kind in ("sem", "lamsem"):
            for i, st in enumerate(idx):
                if st == 1:
                    sem_bad.append({"kind": "semantics", "source": shard[i][3] if kind == "sem" else shard[i][4],
                                    "env": repr(shard[i][1]), "cpython": shard[i][2] if kind == "sem" else shard[i][3]})
                elif st == 2:
                    sem_gap += 1

    # ---- property oracle on the fired deterministic cases
    failures, reproduced = [], {}
    n_oracle = 0
    nval = 4 if quick else 8
    for (fname, src0), (b, ob, ctx, local) in fired_blocks.items():
        site = "fixes." + fname
        out0 = p_block(ob)
        for env in pick_vals(src0, nval):
            before = run_block(src0, env, local)
            if before[0][0] == "exc":
                continue          # the property speaks about runs of the original that terminate normally
            after = run_block(out0, env, local)
            n_oracle += 1
            ob_, oa_ = observation(before), observation(after)
            if ob_ != oa_:
                case = {"source": src0, "output": out0, "env": env, "obs_before": ob_, "obs_after": oa_,
                        "problem": f"{src0!r} -> {out0!r} under {env}: {ob_} vs {oa_}"}
                m = match_finding(kf, site, case)
                if m is None:
                    failures.append((site, case))
                else:
                    reproduced.setdefault(m.id, (m, []))[1].append(case)
    envs = X.fixed_envs()
    for source, (term, cands) in fired_exprs.items():
        with _star_rule():
            fails, new = X.oracle_case(mods, "LStarArgs", source, envs[:12 if quick else 25])
        n_oracle += 1
        for f in fails:
            failures.append(("fixes.breakout_starred_args", f))
    n_wit = check_witnesses(run, mods, kf, failures, reproduced)
    timings["oracle_s"] = round(time.time() - t0, 1)

    for fid, (f, hits) in sorted(reproduced.items()):
        if fid.startswith("F02coll"):
            run.known_finding(fid, f"{f.text} [{len(hits)} instances, e.g. {hits[0]['problem'][:300]}]")
    for f in kf:
        if f.kind == "finding" and f.id.startswith("F02coll") and f.id not in reproduced:
            common.log(f"note: known finding {f.id} no longer reproduces")

    import os
    if os.environ.get("C02L_DEBUG"):
        with open(os.environ["C02L_DEBUG"], "w") as fh:
            json.dump({"disagreements": disagreements, "sem_bad": sem_bad, "problems": problems,
                       "failures": [(s_, {k: repr(v) for k, v in f_.items()}) for s_, f_ in failures]}, fh, indent=1, default=str)
    # ---- verdicts
    for d in (disagreements + sem_bad + problems)[:8]:
        common.log("coll tranche: " + json.dumps(d, default=str)[:600])
    seen_sites = Counter()
    for site, f in failures:
        seen_sites[site] += 1
        if seen_sites[site] <= 2:
            run.violation({"tranche": "coll", "kind": "property-oracle", "site": site,
                           **{k: (repr(v) if k in ("env", "obs_before", "obs_after") else v) for k, v in f.items()},
                           "explanation": "executing the rewritten statements gives a different outcome / variable "
                                          "value (incl. type, key order) / call log, and no listed finding covers it"}, True)
    if not failures:
        for d in (disagreements + sem_bad + problems)[:5]:
            run.violation({"tranche": "coll", **d, "kernel": d.get("kernel", "RulesColl"),
                           "explanation": "model and implementation (or model and CPython) disagree; the property oracle "
                                          "found no differing execution on the explored valuations"}, False)
    elif disagreements or sem_bad or problems:
        run.notes.append(f"coll: {len(disagreements)} correspondence / {len(sem_bad)} semantics disagreements / "
                         f"{len(problems)} rule problems alongside the oracle failures")
    n_fired = len(fired_blocks) + len(fired_exprs) + sum(1 for c in lam_cases if c[1] != "None")
    samples = [s for (_, s) in list(fired_blocks)[:: max(1, len(fired_blocks) // 6)]][:6]
    return {
        "evaluations": len(block_cases) + len(star_cases) + len(lam_cases) + len(pure_cases) + len(ment_cases)
                       + len(sem) + len(lam_sem) + n_oracle,
        "distinct_nontrivial": n_fired,
        "rule": ("per rule: all small shapes of its pattern over fixed pools (every init display x every following "
                 "statement, pairs over a reduced pool, separators, two transactions, near misses; 5 contexts), then "
                 "seeded random blocks; non-trivial = the real rule changed the text; distinct by (rule, source). "
                 f"Semantics: CPython vs exec_block on every input and output block under {per} valuations."),
        "samples": samples,
        "modelled_rules": MODELLED, "rules_modelled": MODELLED,
        "histogram": dict(hist), "block_cases": len(block_cases), "semantic_cases": len(sem) + len(lam_sem),
        "semantic_gaps": sem_gap, "semantic_mismatches": len(sem_bad), "kernel_cases": len(pure_cases) + len(ment_cases),
        "correspondence_disagreements": len(disagreements), "rule_problems": len(problems),
        "oracle_runs": n_oracle, "oracle_failures": len(failures), "witness_programs": n_wit,
        "timings_cumulative": timings,
    }


TRUSTED_BASE = [
    "statement <-> Python text printer and ast reader in harness/c02_coll.py (round trip asserted on every case)",
    "exec_block / apply_meth / sset of RulesCollModel.v are definitions, validated against CPython (outcome, every "
    "bound name incl. type, key order and surviving key object, call log) on every input and output block",
    "heap-free value semantics: a mutation is defined only for the name that owns its object (bound by the latest "
    "`x = <new object>` and not read since); aliasing programs are outside the model (None)",
]
UNMODELLED = [
    "fixes.implicit_dict_keys_values_items: the keys -> items forms (subscript loads) and the comprehension forms",
    "fixes.implicit_defaultdict: the loop pattern matcher (only one loop step and the observable class are modelled)",
    "fixes.fix_raise_missing_from: try statements (only the propagated exception record is modelled)",
    "fixes.deinterpolate_logging_args: no model (finding F02-42)",
    "nested blocks: the merge rules are modelled on one statement list; the harness descends into 5 contexts",
]
ASSUMPTIONS = [
    "opaque calls may read variables (world families indexed by the store) but do not mutate or retain them",
    "lambdas are judged on one positional application; keyword calls and late binding of the callee (F02x-18) are outside",
]


def replay(mods, data) -> int:
    if data.get("kind") == "property-oracle" and data.get("source") and data.get("site"):
        fname = data["site"].split(".")[1]
        if data.get("witness"):
            new = apply_rule(mods, fname, data["source"])
            b, a = run_program(data["source"]), run_program(new)
            print("now:", repr(b), "->", repr(a))
            return 1 if a != b else 0
        new = apply_rule(mods, fname, data["source"])
        print("input:\n" + data["source"] + "output now:\n" + new)
        bad = 0
        for env in VALS:
            before = run_block(data["source"], env)
            if before[0][0] == "exc":
                continue
            after = run_block(new, env)
            if observation(before) != observation(after):
                bad += 1
                print("  differs under", env)
        return 1 if bad else 0
    print(json.dumps({k: v for k, v in data.items() if k in ("kind", "rule", "source", "impl_output", "explanation")}, indent=1))
    return 0
