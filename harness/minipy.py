"""MiniPy terms for C02: Python-side representation, pretty-printer to Python source, parser back from `ast`,
Gallina printers, enumerators, and the scripted-stub runner used to validate MiniPyModel.exec against CPython.

Terms (tuples):
  val    ('B', bool) | ('O', truthy, n)
  test   ('K', bool) | ('U', i, (vars...)) | ('N', test)
  rexpr  ('V', val) | ('X', var) | ('T', test)
  iter   ('IK', n) | ('IU', i, (vars...))
  stmt   ('pass',) ('ev', i, rd) ('asg', x, rexpr) ('ret', rexpr) ('raise',) ('break',) ('cont',)
         ('if', test, body, orelse) ('while', test, body, orelse) ('for', iter, body, orelse)
A program is a list of stmt = the body of `def f(v0, v1, v2):`.
"""
from __future__ import annotations

import ast
import itertools
import sys

NV = 3
FALSY = ["0", "''", "()", "None"]
HEADER = "def f(v0, v1, v2):\n"


class ParseError(Exception):
    pass


# ------------------------------------------------------------------------------------------------
# printer


def val_src(v):
    if v[0] == "B":
        return "True" if v[1] else "False"
    return str(v[2] + 2) if v[1] else FALSY[v[2]]


def args_src(i, rd):
    return ", ".join([str(i)] + [f"v{x}" for x in rd])


def t_src(t):
    if t[0] == "K":
        return "True" if t[1] else "False"
    if t[0] == "U":
        return f"c({args_src(t[1], t[2])})"
    return "not " + t_src(t[1])


def r_src(e):
    if e[0] == "V":
        return val_src(e[1])
    if e[0] == "X":
        return f"v{e[1]}"
    return t_src(e[1])


def it_src(it):
    if it[0] == "IK":
        n = it[1]
        return "(" + ", ".join(str(k) for k in range(n)) + ("," if n == 1 else "") + ")"
    return f"it({args_src(it[1], it[2])})"


def block_src(b, ind):
    if not b:
        return "    " * ind + "pass\n"
    return "".join(s_src(s, ind) for s in b)


def s_src(s, ind, elif_=False):
    p = "    " * ind
    k = s[0]
    if k == "pass":
        return p + "pass\n"
    if k == "ev":
        return p + f"e({args_src(s[1], s[2])})\n"
    if k == "asg":
        return p + f"v{s[1]} = {r_src(s[2])}\n"
    if k == "ret":
        return p + f"return {r_src(s[1])}\n"
    if k == "raise":
        return p + "raise E()\n"
    if k == "break":
        return p + "break\n"
    if k == "cont":
        return p + "continue\n"
    if k == "if":
        out = p + ("elif " if elif_ else "if ") + t_src(s[1]) + ":\n" + block_src(s[2], ind + 1)
        e = s[3]
        if len(e) == 1 and e[0][0] == "if":
            out += s_src(e[0], ind, elif_=True)
        elif e:
            out += p + "else:\n" + block_src(e, ind + 1)
        return out
    if k == "while":
        out = p + f"while {t_src(s[1])}:\n" + block_src(s[2], ind + 1)
    elif k == "for":
        out = p + f"for _k in {it_src(s[1])}:\n" + block_src(s[2], ind + 1)
    else:
        raise ValueError(s)
    if s[3]:
        out += p + "else:\n" + block_src(s[3], ind + 1)
    return out


def prog_src(p) -> str:
    return HEADER + block_src(p, 1)


# ------------------------------------------------------------------------------------------------
# parser (ast -> term), canonical: `not <literal>` is a literal, a literal test used as a value is a constant


def _call(node, fn):
    if not (isinstance(node, ast.Call) and isinstance(node.func, ast.Name) and node.func.id == fn and not node.keywords):
        return None
    a = node.args
    if not a or not (isinstance(a[0], ast.Constant) and type(a[0].value) is int):
        raise ParseError(ast.dump(node))
    rd = []
    for x in a[1:]:
        if not (isinstance(x, ast.Name) and x.id[0] == "v" and x.id[1:].isdigit()):
            raise ParseError(ast.dump(node))
        rd.append(int(x.id[1:]))
    return a[0].value, tuple(rd)


def p_test(node):
    if isinstance(node, ast.Constant) and type(node.value) is bool:
        return ("K", node.value)
    if isinstance(node, ast.UnaryOp) and isinstance(node.op, ast.Not):
        t = p_test(node.operand)
        return ("K", not t[1]) if t[0] == "K" else ("N", t)
    c = _call(node, "c")
    if c:
        return ("U", c[0], c[1])
    raise ParseError("test: " + ast.dump(node))


def p_rexpr(node):
    if isinstance(node, ast.Constant):
        v = node.value
        if type(v) is bool:
            return ("V", ("B", v))
        if type(v) is int and v >= 2:
            return ("V", ("O", True, v - 2))
        if type(v) is int and v == 0:
            return ("V", ("O", False, 0))
        if v == "" and type(v) is str:
            return ("V", ("O", False, 1))
        if v is None:
            return ("V", ("O", False, 3))
        raise ParseError("const: " + repr(v))
    if isinstance(node, ast.Tuple) and not node.elts:
        return ("V", ("O", False, 2))
    if isinstance(node, ast.Name) and node.id[0] == "v" and node.id[1:].isdigit():
        return ("X", int(node.id[1:]))
    if (isinstance(node, ast.Call) and isinstance(node.func, ast.Name) and node.func.id == "bool"
            and len(node.args) == 1 and not node.keywords):
        # `bool(<test>)` (emitted by fix_if_return / fix_if_assign since 4486780) is read as `not not <test>`:
        # one truth test of the operand, result True/False (RulesFlowModel.TBool).  Value positions only; the
        # printer never emits it, so the round trip of generated programs is unaffected.
        t = p_test(node.args[0])
        return ("V", ("B", t[1])) if t[0] == "K" else ("T", ("N", ("N", t)))
    t = p_test(node)
    return ("V", ("B", t[1])) if t[0] == "K" else ("T", t)


def p_iter(node):
    if isinstance(node, ast.Tuple):
        vals = [getattr(e, "value", None) for e in node.elts]
        if vals != list(range(len(vals))):
            raise ParseError("iter: " + ast.dump(node))
        return ("IK", len(vals))
    c = _call(node, "it")
    if c:
        return ("IU", c[0], c[1])
    raise ParseError("iter: " + ast.dump(node))


def p_block(nodes):
    return [p_stmt(n) for n in nodes]


def p_stmt(n):
    if isinstance(n, ast.Pass):
        return ("pass",)
    if isinstance(n, ast.Expr):
        c = _call(n.value, "e")
        if c:
            return ("ev", c[0], c[1])
        raise ParseError("expr: " + ast.dump(n))
    if isinstance(n, ast.Assign):
        if len(n.targets) != 1 or not isinstance(n.targets[0], ast.Name) or not n.targets[0].id[1:].isdigit():
            raise ParseError("assign: " + ast.dump(n))
        return ("asg", int(n.targets[0].id[1:]), p_rexpr(n.value))
    if isinstance(n, ast.Return):
        if n.value is None:
            raise ParseError("bare return")
        return ("ret", p_rexpr(n.value))
    if isinstance(n, ast.Raise):
        return ("raise",)
    if isinstance(n, ast.Break):
        return ("break",)
    if isinstance(n, ast.Continue):
        return ("cont",)
    if isinstance(n, ast.If):
        return ("if", p_test(n.test), p_block(n.body), p_block(n.orelse))
    if isinstance(n, ast.While):
        return ("while", p_test(n.test), p_block(n.body), p_block(n.orelse))
    if isinstance(n, ast.For):
        if not (isinstance(n.target, ast.Name) and n.target.id == "_k"):
            raise ParseError("for target")
        return ("for", p_iter(n.iter), p_block(n.body), p_block(n.orelse))
    raise ParseError("stmt: " + ast.dump(n)[:200])


def parse_prog(src: str):
    """Source text of `def f(v0, v1, v2): ...` (alone in the module) -> program term."""
    mod = ast.parse(src)
    if len(mod.body) != 1 or not isinstance(mod.body[0], ast.FunctionDef) or mod.body[0].name != "f":
        raise ParseError("module shape: " + src[:200])
    return p_block(mod.body[0].body)


# ------------------------------------------------------------------------------------------------
# Gallina printers


def g_list(xs, f=str):
    return "[" + "; ".join(f(x) for x in xs) + "]"


def g_bool(b):
    return "true" if b else "false"


def g_val(v):
    return f"(VBool {g_bool(v[1])})" if v[0] == "B" else f"(VObj {g_bool(v[1])} {v[2]})"


def g_test(t):
    if t[0] == "K":
        return f"(Known {g_bool(t[1])})"
    if t[0] == "U":
        return f"(Unknown {t[1]} {g_list(t[2])})"
    return f"(TNot {g_test(t[1])})"


def g_rexpr(e):
    if e[0] == "V":
        return f"(RVal {g_val(e[1])})"
    if e[0] == "X":
        return f"(RVar {e[1]})"
    return f"(RTest {g_test(e[1])})"


def g_iter(it):
    return f"(IKnown {it[1]})" if it[0] == "IK" else f"(IUnknown {it[1]} {g_list(it[2])})"


def g_stmt(s):
    k = s[0]
    if k == "pass":
        return "SPass"
    if k == "ev":
        return f"(SEv {s[1]} {g_list(s[2])})"
    if k == "asg":
        return f"(SAssign {s[1]} {g_rexpr(s[2])})"
    if k == "ret":
        return f"(SReturn {g_rexpr(s[1])})"
    if k == "raise":
        return "SRaise"
    if k == "break":
        return "SBreak"
    if k == "cont":
        return "SContinue"
    if k == "if":
        return f"(SIf {g_test(s[1])} {g_prog(s[2])} {g_prog(s[3])})"
    if k == "while":
        return f"(SLoop (HWhile {g_test(s[1])}) {g_prog(s[2])} {g_prog(s[3])})"
    if k == "for":
        return f"(SLoop (HFor {g_iter(s[1])}) {g_prog(s[2])} {g_prog(s[3])})"
    raise ValueError(s)


def g_prog(p):
    return g_list(p, g_stmt)


# ------------------------------------------------------------------------------------------------
# structure helpers


def walk(p):
    for s in p:
        yield s
        if s[0] in ("if", "while", "for"):
            yield from walk(s[2])
            yield from walk(s[3])


def well_formed(p, in_loop=False) -> bool:
    """break/continue only inside loops (else CPython rejects the text); no empty bodies."""
    for s in p:
        k = s[0]
        if k in ("break", "cont") and not in_loop:
            return False
        if k == "if":
            if not s[2] or not well_formed(s[2], in_loop) or not well_formed(s[3], in_loop):
                return False
        elif k in ("while", "for"):
            if not s[2] or not well_formed(s[2], True) or not well_formed(s[3], in_loop):
                return False
    return True


def depth(p) -> int:
    d = 0
    for s in p:
        if s[0] in ("if", "while", "for"):
            d = max(d, 1 + max(depth(s[2]), depth(s[3])))
    return d


def size(p) -> int:
    return sum(1 for _ in walk(p))


# ------------------------------------------------------------------------------------------------
# enumeration


def blocks(atoms, lo, hi):
    """all sequences of atoms of length lo..hi"""
    for n in range(lo, hi + 1):
        for c in itertools.product(atoms, repeat=n):
            yield list(c)


def compounds(tests, iters, bodies, orelses, kinds=("if", "while", "for")):
    for k in kinds:
        heads = tests if k in ("if", "while") else iters
        for h in heads:
            for b in bodies:
                for e in orelses:
                    yield (k, h, b, e)


# ------------------------------------------------------------------------------------------------
# CPython runner with scripted stubs


class _Budget(BaseException):
    pass


class E(Exception):
    pass


def py_val(v):
    if v[0] == "B":
        return v[1]
    return v[2] + 2 if v[1] else [0, "", (), None][v[2]]


def term_val(x):
    if type(x) is bool:
        return ("B", x)
    if type(x) is int and x >= 2:
        return ("O", True, x - 2)
    if type(x) is int and x == 0:
        return ("O", False, 0)
    if type(x) is str and x == "":
        return ("O", False, 1)
    if type(x) is tuple and x == ():
        return ("O", False, 2)
    if x is None:
        return ("O", False, 3)
    raise ValueError(repr(x))


_CODE_CACHE: dict = {}


def _compile(src: str):
    """the function is rewritten to return (kind, value, locals) so that the final environment is observable"""
    code = _CODE_CACHE.get(src)
    if code is not None:
        return code
    tree = ast.parse(src)
    fn = tree.body[0]
    envt = lambda: ast.Tuple(elts=[ast.Name(f"v{k}", ast.Load()) for k in range(NV)], ctx=ast.Load())  # noqa

    class R(ast.NodeTransformer):
        def visit_Return(self, node):
            return ast.copy_location(ast.Return(value=ast.Tuple(
                elts=[ast.Constant("ret"), node.value, envt()], ctx=ast.Load())), node)
    fn = R().visit(fn)
    fn.body.append(ast.Return(value=ast.Tuple(elts=[ast.Constant("normal"), ast.Constant(None), envt()], ctx=ast.Load())))
    handler = ast.ExceptHandler(type=ast.Name("E", ast.Load()), name=None, body=[ast.Return(value=ast.Tuple(
        elts=[ast.Constant("exc"), ast.Constant(None), envt()], ctx=ast.Load()))])
    fn.body = [ast.Try(body=fn.body, handlers=[handler], orelse=[], finalbody=[])]
    ast.fix_missing_locations(tree)
    code = compile(tree, "<minipy>", "exec")
    if len(_CODE_CACHE) > 20000:
        _CODE_CACHE.clear()
    _CODE_CACHE[src] = code
    return code


def run_python(src: str, init, script, line_budget=20000):
    """Execute `def f(v0,v1,v2)` from src with stubs e/c/it driven by `script` (list of val terms; exhausted
    -> False).  Returns None when the line budget is exceeded (divergence), else
    (outcome, trace, final_env) with outcome ('normal',) | ('ret', val) | ('exc',)."""
    trace = []
    pos = [0]
    sc = [py_val(v) for v in script]

    def draw():
        v = sc[pos[0]] if pos[0] < len(sc) else False
        pos[0] += 1
        return v

    def e(i, *a):
        trace.append(("call", i, tuple(term_val(x) for x in a)))

    def c(i, *a):
        trace.append(("test", i, tuple(term_val(x) for x in a)))
        return draw()

    def it(i, *a):
        trace.append(("iter", i, tuple(term_val(x) for x in a)))

        def gen():
            while True:
                trace.append(("next", i))
                if not draw():
                    return
                yield None
        return gen()

    g = {"e": e, "c": c, "it": it, "E": E}
    exec(_compile(src), g)
    count = [0]

    def tracer(frame, event, arg):
        if event == "line":
            count[0] += 1
            if count[0] > line_budget:
                raise _Budget()
        return tracer

    old = sys.gettrace()
    sys.settrace(tracer)
    try:
        kind, value, env = g["f"](*[py_val(v) for v in init])
    except _Budget:
        return None
    finally:
        sys.settrace(old)
    out = ("normal",) if kind == "normal" else ("exc",) if kind == "exc" else ("ret", term_val(value))
    return out, trace, tuple(term_val(x) for x in env)


def g_event(ev):
    k = ev[0]
    if k == "next":
        return f"(EvNext {ev[1]})"
    name = {"call": "EvCall", "test": "EvTest", "iter": "EvIter"}[k]
    return f"({name} {ev[1]} {g_list(ev[2], g_val)})"


def g_outcome(o):
    return {"normal": "Normal", "exc": "Exc"}.get(o[0]) or f"(Ret {g_val(o[1])})"
