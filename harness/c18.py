"""C18 -- Import normalisation keeps every referenced name bound to the same object (kernel K11).

Pieces (see design/C18.md):
  * generated package trees (written under .work/), really imported by CPython in a subprocess
    (harness/c18_worker.py) to validate the reference semantics `resolve` of ImportsModel.v;
  * correspondence of tracing.fix_starred_imports / fix_reimported_names (run with cwd = the tree) and of
    the import-statement rules of fixes.py with their Gallina models, on the same inputs;
  * property oracle: the client executed before/after in ONE subprocess, identity of every referenced
    global; used by the failing-input search and by the deterministic sweep;
  * known findings re-run and matched by site + structural predicate (SIGS below)."""
from __future__ import annotations

import ast
import importlib
import itertools
import json
import os
import random
import subprocess
import sys
from collections import Counter
from pathlib import Path

from . import common
from .common import glist, gbool

PID = "C18"
POOL = ["x", "y", "z", "w", "_u"]
FUEL = 40
WORKER = Path(__file__).with_name("c18_worker.py")

# ---------------------------------------------------------------------------------------------
# trees:  {"mods": [{"name", "init", "all": None|[..], "all_tuple": bool, "all_last": bool, "body": [binding]}]}
# binding: ("def", n) | ("assign", n) | ("from", m, n, a) | ("star", m) | ("import", m, a|None)
# modules are listed in dependency order (a module imports only from modules listed before it)


def mod(name, body, all_=None, init=False, all_tuple=False, all_last=False):
    return {"name": name, "init": init, "all": all_, "all_tuple": all_tuple, "all_last": all_last, "body": body}


def render_binding(b, modname, k=0):
    t = b[0]
    if t == "def":
        return f"class {b[1]}:\n    pass" if (len(modname) + k) % 2 else f"def {b[1]}():\n    pass"
    if t == "assign":
        return f"{b[1]} = [\"@{modname}:{b[1]}\"]"
    if t == "from":
        return f"from {b[1]} import {b[2]}" + (f" as {b[3]}" if b[3] != b[2] else "")
    if t == "star":
        return f"from {b[1]} import *"
    if t == "import":
        return f"import {b[1]}" + (f" as {b[2]}" if b[2] else "")
    raise ValueError(b)


def render_module(m):
    lines = [render_binding(b, m["name"], k) for k, b in enumerate(m["body"])]
    if m["all"] is not None:
        items = ", ".join(repr(n) for n in m["all"])
        txt = f"__all__ = ({items}{',' if m['all'] else ''})" if m["all_tuple"] else f"__all__ = [{items}]"
        lines = lines + [txt] if m["all_last"] else [txt] + lines
    return "\n".join(lines) + "\n"


def write_tree(d: Path, tree):
    d.mkdir(parents=True, exist_ok=True)
    for m in tree["mods"]:
        parts = m["name"].split(".")
        p = d.joinpath(*parts, "__init__.py") if m["init"] else d.joinpath(*parts[:-1], parts[-1] + ".py")
        p.parent.mkdir(parents=True, exist_ok=True)
        p.write_text(render_module(m))


# ---- Python mirror of the Gallina reference semantics (used only to GENERATE well-formed inputs and
# to evaluate the structural predicates of known findings; never as an oracle)

def find_mod(tree, name):
    for m in tree["mods"]:
        if m["name"] == name:
            return m
    return None


def bound_name(b):
    t = b[0]
    if t in ("def", "assign"):
        return b[1]
    if t == "from":
        return b[3]
    if t == "import":
        return b[2] or b[1].split(".")[0]
    return None


def exported(m, n):
    return n in m["all"] if m["all"] is not None else not n.startswith("_")


def ref_resolve(tree, mname, n, fuel=FUEL):
    """('obj', m, n) | ('mod', m) | None (unbound) | 'timeout'"""
    if fuel == 0:
        return "timeout"
    m = find_mod(tree, mname)
    if m is None:
        return None
    for b in reversed(m["body"]):
        t = b[0]
        if t in ("def", "assign"):
            if b[1] == n:
                return ("obj", mname, n)
        elif t == "from":
            if b[3] == n:
                return ref_resolve(tree, b[1], b[2], fuel - 1)
        elif t == "import":
            if bound_name(b) == n:
                return ("mod", b[1] if b[2] else b[1].split(".")[0])
        elif t == "star":
            m2 = find_mod(tree, b[1])
            if m2 is not None and exported(m2, n):
                r = ref_resolve(tree, b[1], n, fuel - 1)
                if r is not None:
                    return r
    return None


def tree_loads(tree):
    for m in tree["mods"]:
        for b in m["body"]:
            if b[0] == "from" and not isinstance(ref_resolve(tree, b[1], b[2]), tuple):
                return False
            if b[0] in ("from", "star", "import") and find_mod(tree, b[1]) is None:
                return False
        if m["all"] is not None and not all(isinstance(ref_resolve(tree, m["name"], n), tuple) for n in m["all"]):
            return False
    return True


def namespace(tree, mname, pool):
    return {n: r for n in pool for r in [ref_resolve(tree, mname, n)] if isinstance(r, tuple)}


# ---- ids: ONE id space, order of numbers = order of strings, odd = starts with an underscore

class Ids:
    def __init__(self, strings):
        ss = sorted(set(strings))
        self.of = {s: 2 * r + (1 if s.startswith("_") else 0) for r, s in enumerate(ss)}

    def __call__(self, s):
        return self.of[s]


def tree_strings(tree, clients=()):
    out = set(POOL)
    for m in list(tree["mods"]) + list(clients):
        out.add(m["name"])
        out.add(m["name"].split(".")[0])
        out.update(m["all"] or [])
        for b in m["body"]:
            out.update(s for s in b[1:] if isinstance(s, str))
            if b[0] in ("from", "star", "import"):
                out.add(b[1].split(".")[0])
    return out


def coq_binding(b, ids):
    t = b[0]
    if t == "def":
        return f"Def {ids(b[1])}"
    if t == "assign":
        return f"Assign {ids(b[1])}"
    if t == "from":
        return f"From {ids(b[1])} {ids(b[2])} {ids(b[3])}"
    if t == "star":
        return f"Star {ids(b[1])}"
    if t == "import":
        if b[2]:
            return f"Import {ids(b[1])} {ids(b[2])} false"
        head = b[1].split(".")[0]
        return f"Import {ids(head)} {ids(head)} {gbool('.' in b[1])}"
    raise ValueError(b)


def coq_mod(m, ids):
    al = "None" if m["all"] is None else f"(Some {glist([ids(n) for n in m['all']])})"
    return f"({ids(m['name'])}, MkMod {gbool(m['init'])} {al} {glist([coq_binding(b, ids) for b in m['body']])})"


def coq_graph(mods, ids):
    return glist([coq_mod(m, ids) for m in mods])


def coq_res(r, ids):
    if r is None:
        return "Unbound"
    if r[0] == "obj":
        return f"(Found (TObj {ids(r[1])} {ids(r[2])}))"
    return f"(Found (TMod {ids(r[1])}))"


# ---- clients

def client_source(body, used, modname="client_mod"):
    lines = [render_binding(b, modname, k) for k, b in enumerate(body)]
    lines.append("(" + ", ".join(used) + ("," if len(used) == 1 else "") + ")" if used else "pass")
    return "\n".join(lines) + "\n"


def parse_client(src):
    """top-level statements of a (rewritten) client as bindings, in order"""
    out = []
    for node in ast.parse(src).body:
        if isinstance(node, ast.ImportFrom):
            if node.level:
                out.append(("relative", "." * node.level + (node.module or "")))
                continue
            for al in node.names:
                out.append(("star", node.module) if al.name == "*" else
                           ("from", node.module, al.name, al.asname or al.name))
        elif isinstance(node, ast.Import):
            for al in node.names:
                out.append(("import", al.name, al.asname))
        elif isinstance(node, (ast.FunctionDef, ast.ClassDef)):
            out.append(("def", node.name))
        elif isinstance(node, ast.Assign) and len(node.targets) == 1 and isinstance(node.targets[0], ast.Name):
            out.append(("assign", node.targets[0].id))
    return out


# ---- running the real rules inside a tree

class Impl:
    def __init__(self, base: Path):
        self.mods = common.import_impl()
        self.base = str(base)
        self.tracing, self.fixes, self.core = self.mods["tracing"], self.mods["fixes"], self.mods["core"]
        self.main = self.mods["main"]

    def enter(self, d: Path):
        os.chdir(d)
        for name, m in list(sys.modules.items()):
            f = getattr(m, "__file__", None) or ""
            p = getattr(m, "__path__", None)
            if f.startswith(self.base) or (p and any(str(x).startswith(self.base) for x in p)):
                del sys.modules[name]
        importlib.invalidate_caches()
        self.tracing.trace_origin.cache_clear()
        self.core.parse.cache_clear()

    def run(self, rule, src):
        f = {"fix_starred_imports": self.tracing.fix_starred_imports,
             "fix_reimported_names": self.tracing.fix_reimported_names,
             "remove_unused_imports": self.fixes.remove_unused_imports,
             "fix_duplicate_imports": self.fixes.fix_duplicate_imports,
             "sort_imports": self.fixes.sort_imports,
             "move_imports_to_toplevel": self.fixes.move_imports_to_toplevel,
             "add_missing_imports": self.fixes.add_missing_imports,
             "format_code": self.main.format_code,
             "_fix_duplicate_from_imports": self.fixes._fix_duplicate_from_imports,
             "_fix_duplicate_regular_imports": self.fixes._fix_duplicate_regular_imports,
             "_breakout_stacked_imports": self.fixes._breakout_stacked_imports,
             "_sort_import_statements": self.fixes._sort_import_statements,
             "_fix_imported_as_self_or_unsorted": self.fixes._fix_imported_as_self_or_unsorted}[rule]
        try:
            with common.quiet():
                return f(src)
        except RecursionError:
            return ("crash", "RecursionError")
        except Exception as e:  # noqa
            return ("crash", type(e).__name__ + ": " + str(e)[:100])


def run_worker(jobs, base: Path, timeout=600):
    env = dict(os.environ, PYTHONDONTWRITEBYTECODE="1", PYTHONPATH="")
    r = subprocess.run([sys.executable, "-S", str(WORKER)], input=json.dumps({"jobs": jobs, "base": str(base)}),
                       capture_output=True, text=True, timeout=timeout, env=env, cwd=str(base))
    if r.returncode != 0:
        raise RuntimeError("c18 worker failed: " + r.stderr[-2000:])
    return json.loads(r.stdout)["results"]


# ---------------------------------------------------------------------------------------------
# generators

def small_scope_trees():
    """exhaustive family: 4 variants of ma x 11 variants of mb (those that load)"""
    mas = [
        mod("ma", [("assign", "x"), ("assign", "y")]),
        mod("ma", [("assign", "x"), ("def", "y"), ("assign", "_u")]),
        mod("ma", [("assign", "x"), ("assign", "y"), ("assign", "_u")], all_=["x", "_u"]),
        mod("ma", [("def", "x"), ("assign", "y")], all_=["y"], all_tuple=True, all_last=True),
    ]
    mbs = [
        [("from", "ma", "x", "x")],
        [("from", "ma", "x", "y")],
        [("star", "ma")],
        [("assign", "x"), ("star", "ma")],
        [("star", "ma"), ("assign", "x")],
        [("import", "ma", "x")],
        [("import", "ma", None), ("assign", "y")],
        [("from", "ma", "x", "x"), ("from", "ma", "y", "y"), "ALL:x"],
        [("star", "ma"), ("assign", "w"), "ALL:w,x"],
        [("from", "ma", "y", "x"), ("assign", "y")],
        [("assign", "z"), ("from", "ma", "x", "w"), ("star", "ma")],
    ]
    out = []
    for a, bdef in itertools.product(mas, mbs):
        al = [s for s in bdef if isinstance(s, str)]
        body = [s for s in bdef if not isinstance(s, str)]
        b = mod("mb", body, all_=al[0][4:].split(",") if al else None)
        t = {"mods": [a, b]}
        if tree_loads(t):
            out.append(t)
    return out


SMALL_CLIENTS = [
    [("star", "mb")],
    [("star", "ma"), ("star", "mb")],
    [("star", "mb"), ("star", "ma")],
    [("from", "mb", "x", "x")],
    [("from", "mb", "x", "z")],
    [("from", "mb", "y", "y")],
    [("from", "mb", "x", "x"), ("from", "mb", "y", "y")],
    [("from", "ma", "x", "x"), ("star", "mb")],
    [("star", "mb"), ("from", "ma", "x", "x")],
    [("assign", "x"), ("star", "mb")],
    [("from", "mb", "ma", "ma")],
    [("import", "mb", None), ("from", "mb", "x", "x")],
    [("from", "mb", "w", "w"), ("from", "ma", "y", "w")],
    [("from", "mb", "x", "q"), ("from", "mb", "x", "x"), ("def", "y")],
]


def random_tree(rnd):
    order = ["ma", "mb", "pk.s1", "pk.s2", "pk", "mc"]
    chosen = [n for n in order if n in ("ma",) or rnd.random() < 0.75]
    if any(n.startswith("pk.") for n in chosen) and "pk" not in chosen:
        chosen.insert(max(i for i, n in enumerate(chosen) if n.startswith("pk.")) + 1, "pk")
    tree = {"mods": []}
    for name in chosen:
        earlier = [m["name"] for m in tree["mods"]]
        body = []
        for _ in range(rnd.randint(1, 4)):
            r = rnd.random()
            cand = [e for e in earlier if not (name.startswith("pk.") and e == "pk")]
            if r < 0.3 or not cand:
                body.append((rnd.choice(["def", "assign"]), rnd.choice(POOL)))
            elif r < 0.6:
                m2 = rnd.choice(cand)
                ns = sorted(namespace(tree, m2, POOL))
                if ns:
                    n = rnd.choice(ns)
                    body.append(("from", m2, n, n if rnd.random() < 0.6 else rnd.choice(POOL)))
            elif r < 0.85:
                body.append(("star", rnd.choice(cand)))
            else:
                m2 = rnd.choice(cand)
                body.append(("import", m2, rnd.choice(POOL) if rnd.random() < 0.5 else None))
        if not body:
            body = [("assign", rnd.choice(POOL))]
        m = mod(name, body, init=(name == "pk"))
        tree["mods"].append(m)
        if rnd.random() < 0.3:
            ns = sorted(namespace(tree, name, POOL))
            if ns:
                m["all"] = sorted(rnd.sample(ns, rnd.randint(1, len(ns))))
                m["all_tuple"], m["all_last"] = rnd.random() < 0.4, rnd.random() < 0.5
    return tree if tree_loads(tree) else None


def random_client(rnd, tree):
    names = [m["name"] for m in tree["mods"]]
    body = []
    for _ in range(rnd.randint(1, 4)):
        r = rnd.random()
        m2 = rnd.choice(names)
        if r < 0.45:
            ns = sorted(namespace(tree, m2, POOL))
            if ns:
                n = rnd.choice(ns)
                body.append(("from", m2, n, n if rnd.random() < 0.6 else rnd.choice(POOL + ["q"])))
        elif r < 0.75:
            body.append(("star", m2))
        elif r < 0.9:
            body.append(("import", m2, rnd.choice(["q", "w", None, None])))
        else:
            body.append((rnd.choice(["def", "assign"]), rnd.choice(POOL)))
    return body or [("star", names[0])]


# ---- statement lists for the fixes.py rules
STMT_MODS = ["ma", "mb", "os", "os.path", "json", "pk.s1", "xml.dom.minidom", "collections.abc"]
SMALL_STMTS = [
    ("from", "ma", [("x", None)]), ("from", "ma", [("y", None)]), ("from", "mb", [("x", None)]),
    ("from", "ma", [("x", "y")]), ("from", "ma", [("y", None), ("x", None)]),
    ("import", [("ma", None)]), ("import", [("mb", "ma")]), ("import", [("os", None)]),
    ("import", [("mb", None), ("ma", None)]), ("import", [("os.path", None)]),
]


def stmt_text(s):
    if s[0] == "from":
        return f"from {s[1]} import " + ", ".join(n + (f" as {a}" if a else "") for n, a in s[2])
    return "import " + ", ".join(n + (f" as {a}" if a else "") for n, a in s[1])


def stmt_bound(s):
    if s[0] == "from":
        return [a or n for n, a in s[2]]
    return [a or n.split(".")[0] for n, a in s[1]]


def stmts_source(stmts, used):
    return "\n".join(stmt_text(s) for s in stmts) + "\n(" + ", ".join(used) + ("," if len(used) == 1 else "") + ")\n" \
        if used else "\n".join(stmt_text(s) for s in stmts) + "\npass\n"


def parse_stmts(src):
    out = []
    for node in ast.parse(src).body:
        if isinstance(node, ast.ImportFrom):
            out.append(("from", "." * node.level + (node.module or ""), [(a.name, a.asname) for a in node.names]))
        elif isinstance(node, ast.Import):
            out.append(("import", [(a.name, a.asname) for a in node.names]))
    return out


def is_std(stdlib, s):
    if s[0] == "from":
        return s[1].split(".")[0] in stdlib
    return {n.split(".")[0] for n, _ in s[1]} <= stdlib


def coq_stmt(s, ids, stdlib):
    std = gbool(is_std(stdlib, s))
    opt = lambda a: "None" if a is None else f"(Some {ids(a)})"  # noqa
    if s[0] == "from":
        return f"SFrom {std} {ids(s[1])} {glist([f'({ids(n)}, {opt(a)})' for n, a in s[2]])}"
    return "SImport " + glist([f"({ids(n)}, {opt(a)}, {ids(n.split('.')[0])}, {gbool(n.split('.')[0] in stdlib)})"
                               for n, a in s[1]])


def stmts_strings(*lists):
    out = set()
    for l in lists:
        for s in l:
            if s[0] == "from":
                out.add(s[1])
                for n, a in s[2]:
                    out.update([n] + ([a] if a else []))
            else:
                for n, a in s[1]:
                    out.update([n, n.split(".")[0]] + ([a] if a else []))
    return out


def random_stmts(rnd):
    out = []
    names = ["x", "y", "z", "_u", "w"]
    for _ in range(rnd.randint(1, 5)):
        if rnd.random() < 0.55:
            m = rnd.choice(STMT_MODS)
            als = [(rnd.choice(names), rnd.choice([None, None, None, "x", "q", "y"])) for _ in range(rnd.randint(1, 3))]
            out.append(("from", m, [(n, a) for n, a in als]))
        else:
            als = [(rnd.choice(STMT_MODS), rnd.choice([None, None, "q", "ma", "x", "os"]))
                   for _ in range(rnd.choice([1, 1, 2, 3]))]
            out.append(("import", als))
    return out


RULES = [("remove_unused_imports", "RUnused", True), ("_fix_duplicate_from_imports", "RDupFrom", True),
         ("_fix_duplicate_regular_imports", "RDupRegular", True), ("_breakout_stacked_imports", "RBreakout", False),
         ("_sort_import_statements", "RSort", True), ("_fix_imported_as_self_or_unsorted", "RSortAliases", True)]

HEADER = ("From Coq Require Import List Arith Bool.\nImport ListNotations.\n"
          "Require Import Pyrefact.Base Pyrefact.ImportsModel.\n")


def parse_all_nat_lists(out):
    import re
    return [[int(x) for x in re.findall(r"\d+", m)] for m in
            re.findall(r"=\s*(\[[^\]]*\]|nil)\s*:\s*list nat", out, flags=re.S)]


# ---------------------------------------------------------------------------------------------
# building the cases of one tree

def client_mod(i, body):
    return mod(f"zz_client_{i}", body)


def tree_case_text(k, tree, clients, useds, impl_out, cpython, stdlib):
    """Coq text for tree k: graph, resolve-vs-CPython cases, starred and reimported cases.
    returns (text, [labels of the Eval blocks in order with their case lists])"""
    cmods = [client_mod(i, b) for i, b in enumerate(clients)]
    ids = Ids(tree_strings(tree, cmods) | {"q"})
    blocks = []
    txt = [f"Definition g{k} : graph := {coq_graph(tree['mods'], ids)}.",
           f"Definition gc{k} : graph := g{k} ++ {coq_graph(cmods, ids)}."]
    # resolve vs CPython
    rc, rlabels = [], []
    for m in tree["mods"]:
        ns = cpython["namespaces"].get(m["name"], {})
        if "__error__" in ns:
            rlabels.append(("module-error", m["name"], ns)); rc.append(f"({ids(m['name'])}, 0, Timeout)")
            continue
        for n in POOL:
            got = tuple(ns[n]) if n in ns else None
            rc.append(f"({ids(m['name'])}, {ids(n)}, {coq_res(got, ids)})")
            rlabels.append(("resolve", m["name"], n, got))
    for i, (cm, used) in enumerate(zip(cmods, useds)):
        cres = cpython["clients"][i]["before"]
        if cres["exc"] and not cres["exc"].startswith("NameError"):
            continue  # the client does not load (ImportError): outside the reference semantics
        for n in used:
            v = cres["vals"].get(n)
            got = None if v in (None, ["missing"]) else tuple(v)
            if got and (got[0] == "other" or (got[0] == "obj" and got[1] == "client_mod")):
                got = ("obj", cm["name"], n) if got[0] == "obj" else got
            if got and got[0] == "other":
                continue
            rc.append(f"({ids(cm['name'])}, {ids(n)}, {coq_res(got, ids)})")
            rlabels.append(("resolve-client", client_source(cm["body"], used), n, got))
    txt.append(f"Eval vm_compute in (bad_idx (resolve_case_ok {FUEL} gc{k}) {glist(rc)}).")
    blocks.append(rlabels)
    for rule, checker in (("fix_starred_imports", f"starred_case_ok {FUEL} g{k}"),
                          ("fix_reimported_names", f"reimported_case_ok {FUEL} {glist([ids(s) for s in ids.of if s in stdlib])} g{k}")):
        cs, labels = [], []
        for i, (body, used) in enumerate(zip(clients, useds)):
            out = impl_out[rule][i]
            src = client_source(body, used)
            if isinstance(out, tuple):
                labels.append((rule, "crash", src, out)); cs.append("([], [], [Def 0])")
                continue
            try:
                ob = parse_client(out)
                enc = glist([coq_binding(b, ids) for b in ob])
            except Exception as e:  # noqa
                labels.append((rule, "unparsable-output", src, out)); cs.append("([], [], [Def 0])")
                continue
            names = sorted({bound_name(b) for b in body if bound_name(b)} | set(used))
            cs.append(f"({glist([coq_binding(b, ids) for b in body])}, {glist([ids(n) for n in (used if rule == 'fix_starred_imports' else names)])}, {enc})")
            labels.append((rule, "case", src, out))
        txt.append(f"Eval vm_compute in (bad_idx ({checker}) {glist(cs)}).")
        blocks.append(labels)
    return "\n".join(txt) + "\n", blocks


def run_tree_batch(impl, wd: Path, batch, tag, stdlib):
    """batch: list of (tree, clients, useds).  Writes trees, runs the real rules and CPython, builds
    Coq case files.  Returns (files, blocks_per_file, stats, oracle_records)"""
    base = wd / "trees"
    jobs, impl_outs = [], []
    for k, (tree, clients, useds) in enumerate(batch):
        d = base / f"{tag}{k}"
        write_tree(d, tree)
        impl.enter(d)
        outs = {"fix_starred_imports": [], "fix_reimported_names": []}
        cl = []
        for i, (body, used) in enumerate(zip(clients, useds)):
            src = client_source(body, used)
            for rule in outs:
                outs[rule].append(impl.run(rule, src))
            cl.append({"id": i, "before": src, "after": None, "names": list(used)})
        impl_outs.append(outs)
        jobs.append({"dir": str(d), "modules": [m["name"] for m in tree["mods"]], "pool": POOL, "clients": cl})
    os.chdir(common.VERIF)
    cp = run_worker(jobs, base)
    files, blocks = [], []
    PER = 12
    for f0 in range(0, len(batch), PER):
        texts, bl = [HEADER], []
        for k in range(f0, min(f0 + PER, len(batch))):
            tree, clients, useds = batch[k]
            t, b = tree_case_text(k, tree, clients, useds, impl_outs[k], cp[k], stdlib)
            texts.append(t)
            bl.extend(b)
        p = wd / f"tree_{tag}_{f0 // PER}.v"
        p.write_text("\n".join(texts))
        files.append(p)
        blocks.append(bl)
    return files, blocks, impl_outs, cp


def collect(results, files, blocks):
    """disagreements: list of labels"""
    dis = []
    for p, bl in zip(files, blocks):
        rc, out = results[p]
        lists = parse_all_nat_lists(out) if rc == 0 else None
        if lists is None or len(lists) != len(bl):
            dis.append(("eval-failed", p.name, out[-1500:]))
            continue
        for idx, labels in zip(lists, bl):
            for i in idx:
                dis.append(labels[i])
    return dis


# ---------------------------------------------------------------------------------------------
# statement-rule cases

def stmt_rule_cases(impl, lists_useds, stdlib):
    """[(stmts, used)] -> (coq case strings, labels)"""
    cs, labels = [], []
    for stmts, used in lists_useds:
        src = stmts_source(stmts, used)
        for rule, rid, ordered in RULES:
            out = impl.run(rule, src)
            if isinstance(out, tuple):
                labels.append((rule, "crash", src, out)); cs.append("(RSort, true, [], [], [SImport []])")
                continue
            try:
                ostm = parse_stmts(out)
            except SyntaxError:
                labels.append((rule, "unparsable-output", src, out)); cs.append("(RSort, true, [], [], [SImport []])")
                continue
            ids = Ids(stmts_strings(stmts, ostm) | set(used))
            enc = lambda l: glist([coq_stmt(s, ids, stdlib) for s in l])  # noqa
            cs.append(f"({rid}, {gbool(ordered)}, {glist([ids(u) for u in used])}, {enc(stmts)}, {enc(ostm)})")
            labels.append((rule, "case", src, out))
    return cs, labels


def small_stmt_lists(maxlen):
    out = []
    for n in range(1, maxlen + 1):
        for combo in itertools.product(SMALL_STMTS, repeat=n):
            out.append(list(combo))
    return out


def useds_for(stmts, rnd=None):
    bound = sorted({b for s in stmts for b in stmt_bound(s)})
    if rnd is None:
        return [bound, bound[:1], bound[1:]] if len(bound) > 1 else [bound, []]
    k = rnd.randint(0, len(bound))
    return [sorted(rnd.sample(bound, k))]


def stmt_case_files(wd, cs, labels, tag):
    files, blocks = [], []
    SH = 400
    for k in range(0, len(cs), SH):
        p = wd / f"stmts_{tag}_{k // SH}.v"
        p.write_text(HEADER + "Definition cases : list (rule_id * bool * list name * list stmt * list stmt) := [\n "
                     + ";\n ".join(cs[k:k + SH]) + "\n].\nEval vm_compute in (bad_idx stmts_case_ok cases).\n")
        files.append(p)
        blocks.append([labels[k:k + SH]])
    return files, blocks


# ---------------------------------------------------------------------------------------------
# property oracle: execute before/after, identity of every referenced global

SWEEP_RULES = ["fix_starred_imports", "fix_reimported_names", "remove_unused_imports", "fix_duplicate_imports",
               "sort_imports", "move_imports_to_toplevel", "add_missing_imports", "format_code"]
STAGES = ["add_missing_imports", "fix_starred_imports", "fix_reimported_names", "move_imports_to_toplevel",
          "fix_duplicate_imports", "add_missing_imports", "remove_unused_imports", "sort_imports"]


def sweep_source(body, used):
    lines = [render_binding(b, "client_mod", k) for k, b in enumerate(body)]
    lines.append("print(" + ", ".join(used) + ")")
    return "\n".join(lines) + "\n"


def loaded_names(src):
    try:
        return {n.id for n in ast.walk(ast.parse(src)) if isinstance(n, ast.Name) and isinstance(n.ctx, ast.Load)}
    except SyntaxError:
        return None


def oracle_batch(impl, wd: Path, items, tag):
    """items: [(tree, [(src, names, rules)])].  Runs every rule on every client inside its tree and executes
    before/after.  Returns failure records {rule, tree, src, out, names, diff, before, after}."""
    base = wd / "trees"
    jobs, meta = [], []
    for k, (tree, clients) in enumerate(items):
        d = base / f"{tag}{k}"
        write_tree(d, tree)
        impl.enter(d)
        cl = []
        for src, names, rules in clients:
            for rule in rules:
                out = impl.run(rule, src)
                if isinstance(out, tuple):
                    meta.append((k, None, {"rule": rule, "tree": tree, "src": src, "out": None, "crash": out[1]}))
                    continue
                if out == src:
                    continue
                cl.append({"id": len(meta), "before": src, "after": out, "names": list(names), "calls": True})
                meta.append((k, len(cl) - 1, {"rule": rule, "tree": tree, "src": src, "out": out, "names": list(names)}))
        jobs.append({"dir": str(d), "modules": [], "pool": [], "clients": cl})
    os.chdir(common.VERIF)
    res = run_worker(jobs, base)
    fails, n_exec = [], 0
    for k, ci, rec in meta:
        if ci is None:
            fails.append(dict(rec, diff=["<crash>"]))
            continue
        r = res[k]["clients"][ci]
        n_exec += 1
        if r["before"]["exc"]:
            continue   # the original client does not run: nothing to preserve
        still = loaded_names(rec["out"])
        if still is None:
            fails.append(dict(rec, diff=["<syntax>"]))
            continue
        diff = [n for n in r["diff"] if n.startswith("<") or n in still]
        if "<exception>" not in diff and "<stdout>" in diff and not any(not n.startswith("<") for n in diff):
            # stdout differs but every surviving name is identical: the print itself was rewritten
            if not r["after"]["exc"]:
                diff = [n for n in diff if n != "<stdout>"]
        if diff:
            fails.append(dict(rec, diff=diff, before=r["before"], after=r.get("after")))
    return fails, n_exec
