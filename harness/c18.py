"""C18 -- Import normalisation keeps every referenced name bound to the same object (kernel K11).

Pieces (see design/C18.md):
  * generated package trees (written under .work/), really imported by CPython in a subprocess
    (harness/c18_worker.py) to validate the reference semantics `resolve` of ImportsModel.v;
  * correspondence of tracing.fix_starred_imports / fix_reimported_names (run with cwd = the tree) and of
    the import-statement rules of fixes.py with their Gallina models, on the same inputs;
  * property oracle: the client executed before/after in ONE subprocess, identity of every referenced
    global; used by the failing-input search and by the deterministic sweep;
  * known findings re-run and matched by site + structural predicate (SIGS below)."""
from __future__ import annotations

import ast
import importlib
import itertools
import json
import os
import random
import signal
import subprocess
import sys
from collections import Counter
from pathlib import Path

from . import common
from .common import glist, gbool

PID = "C18"
POOL = ["x", "y", "z", "w", "_u"]
FUEL = 40
WORKER = Path(__file__).with_name("c18_worker.py")

# ---------------------------------------------------------------------------------------------
# trees:  {"mods": [{"name", "init", "all": None|[..], "all_tuple": bool, "all_last": bool, "body": [binding]}]}
# binding: ("def", n) | ("assign", n) | ("from", m, n, a) | ("star", m) | ("import", m, a|None)
# modules are listed in dependency order (a module imports only from modules listed before it)


def mod(name, body, all_=None, init=False, all_tuple=False, all_last=False):
    return {"name": name, "init": init, "all": all_, "all_tuple": all_tuple, "all_last": all_last, "body": body}


def render_binding(b, modname, k=0):
    t = b[0]
    if t == "def":
        return f"class {b[1]}:\n    pass" if (len(modname) + k) % 2 else f"def {b[1]}():\n    pass"
    if t == "assign":
        return f"{b[1]} = [\"@{modname}:{b[1]}\"]"
    if t == "from":
        return f"from {b[1]} import {b[2]}" + (f" as {b[3]}" if b[3] != b[2] else "")
    if t == "star":
        return f"from {b[1]} import *"
    if t == "import":
        return f"import {b[1]}" + (f" as {b[2]}" if b[2] else "")
    raise ValueError(b)


def joined(b):
    """a trailing "+" marks an alias that continues the import statement of the previous binding:
    ("from", m, x, w), ("from", m, y, x, "+")  is  `from m import x as w, y as x`"""
    return b[-1] == "+"


def render_body(body, modname):
    lines, prev = [], None
    for k, b in enumerate(body):
        if joined(b) and prev is not None and prev[0] == b[0] and (b[0] == "import" or (b[0] == "from" and prev[1] == b[1])):
            txt = render_binding(b, modname, k)
            lines[-1] += ", " + txt.split(" import ", 1)[1] if b[0] == "from" else ", " + txt[len("import "):]
        else:
            lines.append(render_binding(b, modname, k))
        prev = b
    return lines


# Conditional top-level statements of library modules: a run of consecutive statements is put inside a compound
# statement whose body IS executed when the module is imported in the generated tree (the other branches are empty
# or fail), so the flat binding list stays the module's meaning while the text exercises how trace_origin walks
# try/except/else/finally, if/else, with, for/while-else and match/case at module level.
def _ind(lines, n=1):
    return "\n".join(" " * 4 * n + l for txt in lines for l in txt.split("\n"))


WRAP_KINDS = {
    "except": lambda b: "try:\n    import _c18_missing_accel\nexcept ImportError:\n" + _ind(b),
    "try": lambda b: "try:\n" + _ind(b) + "\nexcept ImportError:\n    pass",
    "else": lambda b: "try:\n    pass\nexcept ImportError:\n    pass\nelse:\n" + _ind(b),
    "finally": lambda b: "try:\n    pass\nfinally:\n" + _ind(b),
    "if": lambda b: "if True:\n" + _ind(b),
    "ifelse": lambda b: "if 0:\n    pass\nelse:\n" + _ind(b),
    "elif": lambda b: "if 0:\n    pass\nelif 1:\n" + _ind(b),
    "with": lambda b: "with open(__file__):\n" + _ind(b),
    "for": lambda b: "for _c18_i in (0,):\n" + _ind(b),
    "forelse": lambda b: "for _c18_i in ():\n    pass\nelse:\n" + _ind(b),
    "whileelse": lambda b: "while False:\n    pass\nelse:\n" + _ind(b),
    "match": lambda b: "match 1:\n    case 1:\n" + _ind(b, 2),
    "nested": lambda b: "if True:\n    try:\n        import _c18_missing_accel\n    except ImportError:\n" + _ind(b, 2),
}


def apply_wraps(lines, wraps):
    """wraps: non-overlapping (start, end, kind) over the statement list"""
    out, i = [], 0
    for a, b, kind in sorted(wraps):
        if a < i or b > len(lines) or a >= b:
            continue
        out += lines[i:a] + [WRAP_KINDS[kind](lines[a:b])]
        i = b
    return out + lines[i:]


def render_module(m):
    if m.get("raw") is not None:
        return m["raw"]
    lines = apply_wraps(render_body(m["body"], m["name"]), m.get("wrap") or [])
    if m["all"] is not None:
        items = ", ".join(repr(n) for n in m["all"])
        txt = f"__all__ = ({items}{',' if m['all'] else ''})" if m["all_tuple"] else f"__all__ = [{items}]"
        form = m.get("all_form")
        if form and m["all"]:
            # the same list, built up in steps the way real modules do
            first, rest = repr(m["all"][0]), ", ".join(repr(n) for n in m["all"][1:])
            step = {"plus": f"__all__ += [{rest}]", "extend": f"__all__.extend(({rest}{',' if rest else ''}))",
                    "append": "\n".join(f"__all__.append({n!r})" for n in m["all"][1:])}[form]
            txt = f"__all__ = [{first}]" + ("\n" + step if rest else "")
        lines = lines + [txt] if m["all_last"] else [txt] + lines
    return "\n".join(lines) + "\n"


def write_tree(d: Path, tree):
    d.mkdir(parents=True, exist_ok=True)
    for m in tree["mods"]:
        parts = m["name"].split(".")
        p = d.joinpath(*parts, "__init__.py") if m["init"] else d.joinpath(*parts[:-1], parts[-1] + ".py")
        p.parent.mkdir(parents=True, exist_ok=True)
        p.write_text(render_module(m))


# ---- Python mirror of the Gallina reference semantics (used only to GENERATE well-formed inputs and
# to evaluate the structural predicates of known findings; never as an oracle)

def find_mod(tree, name):
    for m in tree["mods"]:
        if m["name"] == name:
            return m
    return None


def bound_name(b):
    t = b[0]
    if t in ("def", "assign"):
        return b[1]
    if t == "from":
        return b[3]
    if t == "import":
        return b[2] or b[1].split(".")[0]
    return None


def exported(m, n):
    return n in m["all"] if m["all"] is not None else not n.startswith("_")


def ref_resolve(tree, mname, n, fuel=FUEL):
    """('obj', m, n) | ('mod', m) | None (unbound) | 'timeout'"""
    if fuel == 0:
        return "timeout"
    m = find_mod(tree, mname)
    if m is None:
        return None
    for b in reversed(m["body"]):
        t = b[0]
        if t in ("def", "assign"):
            if b[1] == n:
                return ("obj", mname, n)
        elif t == "from":
            if b[3] == n:
                return ref_resolve(tree, b[1], b[2], fuel - 1)
        elif t == "import":
            if bound_name(b) == n:
                return ("mod", b[1] if b[2] else b[1].split(".")[0])
        elif t == "star":
            m2 = find_mod(tree, b[1])
            if m2 is not None and exported(m2, n):
                r = ref_resolve(tree, b[1], n, fuel - 1)
                if r is not None:
                    return r
    return None


def tree_loads(tree):
    for m in tree["mods"]:
        for b in m["body"]:
            if b[0] == "from" and not isinstance(ref_resolve(tree, b[1], b[2]), tuple):
                return False
            if b[0] in ("from", "star", "import") and find_mod(tree, b[1]) is None:
                return False
        if m["all"] is not None and not all(isinstance(ref_resolve(tree, m["name"], n), tuple) for n in m["all"]):
            return False
    return True


def namespace(tree, mname, pool):
    return {n: r for n in pool for r in [ref_resolve(tree, mname, n)] if isinstance(r, tuple)}


# ---- ids: ONE id space, order of numbers = order of strings, odd = starts with an underscore

class Ids:
    def __init__(self, strings):
        ss = sorted(set(strings))
        self.of = {s: 2 * r + (1 if s.startswith("_") else 0) for r, s in enumerate(ss)}

    def __call__(self, s):
        return self.of[s]


def tree_strings(tree, clients=()):
    out = set(POOL)
    for m in list(tree["mods"]) + list(clients):
        out.add(m["name"])
        out.add(m["name"].split(".")[0])
        out.update(m["all"] or [])
        for b in m["body"]:
            out.update(s for s in b[1:] if isinstance(s, str) and s != "+")
            if b[0] in ("from", "star", "import"):
                out.add(b[1].split(".")[0])
    return out


def coq_binding(b, ids):
    t = b[0]
    if t == "def":
        return f"Def {ids(b[1])}"
    if t == "assign":
        return f"Assign {ids(b[1])}"
    if t == "from":
        return f"From {ids(b[1])} {ids(b[2])} {ids(b[3])}"
    if t == "star":
        return f"Star {ids(b[1])}"
    if t == "import":
        if b[2]:
            return f"Import {ids(b[1])} {ids(b[2])} false"
        head = b[1].split(".")[0]
        return f"Import {ids(head)} {ids(head)} {gbool('.' in b[1])}"
    raise ValueError(b)


def coq_mod(m, ids):
    al = "None" if m["all"] is None else f"(Some {glist([ids(n) for n in m['all']])})"
    return f"({ids(m['name'])}, MkMod {gbool(m['init'])} {al} {glist([coq_binding(b, ids) for b in m['body']])})"


def coq_graph(mods, ids):
    return glist([coq_mod(m, ids) for m in mods])


def coq_res(r, ids):
    if r is None:
        return "Unbound"
    if r[0] == "obj":
        return f"(Found (TObj {ids(r[1])} {ids(r[2])}))"
    return f"(Found (TMod {ids(r[1])}))"


# ---- clients

def client_source(body, used, modname="client_mod"):
    lines = render_body(body, modname)
    lines.append("(" + ", ".join(used) + ("," if len(used) == 1 else "") + ")" if used else "pass")
    return "\n".join(lines) + "\n"


def parse_client(src):
    """top-level statements of a (rewritten) client as bindings, in order"""
    out = []
    for node in ast.parse(src).body:
        if isinstance(node, ast.ImportFrom):
            if node.level:
                out.append(("relative", "." * node.level + (node.module or "")))
                continue
            for al in node.names:
                out.append(("star", node.module) if al.name == "*" else
                           ("from", node.module, al.name, al.asname or al.name))
        elif isinstance(node, ast.Import):
            for al in node.names:
                out.append(("import", al.name, al.asname))
        elif isinstance(node, (ast.FunctionDef, ast.ClassDef)):
            out.append(("def", node.name))
        elif isinstance(node, ast.Assign) and len(node.targets) == 1 and isinstance(node.targets[0], ast.Name):
            out.append(("assign", node.targets[0].id))
    return out


# ---- running the real rules inside a tree

RULE_TIMEOUT_S = 20


class RuleTimeout(BaseException):
    pass


class Impl:
    hung: set = set()

    def __init__(self, base: Path):
        self.mods = common.import_impl()
        self.base = str(base)
        self.tracing, self.fixes, self.core = self.mods["tracing"], self.mods["fixes"], self.mods["core"]
        self.main = self.mods["main"]

    def enter(self, d: Path):
        os.chdir(d)
        for name, m in list(sys.modules.items()):
            f = getattr(m, "__file__", None) or ""
            p = getattr(m, "__path__", None)
            if f.startswith(self.base) or (p and any(str(x).startswith(self.base) for x in p)):
                del sys.modules[name]
        importlib.invalidate_caches()
        self.tracing.trace_origin.cache_clear()
        self.core.parse.cache_clear()

    def run(self, rule, src):
        f = {"fix_starred_imports": self.tracing.fix_starred_imports,
             "fix_reimported_names": self.tracing.fix_reimported_names,
             "remove_unused_imports": self.fixes.remove_unused_imports,
             "fix_duplicate_imports": self.fixes.fix_duplicate_imports,
             "sort_imports": self.fixes.sort_imports,
             "move_imports_to_toplevel": self.fixes.move_imports_to_toplevel,
             "add_missing_imports": self.fixes.add_missing_imports,
             "format_code": self.main.format_code,
             "_fix_duplicate_from_imports": self.fixes._fix_duplicate_from_imports,
             "_fix_duplicate_regular_imports": self.fixes._fix_duplicate_regular_imports,
             "_breakout_stacked_imports": self.fixes._breakout_stacked_imports,
             "_sort_import_statements": self.fixes._sort_import_statements,
             "_fix_imported_as_self_or_unsorted": self.fixes._fix_imported_as_self_or_unsorted}[rule]
        # a rule that does not come back (a mutant's endless loop) is reported like a crash; once a rule has
        # timed out it is not called again in this run
        if rule in self.hung:
            return ("crash", "Timeout")

        def _alarm(signum, frame):
            raise RuleTimeout()

        # CPU time of this process, not wall time: a loaded machine must not look like a hang
        old = signal.signal(signal.SIGPROF, _alarm)
        signal.setitimer(signal.ITIMER_PROF, RULE_TIMEOUT_S)
        try:
            with common.quiet():
                return f(src)
        except RuleTimeout:
            self.hung.add(rule)
            return ("crash", "Timeout")
        except RecursionError:
            return ("crash", "RecursionError")
        except Exception as e:  # noqa
            return ("crash", type(e).__name__ + ": " + str(e)[:100])
        finally:
            signal.setitimer(signal.ITIMER_PROF, 0)
            signal.signal(signal.SIGPROF, old)


def run_worker(jobs, base: Path, timeout=600):
    env = dict(os.environ, PYTHONDONTWRITEBYTECODE="1", PYTHONPATH="")
    r = subprocess.run([sys.executable, "-S", str(WORKER)], input=json.dumps({"jobs": jobs, "base": str(base)}),
                       capture_output=True, text=True, timeout=timeout, env=env, cwd=str(base))
    if r.returncode != 0:
        raise RuntimeError("c18 worker failed: " + r.stderr[-2000:])
    return json.loads(r.stdout)["results"]


# ---------------------------------------------------------------------------------------------
# generators

def small_scope_trees():
    """exhaustive family: 4 variants of ma x 18 variants of mb (those that load) + mb with conditional statements"""
    mas = [
        mod("ma", [("assign", "x"), ("assign", "y")]),
        mod("ma", [("assign", "x"), ("def", "y"), ("assign", "_u")]),
        mod("ma", [("assign", "x"), ("assign", "y"), ("assign", "_u")], all_=["x", "_u"]),
        mod("ma", [("def", "x"), ("assign", "y")], all_=["y"], all_tuple=True, all_last=True),
    ]
    mbs = [
        [("from", "ma", "x", "x")],
        [("from", "ma", "x", "y")],
        [("star", "ma")],
        [("assign", "x"), ("star", "ma")],
        [("star", "ma"), ("assign", "x")],
        [("import", "ma", "x")],
        [("import", "ma", None), ("assign", "y")],
        [("from", "ma", "x", "x"), ("from", "ma", "y", "y"), "ALL:x"],
        [("star", "ma"), ("assign", "w"), "ALL:w,x"],
        [("from", "ma", "y", "x"), ("assign", "y")],
        [("assign", "z"), ("from", "ma", "x", "w"), ("star", "ma")],
        # several aliases in ONE statement; a name renamed away before another name is aliased to it
        [("from", "ma", "x", "w"), ("from", "ma", "y", "x", "+")],          # from ma import x as w, y as x
        [("from", "ma", "y", "x"), ("from", "ma", "x", "w", "+")],          # from ma import y as x, x as w
        [("import", "ma", "w"), ("import", "mz", "ma", "+")],               # import ma as w, mz as ma
        [("import", "mz", "ma"), ("import", "ma", "w", "+")],               # import mz as ma, ma as w
        [("from", "ma", "x", "y"), ("from", "ma", "y", "z", "+"), ("from", "ma", "x", "x", "+"), ("assign", "w")],
        # ONE statement binds a name twice: the last alias wins
        [("from", "ma", "x", "w"), ("from", "ma", "y", "w", "+")],          # from ma import x as w, y as w
        [("import", "ma", "w"), ("import", "mz", "w", "+")],                # import ma as w, mz as w
    ]
    mz = mod("mz", [("assign", "x"), ("assign", "y")])
    out = []
    for a, bdef in itertools.product(mas, mbs):
        al = [s for s in bdef if isinstance(s, str)]
        body = [s for s in bdef if not isinstance(s, str)]
        b = mod("mb", body, all_=al[0][4:].split(",") if al else None)
        t = {"mods": [a, mz, b]}
        if tree_loads(t):
            out.append(t)
    # conditional top-level statements in mb: the whole body / its tail inside every kind of compound statement
    b1 = [("star", "ma"), ("assign", "w")]
    b2 = [("from", "ma", "x", "x"), ("from", "ma", "y", "z", "+"), ("import", "ma", "q"), ("def", "w")]
    b3 = [("assign", "x"), ("from", "ma", "y", "x"), ("assign", "z")]
    for kind in WRAP_KINDS:
        for a in (mas[0], mas[2]):
            out.append({"mods": [a, mz, dict(mod("mb", b1), wrap=[(0, 2, kind)])]})
        if kind in ("except", "match", "else", "with", "nested"):
            out.append({"mods": [mas[0], mz, dict(mod("mb", b2), wrap=[(0, 3, kind)])]})
        if kind in ("except", "match", "finally"):
            out.append({"mods": [mas[0], mz, dict(mod("mb", b3), wrap=[(1, 2, kind)])]})
    return [t for t in out if tree_loads(t)]


SMALL_CLIENTS = [
    [("star", "mb")],
    [("star", "ma"), ("star", "mb")],
    [("star", "mb"), ("star", "ma")],
    [("from", "mb", "x", "x")],
    [("from", "mb", "x", "z")],
    [("from", "mb", "y", "y")],
    [("from", "mb", "x", "x"), ("from", "mb", "y", "y")],
    [("from", "ma", "x", "x"), ("star", "mb")],
    [("star", "mb"), ("from", "ma", "x", "x")],
    [("assign", "x"), ("star", "mb")],
    [("from", "mb", "ma", "ma")],
    [("import", "mb", None), ("from", "mb", "x", "x")],
    [("from", "mb", "w", "w"), ("from", "ma", "y", "w")],
    [("from", "mb", "x", "q"), ("from", "mb", "x", "x"), ("def", "y")],
    [("from", "mb", "x", "x"), ("from", "mb", "w", "w", "+")],              # from mb import x, w
    [("from", "mb", "ma", "ma"), ("from", "mb", "w", "q", "+")],            # from mb import ma, w as q
    [("from", "mb", "w", "w")],
    # the client's own __all__ is irrelevant for what ITS star imports bind (trace_origin flag __all__=False)
    [("assign", "__all__"), ("star", "mb")],
    [("assign", "__all__"), ("star", "ma"), ("from", "mb", "x", "x")],
]


NAMES = POOL + ["q", "ma", "mb", "mc", "pk"]     # names looked at in namespaces (module names can be aliases)


def swap_pair(rnd, tree, cand):
    """one import statement that renames a name away and aliases another one to it:
    `from m import n1 as a, n2 as n1`  /  `import m1 as a, m2 as m1` (either order)"""
    if rnd.random() < 0.6:
        m2 = rnd.choice(cand)
        ns = sorted(namespace(tree, m2, POOL))
        if len(ns) < 2:
            return []
        n1, n2 = rnd.sample(ns, 2)
        a = rnd.choice([p for p in POOL + ["q"] if p != n1])
        pair = [("from", m2, n1, a), ("from", m2, n2, n1 if rnd.random() < 0.7 else a)]   # .. or `n1 as a, n2 as a`
    else:
        plain = [c for c in cand if "." not in c]
        if not plain or len(cand) < 2:
            return []
        m1 = rnd.choice(plain)
        m2 = rnd.choice([c for c in cand if c != m1])
        a = rnd.choice([p for p in POOL + ["q"] if p != m1])
        pair = [("import", m1, a), ("import", m2, m1 if rnd.random() < 0.7 else a)]
    if rnd.random() < 0.5:
        pair.reverse()
    return [pair[0], pair[1] + ("+",)]


def join_pass(rnd, body, allow_dup=False):
    """join consecutive compatible import bindings into one statement.  In library modules a statement may bind
    one name twice (the last alias wins, in Python and -- since the F18-12 repair -- in the redirect); client
    statements keep distinct bound names (the statement rules re-sort aliases: T18.2 guard `coherent`)."""
    out, group = [], set()
    for b in body:
        prev = out[-1] if out else None
        ok = prev is not None and prev[0] == b[0] and (b[0] == "import" or (b[0] == "from" and prev[1] == b[1]))
        fresh = allow_dup or bound_name(b) not in group
        if joined(b):
            if not (ok and fresh):
                b = b[:-1]
        elif ok and fresh and rnd.random() < 0.4:
            b = b + ("+",)
        if joined(b):
            group.add(bound_name(b))
        else:
            group = {bound_name(b)}
        out.append(b)
    return out


def random_tree(rnd):
    order = ["ma", "mb", "pk.s1", "pk.s2", "pk", "mc"]
    chosen = [n for n in order if n in ("ma",) or rnd.random() < 0.75]
    if any(n.startswith("pk.") for n in chosen) and "pk" not in chosen:
        chosen.insert(max(i for i, n in enumerate(chosen) if n.startswith("pk.")) + 1, "pk")
    tree = {"mods": []}
    for name in chosen:
        earlier = [m["name"] for m in tree["mods"]]
        body = []
        for _ in range(rnd.randint(1, 4)):
            r = rnd.random()
            cand = [e for e in earlier if not (name.startswith("pk.") and e == "pk")]
            if r < 0.3 or not cand:
                body.append((rnd.choice(["def", "assign"]), rnd.choice(POOL)))
            elif r < 0.6:
                m2 = rnd.choice(cand)
                ns = sorted(namespace(tree, m2, POOL))
                if ns:
                    n = rnd.choice(ns)
                    body.append(("from", m2, n, n if rnd.random() < 0.6 else rnd.choice(POOL)))
            elif r < 0.85:
                body.append(("star", rnd.choice(cand)))
            else:
                m2 = rnd.choice(cand)
                body.append(("import", m2, rnd.choice(POOL) if rnd.random() < 0.5 else None))
        if cand and rnd.random() < 0.3:
            body += swap_pair(rnd, tree, cand)
        if not body:
            body = [("assign", rnd.choice(POOL))]
        body = join_pass(rnd, body, allow_dup=True)
        m = mod(name, body, init=(name == "pk"))
        if rnd.random() < 0.45:
            n_st = len(render_body(body, name))
            a = rnd.randrange(n_st)
            m["wrap"] = [(a, rnd.randint(a + 1, n_st), rnd.choice(sorted(WRAP_KINDS)))]
        tree["mods"].append(m)
        if rnd.random() < 0.3:
            ns = sorted(namespace(tree, name, POOL))
            if ns:
                m["all"] = sorted(rnd.sample(ns, rnd.randint(1, len(ns))))
                m["all_tuple"], m["all_last"] = rnd.random() < 0.4, rnd.random() < 0.5
                m["all_form"] = rnd.choice([None, None, "plus", "extend", "append"])
    return tree if tree_loads(tree) else None


def random_client(rnd, tree):
    names = [m["name"] for m in tree["mods"]]
    body = []
    for _ in range(rnd.randint(1, 4)):
        r = rnd.random()
        m2 = rnd.choice(names)
        if r < 0.45:
            ns = sorted(namespace(tree, m2, NAMES))
            if ns:
                n = rnd.choice(ns)
                body.append(("from", m2, n, n if rnd.random() < 0.6 else rnd.choice(POOL + ["q"])))
        elif r < 0.75:
            body.append(("star", m2))
        elif r < 0.9:
            body.append(("import", m2, rnd.choice(["q", "w", None, None])))
        else:
            body.append((rnd.choice(["def", "assign"]), rnd.choice(POOL)))
    return join_pass(rnd, body) or [("star", names[0])]


# ---- statement lists for the fixes.py rules
STMT_MODS = ["ma", "mb", "os", "os.path", "json", "pk.s1", "xml.dom.minidom", "collections.abc"]
SMALL_STMTS = [
    ("from", "ma", [("x", None)]), ("from", "ma", [("y", None)]), ("from", "mb", [("x", None)]),
    ("from", "ma", [("x", "y")]), ("from", "ma", [("y", None), ("x", None)]),
    ("import", [("ma", None)]), ("import", [("mb", "ma")]), ("import", [("os", None)]),
    ("import", [("mb", None), ("ma", None)]), ("import", [("os.path", None)]),
    ("import", [("ma", "ma")]),                                   # `import ma as ma`
    ("import", [("os", None), ("ma", "x"), ("ma", "q"), ("ma", None)]),   # loses `os` after `import os`: rest re-sorted
    # fixes._import_order_matters (cc67280 / 95f12ea): two aliases of ONE statement bind q (unsorted, so a sort would show)
    ("from", "ma", [("y", "q"), ("x", "q")]), ("import", [("mb", "q"), ("ma", "q")]),
]
# star imports: only the sort rules see them here (the models of the other rules have no star import; those rules
# meet star imports in the tree cases and in the sweep)
STAR_STMTS = [("from", "mb", [("*", None)]), ("from", "ma", [("*", None)])]
SORT_RIDS = ("RSort", "RSortAliases", "RSortAll")
# all triples over four statements that (re)bind x: duplicate detection must follow the CURRENT binding
TRIPLE_STMTS = [("import", [("ma", "x")]), ("from", "mb", [("x", None)]), ("import", [("ma", None)]),
                ("import", [("mb", "x")])]


def stmt_text(s):
    if s[0] == "from":
        return f"from {s[1]} import " + ", ".join(n + (f" as {a}" if a else "") for n, a in s[2])
    return "import " + ", ".join(n + (f" as {a}" if a else "") for n, a in s[1])


def stmt_bound(s):
    if s[0] == "from":
        return [a or n for n, a in s[2] if n != "*"]
    return [a or n.split(".")[0] for n, a in s[1]]


def stmts_source(stmts, used):
    return "\n".join(stmt_text(s) for s in stmts) + "\n(" + ", ".join(used) + ("," if len(used) == 1 else "") + ")\n" \
        if used else "\n".join(stmt_text(s) for s in stmts) + "\npass\n"


def parse_stmts(src):
    out = []
    for node in ast.parse(src).body:
        if isinstance(node, ast.ImportFrom):
            out.append(("from", "." * node.level + (node.module or ""), [(a.name, a.asname) for a in node.names]))
        elif isinstance(node, ast.Import):
            out.append(("import", [(a.name, a.asname) for a in node.names]))
    return out


def is_std(stdlib, s):
    if s[0] == "from":
        return s[1].split(".")[0] in stdlib
    return {n.split(".")[0] for n, _ in s[1]} <= stdlib


def coq_stmt(s, ids, stdlib):
    std = gbool(is_std(stdlib, s))
    opt = lambda a: "None" if a is None else f"(Some {ids(a)})"  # noqa
    if s[0] == "from":
        return f"SFrom {std} {ids(s[1])} {glist([f'({ids(n)}, {opt(a)})' for n, a in s[2]])}"
    return "SImport " + glist([f"({ids(n)}, {opt(a)}, {ids(n.split('.')[0])}, {gbool(n.split('.')[0] in stdlib)})"
                               for n, a in s[1]])


def has_star_stmt(stmts):
    return any(s[0] == "from" and any(n == "*" for n, _ in s[2]) for s in stmts)


def stmts_strings(*lists):
    out = {"*"}        # always rank 0: ImportsModel.STAR = 0 ("*" sorts before every identifier / dotted name)
    for l in lists:
        for s in l:
            if s[0] == "from":
                out.add(s[1])
                for n, a in s[2]:
                    out.update([n] + ([a] if a else []))
            else:
                for n, a in s[1]:
                    out.update([n, n.split(".")[0]] + ([a] if a else []))
    return out


def random_stmts(rnd, stars=False):
    out = []
    names = ["x", "y", "z", "_u", "w"]
    for _ in range(rnd.randint(1, 5)):
        if stars and rnd.random() < 0.2:
            out.append(("from", rnd.choice(["ma", "mb", "os.path", "pk.s1"]), [("*", None)]))
        elif rnd.random() < 0.55:
            m = rnd.choice(STMT_MODS)
            als = [(rnd.choice(names), rnd.choice([None, None, None, "x", "q", "y"])) for _ in range(rnd.randint(1, 3))]
            out.append(("from", m, [(n, a) for n, a in als]))
        else:
            als = [(rnd.choice(STMT_MODS), rnd.choice([None, None, "q", "ma", "x", "os"]))
                   for _ in range(rnd.choice([1, 1, 2, 3]))]
            out.append(("import", als))
    return out


RULES = [("remove_unused_imports", "RUnused", True), ("_fix_duplicate_from_imports", "RDupFrom", True),
         ("_fix_duplicate_regular_imports", "RDupRegular", True), ("_breakout_stacked_imports", "RBreakout", False),
         ("_sort_import_statements", "RSort", True), ("_fix_imported_as_self_or_unsorted", "RSortAliases", True),
         ("fix_duplicate_imports", "RDupAll", False), ("sort_imports", "RSortAll", True)]


def attr_as_self_import(stmts):
    """`import p.q as q`: _fix_imported_attr_as_self turns it into `from p import q` (needs the structure of dotted
    names: outside the model; covered by the sweep witness attr-as-self)"""
    return any(s[0] == "import" and any(a and "." in n and n.split(".")[-1] == a for n, a in s[1]) for s in stmts)

HEADER = ("From Coq Require Import List Arith Bool.\nImport ListNotations.\n"
          "Require Import Pyrefact.Base Pyrefact.ImportsModel.\n")


def parse_all_nat_lists(out):
    import re
    return [[int(x) for x in re.findall(r"\d+", m)] for m in
            re.findall(r"=\s*(\[[^\]]*\]|nil)\s*:\s*list nat", out, flags=re.S)]


# ---------------------------------------------------------------------------------------------
# building the cases of one tree

def client_mod(i, body):
    return mod(f"zz_client_{i}", body)


def tree_case_text(k, tree, clients, useds, impl_out, cpython, stdlib):  # noqa: C901
    """Coq text for tree k: graph, resolve-vs-CPython cases, starred and reimported cases.
    returns (text, [labels of the Eval blocks in order with their case lists])"""
    cmods = [client_mod(i, b) for i, b in enumerate(clients)]
    ids = Ids(tree_strings(tree, cmods) | set(NAMES))
    blocks = []
    txt = [f"Definition g{k} : graph := {coq_graph(tree['mods'], ids)}.",
           f"Definition gc{k} : graph := g{k} ++ {coq_graph(cmods, ids)}."]
    # resolve vs CPython
    rc, rlabels = [], []
    for m in tree["mods"]:
        ns = cpython["namespaces"].get(m["name"], {})
        if "__error__" in ns:
            rlabels.append(("module-error", m["name"], ns)); rc.append(f"({ids(m['name'])}, 0, Timeout)")
            continue
        for n in NAMES:
            got = tuple(ns[n]) if n in ns else None
            rc.append(f"({ids(m['name'])}, {ids(n)}, {coq_res(got, ids)})")
            rlabels.append(("resolve", m["name"], n, got))
    for i, (cm, used) in enumerate(zip(cmods, useds)):
        cres = cpython["clients"][i]["before"]
        if cres["exc"] and not cres["exc"].startswith("NameError"):
            continue  # the client does not load (ImportError): outside the reference semantics
        for n in used:
            v = cres["vals"].get(n)
            got = None if v in (None, ["missing"]) else tuple(v)
            if got and (got[0] == "other" or (got[0] == "obj" and got[1] == "client_mod")):
                got = ("obj", cm["name"], n) if got[0] == "obj" else got
            if got and got[0] == "other":
                continue
            rc.append(f"({ids(cm['name'])}, {ids(n)}, {coq_res(got, ids)})")
            rlabels.append(("resolve-client", client_source(cm["body"], used), n, got))
    txt.append(f"Eval vm_compute in (bad_idx (resolve_case_ok {FUEL} gc{k}) {glist(rc)}).")
    blocks.append(rlabels)
    for rule, checker in (("fix_starred_imports", f"starred_case_ok {FUEL} g{k}"),
                          ("fix_reimported_names", f"reimported_case_ok {FUEL} {glist([ids(s) for s in ids.of if s in stdlib])} g{k}")):
        cs, labels = [], []
        if rule == "fix_reimported_names" and any(m.get("wrap") for m in tree["mods"]):
            # since the round-4 repair a re-import is not redirected through an import inside a compound statement
            # (which branch runs is unknown to the tool); the flat model has no such notion: sweep only
            txt.append("Eval vm_compute in (bad_idx (fun _ : nat => true) []).")
            blocks.append([])
            continue
        for i, (body, used) in enumerate(zip(clients, useds)):
            out = impl_out[rule][i]
            src = client_source(body, used)
            if isinstance(out, tuple):
                labels.append((rule, "crash", src, out, tree)); cs.append("([], [], [Def 0])")
                continue
            try:
                ob = parse_client(out)
                enc = glist([coq_binding(b, ids) for b in ob])
            except Exception as e:  # noqa
                labels.append((rule, "unparsable-output", src, out, tree)); cs.append("([], [], [Def 0])")
                continue
            names = sorted({bound_name(b) for b in body if bound_name(b)} | set(used))
            cs.append(f"({glist([coq_binding(b, ids) for b in body])}, {glist([ids(n) for n in (used if rule == 'fix_starred_imports' else names)])}, {enc})")
            labels.append((rule, "case", src, out, tree))
        txt.append(f"Eval vm_compute in (bad_idx ({checker}) {glist(cs)}).")
        blocks.append(labels)
    return "\n".join(txt) + "\n", blocks


def run_tree_batch(impl, wd: Path, batch, tag, stdlib):
    """batch: list of (tree, clients, useds).  Writes trees, runs the real rules and CPython, builds
    Coq case files.  Returns (files, blocks_per_file, stats, oracle_records)"""
    base = wd / "trees"
    jobs, impl_outs = [], []
    for k, (tree, clients, useds) in enumerate(batch):
        d = base / f"{tag}{k}"
        write_tree(d, tree)
        impl.enter(d)
        outs = {"fix_starred_imports": [], "fix_reimported_names": []}
        cl = []
        for i, (body, used) in enumerate(zip(clients, useds)):
            src = client_source(body, used)
            for rule in outs:
                outs[rule].append(impl.run(rule, src))
            cl.append({"id": i, "before": src, "after": None, "names": list(used)})
        impl_outs.append(outs)
        jobs.append({"dir": str(d), "modules": [m["name"] for m in tree["mods"]], "pool": NAMES, "clients": cl})
    os.chdir(common.VERIF)
    cp = run_worker(jobs, base)
    files, blocks = [], []
    PER = 12
    for f0 in range(0, len(batch), PER):
        texts, bl = [HEADER], []
        for k in range(f0, min(f0 + PER, len(batch))):
            tree, clients, useds = batch[k]
            t, b = tree_case_text(k, tree, clients, useds, impl_outs[k], cp[k], stdlib)
            texts.append(t)
            bl.extend(b)
        p = wd / f"tree_{tag}_{f0 // PER}.v"
        p.write_text("\n".join(texts))
        files.append(p)
        blocks.append(bl)
    return files, blocks, impl_outs, cp


def collect(results, files, blocks):
    """disagreements: list of labels"""
    dis = []
    for p, bl in zip(files, blocks):
        rc, out = results[p]
        lists = parse_all_nat_lists(out) if rc == 0 else None
        if lists is None or len(lists) != len(bl):
            dis.append(("eval-failed", p.name, out[-1500:]))
            continue
        for idx, labels in zip(lists, bl):
            for i in idx:
                dis.append(labels[i])
    return dis


# ---------------------------------------------------------------------------------------------
# statement-rule cases

def stmt_rule_cases(impl, lists_useds, stdlib):
    """[(stmts, used)] -> (coq case strings, labels)"""
    cs, labels = [], []
    for stmts, used in lists_useds:
        src = stmts_source(stmts, used)
        star = has_star_stmt(stmts)
        for rule, rid, ordered in RULES:
            if rid == "RDupAll" and attr_as_self_import(stmts):
                continue
            if star and rid not in SORT_RIDS:
                continue
            out = impl.run(rule, src)
            if isinstance(out, tuple):
                labels.append((rule, "crash", src, out)); cs.append("(RSort, true, [], [], [SImport []])")
                continue
            try:
                ostm = parse_stmts(out)
            except SyntaxError:
                labels.append((rule, "unparsable-output", src, out)); cs.append("(RSort, true, [], [], [SImport []])")
                continue
            ids = Ids(stmts_strings(stmts, ostm) | set(used))
            enc = lambda l: glist([coq_stmt(s, ids, stdlib) for s in l])  # noqa
            cs.append(f"({rid}, {gbool(ordered)}, {glist([ids(u) for u in used])}, {enc(stmts)}, {enc(ostm)})")
            labels.append((rule, "case", src, out))
    return cs, labels


def small_stmt_lists(maxlen):
    out = [list(c) for c in itertools.product(TRIPLE_STMTS, repeat=3)]
    for n in range(1, maxlen + 1):
        for combo in itertools.product(SMALL_STMTS, repeat=n):
            out.append(list(combo))
    # runs with a star import (sort rules only): a star import next to / between every other statement form
    for st in STAR_STMTS:
        out.append([st])
        for s in SMALL_STMTS + STAR_STMTS:
            out += [[st, s], [s, st]] if s != st else [[st, s]]
    for a, b in itertools.product(SMALL_STMTS[:4] + SMALL_STMTS[5:8], repeat=2):
        out += [[a, STAR_STMTS[0], b]]
    return out


def useds_for(stmts, rnd=None):
    bound = sorted({b for s in stmts for b in stmt_bound(s)})
    if rnd is None:
        if len(stmts) > 1:
            return [bound, bound[1:]] if len(bound) > 1 else [bound, []]
        return [bound, bound[:1], bound[1:]] if len(bound) > 1 else [bound, []]
    k = rnd.randint(0, len(bound))
    return [sorted(rnd.sample(bound, k))]


def stmt_case_files(wd, cs, labels, tag):
    files, blocks = [], []
    SH = 400
    for k in range(0, len(cs), SH):
        p = wd / f"stmts_{tag}_{k // SH}.v"
        p.write_text(HEADER + "Definition cases : list (rule_id * bool * list name * list stmt * list stmt) := [\n "
                     + ";\n ".join(cs[k:k + SH]) + "\n].\nEval vm_compute in (bad_idx stmts_case_ok cases).\n")
        files.append(p)
        blocks.append([labels[k:k + SH]])
    return files, blocks


# ---------------------------------------------------------------------------------------------
# property oracle: execute before/after, identity of every referenced global

SWEEP_RULES = ["fix_starred_imports", "fix_reimported_names", "remove_unused_imports", "fix_duplicate_imports",
               "sort_imports", "move_imports_to_toplevel", "add_missing_imports", "format_code"]
STAGES = ["add_missing_imports", "fix_starred_imports", "fix_reimported_names", "move_imports_to_toplevel",
          "fix_duplicate_imports", "add_missing_imports", "remove_unused_imports", "sort_imports"]


def sweep_source(body, used):
    lines = render_body(body, "client_mod")
    lines.append("print(" + ", ".join(used) + ")")
    return "\n".join(lines) + "\n"


def loaded_names(src):
    try:
        return {n.id for n in ast.walk(ast.parse(src)) if isinstance(n, ast.Name) and isinstance(n.ctx, ast.Load)}
    except SyntaxError:
        return None


def oracle_batch(impl, wd: Path, items, tag):
    """items: [(tree, [(src, names, rules)])].  Runs every rule on every client inside its tree and executes
    before/after.  Returns failure records {rule, tree, src, out, names, diff, before, after}."""
    base = wd / "trees"
    jobs, meta = [], []
    for k, (tree, clients) in enumerate(items):
        d = base / f"{tag}{k}"
        write_tree(d, tree)
        impl.enter(d)
        cl = []
        for src, names, rules in clients:
            for rule in rules:
                out = impl.run(rule, src)
                if isinstance(out, tuple):
                    meta.append((k, None, {"rule": rule, "tree": tree, "src": src, "out": None, "crash": out[1],
                                           "dir": str(d), "names": list(names)}))
                    continue
                if out == src:
                    continue
                cl.append({"id": len(meta), "before": src, "after": out, "names": list(names), "calls": True})
                meta.append((k, len(cl) - 1, {"rule": rule, "tree": tree, "src": src, "out": out, "names": list(names),
                                              "dir": str(d)}))
        jobs.append({"dir": str(d), "modules": [], "pool": [], "clients": cl})
    os.chdir(common.VERIF)
    res = run_worker(jobs, base)
    fails, n_exec = [], 0
    for k, ci, rec in meta:
        if ci is None:
            fails.append(dict(rec, diff=["<crash>"]))
            continue
        r = res[k]["clients"][ci]
        n_exec += 1
        if r["before"]["exc"]:
            continue   # the original client does not run: nothing to preserve
        still = loaded_names(rec["out"])
        if still is None:
            fails.append(dict(rec, diff=["<syntax>"]))
            continue
        diff = [n for n in r["diff"] if n.startswith("<") or n in still]
        if diff:
            fails.append(dict(rec, diff=diff, before=r["before"], after=r.get("after")))
    return fails, n_exec


# ---------------------------------------------------------------------------------------------
# known findings: site + structural predicate on a failing record {rule, tree, src, out, diff}

SITE = {"fix_starred_imports": "tracing.fix_starred_imports", "fix_reimported_names": "tracing.fix_reimported_names",
        "remove_unused_imports": "fixes.remove_unused_imports", "fix_duplicate_imports": "fixes.fix_duplicate_imports",
        "sort_imports": "fixes.sort_imports", "move_imports_to_toplevel": "fixes.move_imports_to_toplevel",
        "add_missing_imports": "fixes.add_missing_imports", "format_code": "main.format_code",
        "_fix_duplicate_from_imports": "fixes.fix_duplicate_imports",
        "_fix_duplicate_regular_imports": "fixes.fix_duplicate_imports",
        "_breakout_stacked_imports": "fixes.fix_duplicate_imports",
        "_sort_import_statements": "fixes.sort_imports", "_fix_imported_as_self_or_unsorted": "fixes.sort_imports"}


def _toplevel_binders(tree, src, n):
    """top-level statements of the client that (re)bind n: explicit aliases, defs, assignments, and star
    imports whose module exports n (reference semantics on the generated tree)"""
    out = []
    for i, node in enumerate(ast.parse(src).body):
        if isinstance(node, ast.ImportFrom):
            for al in node.names:
                if al.name == "*":
                    m = find_mod(tree, node.module or "")
                    if m is not None and m.get("raw") is None and exported(m, n) and \
                            isinstance(ref_resolve(tree, node.module, n), tuple):
                        out.append(i)
                elif (al.asname or al.name) == n:
                    out.append(i)
        elif isinstance(node, ast.Import):
            if any((al.asname or al.name.split(".")[0]) == n for al in node.names):
                out.append(i)
        elif isinstance(node, (ast.FunctionDef, ast.ClassDef)) and node.name == n:
            out.append(i)
        elif isinstance(node, ast.Assign) and any(isinstance(t, ast.Name) and t.id == n for t in node.targets):
            out.append(i)
    return out


def sig_same_name_rebound(c, n):
    """the changed name n is bound by two or more top-level statements of the input"""
    return n is not None and len(_toplevel_binders(c["tree"], c["src"], n)) >= 2


def sig_dotted_import_head(c, n):
    """the changed name n is the head of an un-aliased dotted import in a module of the tree"""
    heads = {b[1].split(".")[0] for m in c["tree"]["mods"] if m.get("raw") is None for b in m["body"]
             if b[0] == "import" and b[2] is None and "." in b[1]}
    return n in heads


def _nested_stores(src):
    out = set()
    for node in ast.walk(ast.parse(src)):
        if isinstance(node, (ast.FunctionDef, ast.AsyncFunctionDef, ast.ClassDef, ast.Lambda)):
            for sub in ast.walk(node):
                if sub is not node and isinstance(sub, ast.Name) and isinstance(sub.ctx, ast.Store):
                    out.add(sub.id)
                if sub is not node and isinstance(sub, (ast.Import, ast.ImportFrom)):
                    out.update(al.asname or al.name.split(".")[0] for al in sub.names)
    return out


def sig_nested_scope_binding(c, n):
    """the changed name n is also assigned inside a function/class body of the client"""
    return n in _nested_stores(c["src"])


def sig_relative_import_chain(c, n):
    """the client imports from a module of the tree that uses a relative import"""
    rel = {m["name"] for m in c["tree"]["mods"] if m.get("raw") is not None and
           any(isinstance(x, ast.ImportFrom) and x.level for x in ast.walk(ast.parse(m["raw"])))}
    used = {x.module for x in ast.walk(ast.parse(c["src"])) if isinstance(x, ast.ImportFrom)}
    return bool(rel & used)


def sig_local_import_made_global(c, n):
    """an import inside a function binds a name that the module also binds at top level"""
    tree = ast.parse(c["src"])
    top = set()
    for node in tree.body:
        if isinstance(node, ast.Assign):
            top.update(t.id for t in node.targets if isinstance(t, ast.Name))
        elif isinstance(node, (ast.FunctionDef, ast.ClassDef)):
            top.add(node.name)
    inner = {al.asname or al.name.split(".")[0] for f in ast.walk(tree) if isinstance(f, ast.FunctionDef)
             for x in ast.walk(f) if isinstance(x, (ast.Import, ast.ImportFrom)) for al in x.names}
    return bool(top & inner) and (n is None or n in top & inner)


def sig_guess_preempts_star(c, n):
    """the changed name n is provided by a star import and add_missing_imports has a guess for it"""
    has_star = any(isinstance(x, ast.ImportFrom) and any(a.name == "*" for a in x.names)
                   for x in ast.parse(c["src"]).body)
    return has_star and n in GUESSABLE


def sig_renamed_rebound_variable(c, n):
    """a module-level variable of the client that an import rebinds afterwards was renamed by the pipeline
    (its old name is no longer referenced in the output)"""
    still = loaded_names(c["out"]) or set()
    for node in ast.parse(c["src"]).body:
        if isinstance(node, ast.Assign):
            for t in node.targets:
                if isinstance(t, ast.Name) and t.id not in still and len(_toplevel_binders(c["tree"], c["src"], t.id)) >= 2:
                    return n is None or n == t.id
    return False


GUESSABLE: set = set()   # filled in check() from constants.ASSUMED_SOURCES / ASSUMED_PACKAGES / PACKAGE_ALIASES

SIGS = {"same_name_rebound": sig_same_name_rebound, "dotted_import_head": sig_dotted_import_head,
        "nested_scope_binding": sig_nested_scope_binding, "relative_import_chain": sig_relative_import_chain,
        "local_import_made_global": sig_local_import_made_global, "guess_preempts_star": sig_guess_preempts_star}
IMPORT_SITES = set(SITE.values())


def match_hunt(findings, case):
    """a failure of a hunt-corpus item (a fixed input) is matched by the finding that names the item"""
    for f in findings:
        if f.kind == "finding" and case.get("hunt") and case["hunt"].startswith(f.fields.get("hunt", "\0")):
            return [f]
    return None


def match_finding(findings, sites, case):
    """Every changed name must be explained by a listed finding whose site is in `sites` and whose structural
    predicate holds for that name (a record without changed names -- only output/exception differ -- needs one
    finding whose predicate holds for the case as a whole).  Returns the list of findings used, or None."""
    names = [n for n in case["diff"] if not n.startswith("<")] or [None]
    used = []
    for n in names:
        hit = None
        for f in findings:
            if f.kind != "finding" or f.fields.get("site") not in sites:
                continue
            pred = SIGS.get(f.fields.get("sig", ""))
            try:
                if pred and pred(case, n):
                    hit = f
                    break
            except Exception:  # a predicate that cannot be evaluated never suppresses
                continue
        if hit is None:
            return None
        used.append(hit)
    return used


# ---------------------------------------------------------------------------------------------
# fixed end-to-end witnesses (deterministic sweep, part 3): a hand-written tree with the layouts the
# generator does not produce (relative imports, nested scopes, guessed names) + dotted stdlib modules

def special_tree():
    return {"mods": [
        mod("ma", [("assign", "x"), ("assign", "y"), ("assign", "Path"), ("assign", "_u")]),
        mod("mb", [("assign", "x"), ("assign", "q")], all_=["q"], all_tuple=True),
        {"name": "pkr.low", "init": False, "all": None, "body": [],
         "raw": "__all__ = ['f', 'k']\ndef f():\n    pass\nk = ['@pkr.low:k']\nz = ['@pkr.low:z']\n"},
        {"name": "pkr.mid", "init": False, "all": None, "body": [], "raw": "from .low import f\nh = ['@pkr.mid:h']\n"},
        {"name": "pkr", "init": True, "all": None, "body": [], "raw": "from .low import *\nfrom .mid import h\n"},
        mod("mc", [("import", "pkr.low", None), ("from", "ma", "x", "xx"), ("assign", "w")]),
        # the seeded regression C18-a: a name renamed away before another one is aliased to it, in ONE statement
        mod("msw", [("from", "ma", "x", "w"), ("from", "ma", "y", "x", "+"),
                    ("import", "ma", "first"), ("import", "mb", "ma", "+")]),
        # one statement binds v twice: Python keeps the last alias (F18-12, repaired)
        {"name": "mtw", "init": False, "all": None, "body": [], "raw": "from ma import x as v, y as v\n"},
        # optional accelerator with a pure-Python fallback (the accelerator is not installed in the tree)
        {"name": "mcompat", "init": False, "all": None, "body": [],
         "raw": "try:\n    from _c18_accel import *\nexcept ImportError:\n    def f():\n        pass\n\n    k = ['@mcompat:k']\n"},
        {"name": "mshim", "init": False, "all": None, "body": [],
         "raw": "plain = ['@mshim:plain']\ntry:\n    from _c18_accel import enc\nexcept ImportError:\n    from ma import x as enc\n"},
        {"name": "mmatch", "init": False, "all": None, "body": [],
         "raw": "import sys\nmatch sys.platform:\n    case 'c18-none':\n        pass\n    case _:\n        def f():\n            pass\n\n        k = ['@mmatch:k']\n"},
    ]}


ALL_RULES = SWEEP_RULES
SPECIALS = [
    # (id, source, names, rules)
    ("nested-scope", "from ma import *\ndef f():\n    x = 1\n    return x\nprint(x, y)\n", ["x", "y"], ALL_RULES),
    ("relative-star", "from pkr import *\nprint(f, k, h)\n", ["f", "k", "h"], ALL_RULES),
    ("relative-reimport", "from pkr.mid import f, h\nprint(f, h)\n", ["f", "h"], ALL_RULES),
    ("local-import-global", "import ma\ndef f():\n    from ma import x\n    return x\nx = 3\nprint(f(), x)\n", ["x"], ALL_RULES),
    ("guessed-name", "from ma import *\nprint(Path, x)\n", ["Path", "x"], ALL_RULES),
    ("dotted-head", "from mc import *\nprint(pkr, xx, w)\n", ["pkr", "xx", "w"], ALL_RULES),
    ("tuple-all", "from ma import *\nfrom mb import *\nprint(x, y, q)\n", ["x", "y", "q"], ALL_RULES),
    ("private-star", "from mb import *\nfrom ma import _u\nfrom ma import *\nprint(_u, x)\n", ["_u", "x"], ALL_RULES),
    ("star-after-explicit", "from mb import x\nfrom ma import *\nprint(x)\n", ["x"], ALL_RULES),
    ("star-after-assign", "x = 1\nfrom ma import *\nprint(x)\n", ["x"], ALL_RULES),
    ("os-open", "from os import *\nprint(open, getcwd)\n", ["open", "getcwd"], ALL_RULES),
    ("os-path-star", "from os.path import *\nprint(join, basename)\n", ["join", "basename"], ALL_RULES),
    ("import-os-path", "import os.path\nprint(os.getcwd())\n", ["os"], ALL_RULES),
    ("dotted-unused", "import pkr.low\nprint(pkr.mid)\n", ["pkr"], ALL_RULES),
    ("dotted-alias", "import xml.dom.minidom as md\nimport collections.abc as abc\nprint(md, abc)\n", ["md", "abc"], ALL_RULES),
    ("from-abc", "from collections import abc\nfrom collections.abc import Mapping\nprint(abc, Mapping)\n", ["abc", "Mapping"], ALL_RULES),
    ("attr-as-self", "import pkr.low as low\nprint(low)\n", ["low"], ALL_RULES),
    ("same-bound-name", "import json as j\nimport pickle as j\nprint(j)\n", ["j"], ALL_RULES),
    ("aba", "import ma as v\nimport mb as v\nimport ma as v\nprint(v)\n", ["v"], ALL_RULES),
    ("import-twice-one-line", "import os, os\nprint(os)\n", ["os"], ALL_RULES),
    ("sibling-functions", "def f():\n    import ma\n    return ma.x\ndef g():\n    import ma\n    return ma.y\nprint(f(), g())\n", [], ALL_RULES),
    ("star-and-explicit", "from ma import y\nfrom ma import *\nprint(x, y)\n", ["x", "y"], ALL_RULES),
    ("star-only-unused-rule", "from ma import *\nprint(x)\n", ["x"], ALL_RULES),
    ("dup-from", "from ma import x\nfrom ma import y\nfrom ma import x as x\nprint(x, y)\n", ["x", "y"], ALL_RULES),
    ("stacked", "import ma, mb, json\nprint(ma, mb, json)\n", ["ma", "mb", "json"], ALL_RULES),
    ("function-import-stdlib", "def f():\n    import json\n    return json\nprint(f())\n", [], ALL_RULES),
    ("function-import-local", "import ma\ndef f():\n    from ma import y\n    return y\nprint(f())\n", [], ALL_RULES),
    ("missing-import", "print(os.getcwd(), x)\nfrom ma import x\n", ["x"], ALL_RULES),
    ("levels", "from ma import x\nimport ma as m2\nfrom ma import y\nprint(x, y, m2)\n", ["x", "y", "m2"], ALL_RULES),
    ("toplevel-after-def", "def g():\n    pass\nimport mb as y\nfrom ma import *\nprint(y)\n", ["y"], ALL_RULES),
    ("swap-from", "from msw import x, w\nprint(x, w)\n", ["x", "w"], ALL_RULES),
    ("swap-import", "from msw import ma, first\nprint(ma, first)\n", ["ma", "first"], ALL_RULES),
    ("twice-in-one-statement", "from mtw import v\nprint(v)\n", ["v"], ALL_RULES),
    # the seeded regression C18-b: bindings of the imported module inside `except` handlers / `case` blocks
    ("compat-star", "from mcompat import *\nprint(f, k)\n", ["f", "k"], ALL_RULES),
    ("shim-from", "from mshim import enc, plain\nprint(enc, plain)\n", ["enc", "plain"], ALL_RULES),
    ("match-star", "from mmatch import *\nprint(f, k)\n", ["f", "k"], ALL_RULES),
    # mutation triage: a built-in module that is not in PYTHON_311_STDLIB; a __future__ import must stay first
    ("builtin-star", "from _weakref import *\nprint(ref, proxy)\n", ["ref", "proxy"], ALL_RULES),
    ("future-first", "from __future__ import annotations\nimport mb\nimport ma\nprint(ma, mb)\n", ["ma", "mb"], ALL_RULES),
    ("import-as-self", "import ma as ma\nimport json as json, os as os\nprint(ma, json, os)\n", ["ma", "json", "os"], ALL_RULES),
    # F18-1 / F18-40 (repaired by cc67280 / 95f12ea: fixes._import_order_matters): must pass from now on
    ("sort-same-name", "from mb import x\nfrom ma import x\nprint(x)\n", ["x"], ALL_RULES),
    ("sort-same-name-3", "import json\nfrom mb import x\nimport ma as x\nprint(x, json)\n", ["x", "json"], ALL_RULES),
    ("sort-two-stars", "from math import *\nfrom cmath import *\nprint(sqrt(-1), pi)\n", ["sqrt", "pi"], ALL_RULES),
    ("sort-star-explicit", "from mb import x\nfrom ma import *\nimport json\nprint(x, json)\n", ["x", "json"], ALL_RULES),
    ("sort-dotted-head", "import os.path\nimport os\nprint(os)\n", ["os"], ALL_RULES),
    ("alias-same-name", "from ma import y as v, x as v\nprint(v)\n", ["v"], ALL_RULES),
    ("alias-same-name-import", "import mb as q, ma as q\nprint(q)\n", ["q"], ["sort_imports", "remove_unused_imports"]),
]


def stage_site(impl, d: Path, wd: Path, case):
    """bisect a format_code failure: apply the import stages in pipeline order and return the site of the
    first stage after which the oracle fails (or main.format_code)"""
    impl.enter(d)
    src = case["src"]
    clients, cur = [], src
    for st in STAGES:
        nxt = impl.run(st, cur)
        if isinstance(nxt, tuple):
            break
        clients.append({"id": len(clients), "before": src, "after": nxt, "names": case.get("names", []), "calls": True})
        cur = nxt
    os.chdir(common.VERIF)
    res = run_worker([{"dir": str(d), "modules": [], "pool": [], "clients": clients}], wd / "trees")[0]["clients"]
    for st, r in zip(STAGES, res):
        still = loaded_names(r and clients[r["id"]]["after"]) or set()
        diff = [n for n in r["diff"] if n.startswith("<") or n in still]
        if "<exception>" in diff or any(not n.startswith("<") for n in diff):
            return SITE[st]
    return SITE["format_code"]


# ---------------------------------------------------------------------------------------------
# hunt corpus (harness/c18_hunt.py): fixed end-to-end witnesses, each in its own file tree

def hunt_batch(impl, wd: Path):
    """run every rule of every hunt item inside the item's tree, execute before/after in fresh module state,
    compare stdout + exception.  Returns failure records like oracle_batch (with `hunt` = item id)."""
    from . import c18_hunt
    base = wd / "trees"
    jobs, meta = [], []
    for k, (hid, files, cpath, src, rules, opts) in enumerate(c18_hunt.ITEMS):
        d = base / f"h{k}"
        d.mkdir(parents=True, exist_ok=True)
        for rel, text in files.items():
            p = d / rel
            p.parent.mkdir(parents=True, exist_ok=True)
            p.write_text(text)
        impl.enter(d)
        cl = []
        tree = {"mods": [{"name": rel[:-3].replace("/", "."), "init": rel.endswith("__init__.py"), "all": None, "body": [],
                          "raw": text} for rel, text in files.items()]}
        for rule in rules:
            out = impl.run(rule, src)
            rec = {"rule": rule, "tree": tree, "src": src, "out": out if isinstance(out, str) else None, "names": [],
                   "dir": str(d), "hunt": hid}
            if isinstance(out, tuple):
                meta.append((k, None, dict(rec, crash=out[1])))
                continue
            if out == src:
                continue
            try:
                ast.parse(out)
            except SyntaxError:
                meta.append((k, None, dict(rec, crash="output is not valid Python")))
                continue
            cl.append({"id": len(meta), "before": opts.get("ref", src), "after": out, "names": [], "fresh": True,
                       "package": opts.get("pkg")})
            meta.append((k, len(cl) - 1, rec))
        jobs.append({"dir": str(d), "modules": [], "pool": [], "clients": cl})
    os.chdir(common.VERIF)
    res = run_worker(jobs, base)
    fails, n_exec = [], 0
    for k, ci, rec in meta:
        if ci is None:
            fails.append(dict(rec, diff=["<crash>"]))
            continue
        r = res[k]["clients"][ci]
        n_exec += 1
        if r["before"]["exc"]:
            continue
        if r["diff"]:
            fails.append(dict(rec, diff=r["diff"], before=r["before"], after=r["after"]))
    return fails, n_exec


# ---------------------------------------------------------------------------------------------
# the check

SWEEP_SEED = 1234          # the deterministic sweep never depends on VERIF_SEED


def stmt_tree():
    names = ["x", "y", "z", "w", "_u", "q"]
    return {"mods": [mod(m, [("assign", n) for n in names]) for m in ("ma", "mb")] +
            [mod("pk.s1", [("assign", n) for n in names]), mod("pk", [], init=True)]}


def no_self_dups(stmts):
    """_breakout_stacked_imports crashes (TypeError in the scheduler) when two aliases of one statement are
    equal after `x as x` normalisation; a crash is not a C18 matter -- such lists are not generated"""
    for s in stmts:
        if s[0] == "import":
            norm = [(n, a if a != n else None) for n, a in s[1]]
            if len(set(norm)) != len(norm):
                return False
    return True


def rules_for(body):
    """format_code renames module-level variables/functions of the client (another property's kernel) and then
    drops imports of the old name; whole-pipeline runs are therefore swept on import-only clients"""
    if any(b[0] in ("def", "assign") for b in body):
        return [r for r in SWEEP_RULES if r != "format_code"]
    return SWEEP_RULES


def sweep_items(tier):
    items = []
    pool = POOL + ["q", "ma", "mb", "mc", "pk"]
    for t in small_scope_trees():
        cl = []
        for body in SMALL_CLIENTS:
            if any(b[0] == "from" and not isinstance(ref_resolve(t, b[1], b[2]), tuple) for b in body):
                continue
            cm = {"mods": t["mods"] + [mod("client_mod", body)]}
            used = sorted(namespace(cm, "client_mod", pool))
            if used:
                cl.append((sweep_source(body, used), used, rules_for(body)))
        items.append((t, cl))
    rnd = random.Random(SWEEP_SEED)
    n_rand = 25 if tier == "quick" else 150
    while n_rand:
        t = random_tree(rnd)
        if not t:
            continue
        n_rand -= 1
        cl = []
        for _ in range(8):
            body = random_client(rnd, t)
            if any(b[0] == "from" and not isinstance(ref_resolve(t, b[1], b[2]), tuple) for b in body):
                continue
            cm = {"mods": t["mods"] + [mod("client_mod", body)]}
            used = sorted(namespace(cm, "client_mod", pool))
            if used:
                cl.append((sweep_source(body, used), used, rules_for(body)))
        items.append((t, cl))
    items.append((special_tree(), [(src, names, rules) for _, src, names, rules in SPECIALS]))
    return items


def triage(impl, wd, fails, kf):
    """split oracle failures into (matched: {finding id: [records]}, unmatched: [records]).
    A single-rule failure is matched only against findings of that rule's site.  A format_code failure is first
    attributed by replaying the import stages one by one (stage_site); the pipeline schedules
    fix_starred_imports and fix_reimported_names in ONE joint pass, so when several causes combine the
    attribution is per changed name over the import-rule sites."""
    matched, unmatched = {}, []
    for f in fails:
        site = SITE[f["rule"]]
        sites = {site}
        if f["rule"] == "format_code" and "<crash>" not in f["diff"] and not f.get("hunt"):
            try:
                site = stage_site(impl, Path(f["dir"]), wd, f)
            except Exception as e:  # noqa
                common.log("stage bisection failed:", e)
            sites = {site}
        f["site"] = site
        if f.get("hunt"):
            m = match_hunt(kf, f)
            if m is None:
                unmatched.append(f)
            else:
                matched.setdefault(m[0].id, []).append(f)
            continue
        m = match_finding(kf, sites, f) if "<crash>" not in f["diff"] else None
        if m is None and f["rule"] == "format_code" and "<crash>" not in f["diff"]:
            m = match_finding(kf, IMPORT_SITES, f)
        if m is None:
            unmatched.append(f)
        else:
            for fd in {x.id: x for x in m}.values():
                matched.setdefault(fd.id, []).append(f)
    return matched, unmatched


def slim(f):
    return {"rule": f["rule"], "site": f.get("site"), "hunt": f.get("hunt"), "modules": {m["name"]: render_module(m) for m in f["tree"]["mods"]},
            "packages": [m["name"] for m in f["tree"]["mods"] if m["init"]],
            "source": f["src"], "output": f["out"], "names_changed": f["diff"], "crash": f.get("crash"),
            "before": f.get("before"), "after": f.get("after")}


def check(run: common.Run):  # noqa: C901
    wd = common.workdir(PID)
    ps = common.proof_step(run, PID, wd)
    impl = Impl(wd / "trees")
    consts = impl.mods["constants"]
    stdlib = set(consts.PYTHON_311_STDLIB)
    GUESSABLE.clear()
    GUESSABLE.update(consts.ASSUMED_PACKAGES | set(consts.PACKAGE_ALIASES) | set().union(*consts.ASSUMED_SOURCES.values()))
    rnd = random.Random(run.seed)
    hist = Counter()
    files, blocks = [], []

    # ---- 1. exhaustive small scope: every loading (ma variant x mb variant) x every small client
    used0 = ["x", "y", "z", "w", "_u"]
    small = [(t, SMALL_CLIENTS, [used0 + (["ma"] if any(b[0] == "from" and b[2] == "ma" for b in c) else [])
                                for c in SMALL_CLIENTS]) for t in small_scope_trees()]
    f1, b1, outs1, _ = run_tree_batch(impl, wd, small, "s", stdlib)
    files += f1; blocks += b1
    # ---- 2. seeded random trees (packages with __init__, chains up to depth 5, __all__ list/tuple)
    batch = []
    n_trees = 50 if run.tier == "quick" else 400
    while len(batch) < n_trees:
        t = random_tree(rnd)
        if not t:
            continue
        clients = [random_client(rnd, t) for _ in range(8)]
        useds = [sorted(set(rnd.sample(POOL + ["q"], rnd.randint(1, 4))) |
                        {bound_name(b) for b in c if bound_name(b) and rnd.random() < 0.7}) for c in clients]
        batch.append((t, clients, useds))
    f2, b2, outs2, _ = run_tree_batch(impl, wd, batch, "r", stdlib)
    files += f2; blocks += b2
    n_tree_cases = sum(len(c) for _, c, _ in small + batch)
    distinct = set()
    for (t, clients, useds), outs in zip(small + batch, outs1 + outs2):
        for rule, lst in outs.items():
            for body, used, out in zip(clients, useds, lst):
                src = client_source(body, used)
                changed = isinstance(out, str) and out != src
                hist[f"{rule}:{'rewritten' if changed else 'unchanged'}"] += 1
                if changed:
                    distinct.add((rule, json.dumps(t, sort_keys=True), src))
    # ---- 3. statement rules: all lists of <= 2 (quick) / 3 (thorough) statements over 10 statements
    lu = []
    maxlen = 2 if run.tier == "quick" else 3
    for l in small_stmt_lists(maxlen):
        if no_self_dups(l):
            lu += [(l, u) for u in useds_for(l)]
    n_small_lists = len(lu)
    n_rand = 150 if run.tier == "quick" else 3000
    while n_rand:
        l = random_stmts(rnd, stars=n_rand % 4 == 0)
        if no_self_dups(l):
            lu.append((l, useds_for(l, rnd)[0])); n_rand -= 1
    cs, labels = stmt_rule_cases(impl, lu, stdlib)
    for lab in labels:
        changed = lab[1] == "case" and lab[2] != lab[3]
        hist[f"{lab[0]}:{'rewritten' if changed else 'unchanged'}"] += 1
        if changed:
            distinct.add((lab[0], lab[2]))
    f3, b3 = stmt_case_files(wd, cs, labels, "a")
    files += f3; blocks += b3

    results = common.run_case_files(files)
    disagreements = collect(results, files, blocks)
    n_resolve = sum(len(lbls) for fb in (b1 + b2) for lbls in fb
                    if lbls and lbls[0][0] in ("resolve", "resolve-client", "module-error"))

    # ---- 4. deterministic sweep with the property oracle (seed independent)
    kf = common.load_findings(PID)
    fails, n_exec = oracle_batch(impl, wd, sweep_items(run.tier), "o")
    hfails, hn = hunt_batch(impl, wd)          # the round-4 hunt corpus runs with the sweep
    fails = hfails + fails
    n_exec += hn
    matched, unmatched = triage(impl, wd, fails, kf)
    for f in kf:
        if f.kind != "finding":
            continue
        hits = matched.get(f.id, [])
        if hits:
            h = hits[0]
            run.known_finding(f.id, f"site={f.fields.get('site')} {f.text} [{len(hits)} sweep instances, e.g. "
                                    f"{h['rule']} on {h['src']!r} -> {h['out']!r}: changed {h['diff']}]")
        else:
            common.log(f"note: known finding {f.id} no longer reproduces in the sweep")
    for f in unmatched[:5]:
        run.violation({"kind": "property-oracle", **slim(f),
                       "explanation": "a referenced name resolves to a different object (or the module no longer "
                                      "runs) after the rule, and no listed finding matches site + predicate"}, True)

    # ---- 5. a broken correspondence / proof: failing-input search with the oracle
    broken_proof = bool(ps.get("props")) and not ps["props"]["ok"]
    if (disagreements or broken_proof) and not unmatched:
        try:
            found = failing_input_search(impl, wd, disagreements, rnd, kf)
        except Exception as e:  # noqa  -- the search must never hide the disagreement that triggered it
            common.log("failing-input search crashed:", repr(e))
            found = []
        for f in found[:3]:
            run.violation({"kind": "property-oracle", "found_by": "failing-input search", **slim(f),
                           "explanation": "found while searching from a broken correspondence/proof"}, True)
        if not found:
            for d in disagreements[:5]:
                run.violation({"kind": "correspondence", "kernel": "K11",
                               "detail": [x if not isinstance(x, dict) else {m["name"]: render_module(m) for m in x["mods"]}
                                          for x in d],
                               "explanation": "Gallina model and implementation (or resolve and CPython) disagree; the "
                                              "execution oracle found no client whose referenced names change"}, False)
    if broken_proof:
        pr = ps["props"]
        run.violation({"kind": "proof", "file": pr["file"], "broken": pr.get("broken"), "log": pr["log"],
                       "explanation": "a property theorem no longer checks"}, False)

    sample_small = small[7]
    run.coverage.update(
        evaluations=n_tree_cases * 2 + n_resolve + len(cs) + n_exec,
        distinct_nontrivial=len(distinct),
        rule=("tree cases: ALL loading combinations of 4 variants of module ma x 18 variants of mb (several aliases in one statement, swapped names, a name bound twice) x 17 client import "
              f"forms (exhaustive, {len(small)} trees), + {len(batch)} seeded random trees (modules ma mb pk/__init__ "
              "pk.s1 pk.s2 mc, re-export chains, aliases, star imports, __all__ as list/tuple) x 8 random clients; for "
              "each: resolve vs CPython namespaces, fix_starred_imports and fix_reimported_names vs model. statement "
              f"rules: ALL lists of <= {maxlen} statements over {len(SMALL_STMTS)} statement forms (two of them bind one name "
              "twice in ONE statement) x 2-3 used-sets, + runs with a star import next to / between every form for the "
              f"sort rules (exhaustive, {n_small_lists}) + random lists, x {len(RULES)} rules (6 single rules, "
              "fix_duplicate_imports and sort_imports as a whole). Non-trivial = the real rule changed the client; distinct by "
              "(rule, tree, source)."),
        samples=[{"modules": {m["name"]: render_module(m) for m in sample_small[0]["mods"]},
                  "client": client_source(sample_small[1][1], sample_small[2][1]),
                  "fix_starred_imports": outs1[7]["fix_starred_imports"][1]},
                 {"modules": {m["name"]: render_module(m) for m in batch[0][0]["mods"]},
                  "client": client_source(batch[0][1][0], batch[0][2][0]),
                  "fix_reimported_names": outs2[0]["fix_reimported_names"][0]},
                 {"statements": labels[40][2], "rule": labels[40][0], "output": labels[40][3]}],
        exhaustive=False, exhaustive_small_trees=len(small), exhaustive_stmt_lists=n_small_lists,
        histogram=dict(hist), resolve_vs_cpython=n_resolve,
        correspondence_disagreements=len(disagreements),
        sweep={"executed_before_after": n_exec, "failures": len(fails),
               "matched_known_findings": {k: len(v) for k, v in matched.items()}, "unmatched": len(unmatched),
               "seed_independent": True},
        unmodelled=["importlib finder on the real sys.path (abstracted to the finite graph)", "relative imports",
                    "conditional / try / function-level imports", "import side effects, partially initialised modules",
                    "fixes.move_imports_to_toplevel, fixes._fix_imported_attr_as_self, fixes.fix_import_spacing",
                    "fixes.add_missing_imports (guesses; sweep only: no previously bound name changes its object)",
                    "__all__ built by += / append / extend", "submodule attributes set on packages as a side effect"],
        trusted_base=common.TRUSTED_BASE_COMMON + [
            "ImportsModel.resolve is a DEFINITION of what import binds (validated against CPython namespaces of the "
            "generated trees on every run)",
            "harness/c18.py: tree generator/renderer, id numbering (order preserving, odd = leading underscore), "
            "client parser, harness/c18_worker.py (identity comparison inside one process)"])
    run.assumptions += [
        "module bodies are unconditional top-level statements in the theorems; correspondence and sweep also wrap them in "
        "compound statements whose executed branch holds the bindings (try/except/else/finally, if, with, loops, match); "
        "acyclic import graphs (the topo_ok guard)",
        "absolute imports only in the model; relative imports appear only in the sweep (known finding)",
        "add_missing_imports guesses are outside any model: the sweep only checks that no previously bound name "
        "changes its object",
        "objects are compared by identity within one process (client-created objects by module+qualname)"]


def failing_input_search(impl, wd, disagreements, rnd, kf):
    items = []
    st = stmt_tree()
    for d in disagreements[:60]:
        if d[0] in SITE and len(d) >= 5 and d[1] == "case":
            names = sorted(loaded_names(d[2]) or [])
            items.append((d[4], [(d[2], names, [d[0], "format_code"])]))
        elif len(d) == 4 and d[1] == "case":
            names = sorted(loaded_names(d[2]) or [])
            items.append((st, [(d[2], names, [d[0], "format_code"])]))
    rules = sorted({d[0] for d in disagreements if d[0] in SITE or d[0].startswith("_")}) or SWEEP_RULES
    pool = POOL + ["q", "ma", "mb", "mc", "pk"]
    for _ in range(60):
        t = random_tree(rnd)
        if not t:
            continue
        cl = []
        for _ in range(6):
            body = random_client(rnd, t)
            cm = {"mods": t["mods"] + [mod("client_mod", body)]}
            used = sorted(namespace(cm, "client_mod", pool))
            if used:
                cl.append((client_source(body, used), used, [r for r in rules if r in SITE] or SWEEP_RULES))
        items.append((t, cl))
    for _ in range(150):
        l = random_stmts(rnd)
        if no_self_dups(l):
            used = sorted({b for s in l for b in stmt_bound(s)} & set(POOL + ["q", "ma", "os"]))
            items.append((st, [(stmts_source(l, used), used, rules)]))
    fails, _ = oracle_batch(impl, wd, items, "f")
    _, unmatched = triage(impl, wd, fails, kf)
    return unmatched


def replay(path: str) -> int:
    data = json.loads(Path(path).read_text())
    print(json.dumps({k: data[k] for k in data if k in ("kind", "explanation", "rule", "site", "source", "output",
                                                        "names_changed", "modules", "detail", "broken")}, indent=1))
    if data.get("kind") == "property-oracle" and data.get("modules"):
        wd = common.workdir(PID + "-replay")
        impl = Impl(wd / "trees")
        d = wd / "trees" / "replay"
        for name, text in data["modules"].items():
            parts = name.split(".")
            is_pkg = name in data.get("packages", []) or any(k.startswith(name + ".") for k in data["modules"])
            p = d.joinpath(*parts, "__init__.py") if is_pkg else d.joinpath(*parts[:-1], parts[-1] + ".py")
            p.parent.mkdir(parents=True, exist_ok=True)
            p.write_text(text)
        impl.enter(d)
        out = impl.run(data["rule"], data["source"])
        os.chdir(common.VERIF)
        print("output now:", out)
        if isinstance(out, str):
            names = sorted(loaded_names(data["source"]) or [])
            r = run_worker([{"dir": str(d), "modules": [], "pool": [], "clients": [
                {"id": 0, "before": data["source"], "after": out, "names": names, "calls": True}]}], wd / "trees")
            print("oracle now:", json.dumps(r[0]["clients"][0], indent=1))
            return 1 if r[0]["clients"][0]["diff"] else 0
    if data.get("kind") == "proof":
        wdp = common.workdir(PID + "-replay")
        print(common.check_props(PID, wdp)["log"])
    return 0
