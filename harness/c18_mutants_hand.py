"""Re-run single campaign mutants by hand in a scratch repo worktree (mutation triage helper, not part of the check)."""
import subprocess, sys, os, json, re
REPO = os.environ["VERIF_REPO"]; VERIF = os.path.dirname(os.path.dirname(os.path.abspath(__file__)))
M = {
 "L4032": ("pyrefact/fixes.py", "        not (isinstance(node, ast.ImportFrom) and node.module == \"__future__\"),\n", "        (isinstance(node, ast.ImportFrom) and node.module == \"__future__\"),\n"),
 "L305": ("pyrefact/tracing.py", "                if origin in {\"frozen\", \"built-in\"}:\n", "                if False:\n"),
 "L262": ("pyrefact/fixes.py", "        while \".\" in full_name:\n", "        while True:\n"),
 "L244": ("pyrefact/tracing.py", "    if __all__:\n        all_template", "    if True:\n        all_template"),
 "L3871": ("pyrefact/fixes.py", "                        current[_bound_name(alias)] = None\n", "                        pass\n"),
 "L3902a": ("pyrefact/fixes.py", "                                new_aliases, key=lambda t: (t[0], t[1] is not None, t[1])", "                                new_aliases, key=lambda t: (t[0], t[1] is not None, t[0])"),
 "L3902b": ("pyrefact/fixes.py", "                                new_aliases, key=lambda t: (t[0], t[1] is not None, t[1])", "                                new_aliases, key=lambda t: (t[0], t[0] is not None, t[1])"),
 "L4004": ("pyrefact/fixes.py", "    source = _fix_duplicate_from_imports(source)\n    source = _fix_duplicate_regular_imports(source)\n    source = _breakout", "    source = _fix_duplicate_regular_imports(source)\n    source = _breakout"),
 "L3962": ("pyrefact/fixes.py", "            else:\n                replacement = ast.Import(names=[ast.alias(name=last, asname=None)])\n", "            else:\n                pass\n"),
 "L3955": ("pyrefact/fixes.py", "        if last == asname:\n            if names:\n", "        if last == asname:\n            if True:\n"),
 "L514": ("pyrefact/tracing.py", "                    if referenced_name == original_name:\n                        new_alias = ast.alias(name=original_name, asname=None)\n                    else:\n                        new_alias = ast.alias(name=original_name, asname=referenced_name)\n\n                    new_node = ast.Import(", "                    if False:\n                        new_alias = ast.alias(name=original_name, asname=None)\n                    else:\n                        new_alias = ast.alias(name=original_name, asname=referenced_name)\n\n                    new_node = ast.Import("),
}
for name in sys.argv[1:]:
    path, old, new = M[name]
    p = os.path.join(REPO, path); s = open(p).read()
    assert s.count(old) == 1, (name, s.count(old))
    open(p, "w").write(s.replace(old, new))
    try:
        r = subprocess.run(["./check", "C18", "--tier", "quick"], cwd=VERIF, capture_output=True, text=True, env=dict(os.environ, VERIF_REPO=REPO), timeout=1800)
        viol = [l for l in r.stdout.splitlines() if l.startswith("VIOLATION")]
        kinds = []
        for v in viol:
            d = json.load(open(os.path.join(VERIF, re.search(r"replay=(\S+)", v).group(1))))
            kinds.append((d.get("kind"), d.get("rule") or (d.get("detail") or [""])[0], d.get("failing_input_found")))
        print(name, "rc=%d" % r.returncode, len(viol), kinds, flush=True)
    finally:
        subprocess.run(["git", "-C", REPO, "checkout", "--", "."])
        subprocess.run("rm -f %s/replays/C18-*.json" % VERIF, shell=True)
