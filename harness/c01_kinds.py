"""C01 round 5: statement-kind coverage of the execution sweep.

(1) `carrier` family: for EVERY compound statement kind of the running interpreter's grammar -- derived from the `ast`
    module: every ast.stmt subclass with a `stmt*` field, through `excepthandler*` / `match_case*` fields to the blocks of
    ExceptHandler / match_case -- as the CARRIER of each control-transfer statement {break, continue, return, raise, yield,
    a call that raises} x loop kind {while True, while cond, for over a literal, for over an unknown iterable} x loop tail
    {falls through, returns} x {transfer directly in the carrier's block, transfer under an `if` inside the block}, with
    live code after the loop that prints.  The analyses that decide "nothing after this loop can run" (core.is_blocking,
    core._may_leave_iteration) and the rules built on them have to look INTO each of these blocks.
(2) `placement` family: the same carriers as the ENCLOSING block of the loop (`with suppress(..): while True: ..`,
    `match ..: case ..: while True: ..`), live code after the carrier.
(3) `node` family: one small closed program per rare node class (the coverage meter showed they occurred nowhere).
(4) the coverage meter: histogram of ast node classes over the whole (thorough, seed-independent) sweep corpus, compared
    with the committed list corpus/c01/uncovered_nodes.json; a class of the interpreter's `ast` module that is neither
    covered nor listed is reported (stderr + evidence; not an alarm).

Every program is closed and deterministic: it prints what it computes; an endless loop is cut by `step()` raising Limit
(an exception the analyses cannot see), which the driver prints.  Programs the interpreter rejects (break in a nested def,
return in a class body, break in an `except*` block ...) are dropped by compile()."""
from __future__ import annotations

import ast
import json
import re
import warnings
from collections import Counter
from pathlib import Path

UNCOVERED_FILE = Path(__file__).resolve().parent.parent / "corpus" / "c01" / "uncovered_nodes.json"

# ------------------------------------------------------------------------------------------------
# the grammar of the running interpreter


def _sig_fields(cls) -> list[tuple[str, str]]:
    """[(type with its ?/* suffix, field name)] from the ASDL signature that `ast` keeps as the class docstring"""
    doc = (cls.__doc__ or "").strip()
    m = re.match(r"^\w+\((.*)\)$", doc, re.S)
    if not m:
        return []
    return [tuple(p.strip().split()) for p in m.group(1).split(",") if len(p.strip().split()) == 2]


def grammar_blocks() -> list[str]:
    """`Class.field` for every statement-list field of a compound statement; handlers / cases are followed into the
    statement lists of ExceptHandler / match_case (`Try.handlers`, `Match.cases`)."""
    out = []
    for name in sorted(dir(ast)):
        cls = getattr(ast, name)
        if not (isinstance(cls, type) and issubclass(cls, ast.stmt) and cls is not ast.stmt):
            continue
        for typ, field in _sig_fields(cls):
            if typ == "stmt*":
                out.append(f"{name}.{field}")
            elif typ in ("excepthandler*", "match_case*"):
                out.append(f"{name}.{field}")
    return out


def concrete_node_classes() -> list[str]:
    """names of the node classes ast.parse can produce: not abstract (has subclasses in ast), not deprecated"""
    out = []
    with warnings.catch_warnings():
        warnings.simplefilter("ignore")
        for name in sorted(dir(ast)):
            cls = getattr(ast, name)
            if not (isinstance(cls, type) and issubclass(cls, ast.AST) and cls is not ast.AST):
                continue
            if cls.__module__ not in ("ast", "_ast") or cls.__subclasses__() or name.startswith("_"):
                continue
            if not (cls.__doc__ or "").startswith(name):     # Num, Str, Index, ...: "Deprecated AST node class ..."
                continue
            out.append(name)
    return out


# ------------------------------------------------------------------------------------------------
# carriers: template(block lines, g) -> lines; g = the value of `i` at which the block must run (None: always)


def _ind(lines, n=1):
    return ["    " * n + l for l in lines]


def _test(g):
    return "i >= 0" if g is None else f"i == {g}"


CARRIERS = {
    "If.body": lambda b, g: [f"if {_test(g)}:", *_ind(b)],
    "If.orelse": lambda b, g: [f"if not ({_test(g)}):", "    out.append('n')", "else:", *_ind(b)],
    "For.body": lambda b, g: ["for _k in ('p', 'q'):", *_ind(b)],
    "For.orelse": lambda b, g: ["for _k in ('p',):", "    out.append(_k)", "else:", *_ind(b)],
    "While.body": lambda b, g: ["_w = 0", "while _w < 1:", "    _w += 1", *_ind(b)],
    "While.orelse": lambda b, g: ["_w = 0", "while _w < 1:", "    _w += 1", "else:", *_ind(b)],
    "With.body": lambda b, g: ["with contextlib.nullcontext():", *_ind(b)],
    "With.body/suppress": lambda b, g: ["with contextlib.suppress(ValueError, StopIteration):", *_ind(b)],
    "AsyncWith.body": lambda b, g: ["async with ACM():", *_ind(b)],
    "AsyncFor.body": lambda b, g: ["async for _k in agen():", *_ind(b)],
    "AsyncFor.orelse": lambda b, g: ["async for _k in agen():", "    out.append(_k)", "else:", *_ind(b)],
    "Try.body": lambda b, g: ["try:", *_ind(b), "except (ValueError, StopIteration):", "    out.append('caught')"],
    "Try.handlers": lambda b, g: ["try:", "    raise KeyError(i)", "except KeyError:", *_ind(b)],
    "Try.orelse": lambda b, g: ["try:", "    out.append('t')", "except KeyError:", "    out.append('k')", "else:", *_ind(b)],
    "Try.finalbody": lambda b, g: ["try:", "    out.append('t')", "finally:", *_ind(b)],
    "TryStar.body": lambda b, g: ["try:", *_ind(b), "except* (ValueError, StopIteration):", "    out.append('caught')"],
    "TryStar.handlers": lambda b, g: ["try:", "    raise KeyError(i)", "except* KeyError:", *_ind(b)],
    "TryStar.orelse": lambda b, g: ["try:", "    out.append('t')", "except* KeyError:", "    out.append('k')", "else:", *_ind(b)],
    "TryStar.finalbody": lambda b, g: ["try:", "    out.append('t')", "finally:", *_ind(b)],
    "Match.cases": lambda b, g: ["match i:", f"    case {'int()' if g is None else g}:", *_ind(b, 2), "    case _:", "        out.append('m')"],
    "FunctionDef.body": lambda b, g: ["def _h():", *_ind(b), "_r = _h()", "out.append(type(_r).__name__)"],
    "AsyncFunctionDef.body": lambda b, g: ["async def _h():", *_ind(b), "_r = _h()", "out.append(type(_r).__name__)"],
    "ClassDef.body": lambda b, g: ["class _K:", "    tag = 'k'", *_ind(b), "out.append(_K.tag)"],
}
# TryStar.finalbody is Try.finalbody unless the statement has an except* clause
CARRIERS["TryStar.finalbody"] = lambda b, g: ["try:", "    out.append('t')", "except* KeyError:", "    out.append('k')", "finally:", *_ind(b)]
HAS_OWN_TEST = {"If.body", "If.orelse", "Match.cases"}          # the carrier itself decides whether the block runs
ASYNC_CARRIERS = {"AsyncWith.body", "AsyncFor.body", "AsyncFor.orelse"}
NO_CARRIER = "Loop.body"                                         # the transfer is a statement of the loop body itself

TRANSFERS = {
    "break": "break",
    "continue": "continue",
    "return": "return ('ret', list(out))",
    "raise": "raise ValueError(i)",
    "yield": "yield i",
    "call_raises": "out.append(int('x' * i))",                   # not a control-transfer STATEMENT: an exit no analysis sees
}
LOOPS = {
    "while_true": "while True:",
    "while_cond": "while i < n:",
    "for_literal": "for x in [10, 20, 30, 40]:",
    "for_unknown": "for x in xs:",
}
TAILS = ("none", "return")

PRELUDE = ["", "", "class Limit(Exception):", "    pass", "", "", "def step(i):", "    if i >= 5:", "        raise Limit(i)",
           "    return i + 1", "", ""]
ASYNC_PRELUDE = ["class ACM:", "    async def __aenter__(self):", "        return self", "",
                 "    async def __aexit__(self, *exc):", "        return False", "", "", "async def agen():", "    yield 'p'", "    yield 'q'", "", ""]


def _driver(is_async: bool, is_gen: bool) -> list[str]:
    if is_async and is_gen:
        call = ["    async def main():", "        return [v async for v in f([7, 8, 9], 4)]", "    print('gen', asyncio.run(main()))"]
    elif is_async:
        call = ["    print(asyncio.run(f([7, 8, 9], 4)))"]
    elif is_gen:
        call = ["    print('gen', list(f([7, 8, 9], 4)))"]
    else:
        call = ["    print(f([7, 8, 9], 4))"]
    return ["try:", *call, "except (ValueError, KeyError, StopIteration, RuntimeError) as e:", "    print('raised', type(e).__name__, e)",
            "except BaseExceptionGroup as e:", "    print('group', [type(x).__name__ for x in e.exceptions])",
            "except Limit as e:", "    print('limit', e)"]


def _assemble(body: list[str], is_async: bool, is_gen: bool) -> str | None:
    lines = (["import asyncio"] if is_async else []) + ["import contextlib"] + PRELUDE + (ASYNC_PRELUDE if is_async else []) + [("async " if is_async else "") + "def f(xs, n):", "    out = []", "    i = 0",
                                                            *_ind(body), "    print('after', i, out)",
                                                            "    return" if is_async and is_gen else "    return ('end', out)", "", ""]
    src = "\n".join(lines + _driver(is_async, is_gen)) + "\n"
    try:
        with warnings.catch_warnings():
            warnings.simplefilter("ignore")
            compile(src, "prog.py", "exec")
    except SyntaxError:
        return None
    return src


def carrier_program(carrier: str, transfer: str, loop: str, tail: str, guarded: bool) -> str | None:
    g = 1 if tail == "return" else 2
    is_async = carrier in ASYNC_CARRIERS
    is_gen = transfer == "yield" and carrier not in ("FunctionDef.body", "AsyncFunctionDef.body")
    t = TRANSFERS[transfer]
    ret = "return" if is_async and is_gen else "return ('tail', list(out))"
    if transfer == "return" and is_async and is_gen:
        t = "return"
    if carrier == NO_CARRIER:
        block = [f"if i == {g}:", "    " + t] if guarded else [t]
        if not guarded:
            return None if tail == "return" else _assemble([LOOPS[loop], "    i = step(i)", "    out.append(i)", "    " + t], is_async, is_gen)
        carried = block
    else:
        own = carrier in HAS_OWN_TEST
        if guarded:
            block = [f"if i == {g}:", "    " + t]
            carried = CARRIERS[carrier](block, None if own else g)
        else:
            carried = CARRIERS[carrier]([t], g)
    body = [LOOPS[loop], "    i = step(i)", *_ind(carried), "    out.append(i)"]
    if tail == "return":
        body.append("    " + ret)
    return _assemble(body, is_async, is_gen)


def carrier_names() -> list[str]:
    return [NO_CARRIER] + list(CARRIERS)


def carrier_family() -> list[tuple[str, str]]:
    out = []
    for c in carrier_names():
        for t in TRANSFERS:
            for lp in LOOPS:
                for tail in TAILS:
                    for guarded in (False, True):
                        src = carrier_program(c, t, lp, tail, guarded)
                        if src is not None:
                            out.append((f"{c}:{t}:{lp}:{tail}:{'guarded' if guarded else 'direct'}", src))
    return out


# ---- placement: the loop sits INSIDE each carrier, live code follows the carrier

EXITS = {
    "break_in_if": ["if i == 2:", "    break"],
    "next_exhausted": ["out.append(next(it))"],
    "return_in_if": ["if i == 2:", "    return ('ret', list(out))"],
    "raise_in_if": ["if i == 2:", "    raise ValueError(i)"],
}


def placement_program(carrier: str, loop: str, exit_: str) -> str | None:
    is_async = carrier in ASYNC_CARRIERS
    inner = [LOOPS[loop], "    i = step(i)", *_ind(EXITS[exit_]), "    out.append(i)"]
    if carrier in ("FunctionDef.body", "AsyncFunctionDef.body", "ClassDef.body"):
        return None                      # the loop would belong to another scope: `out`/`i` are not shared
    body = ["it = iter(['a'])", *CARRIERS[carrier](inner, None)]
    return _assemble(body, is_async, False)


def placement_family() -> list[tuple[str, str]]:
    out = []
    for c in CARRIERS:
        for lp in LOOPS:
            for e in EXITS:
                src = placement_program(c, lp, e)
                if src is not None:
                    out.append((f"{c}:{lp}:{e}", src))
    return out


def unsupported_blocks() -> list[str]:
    """statement-list fields of the interpreter's grammar for which this module has no carrier template"""
    have = {k.split("/")[0] for k in CARRIERS}
    return [b for b in grammar_blocks() if b not in have and b != "Module.body"]


# ------------------------------------------------------------------------------------------------
# node family: programs for node classes the meter found nowhere in the corpus


def _j(*lines):
    return "\n".join(lines) + "\n"


def node_family() -> list[tuple[str, str]]:
    P = {}
    P["TryStar"] = _j("def f(k):", "    try:", "        if k:", "            raise ExceptionGroup('g', [ValueError(k), KeyError(k)])", "        print('no raise')",
                      "    except* ValueError as e:", "        print('v', len(e.exceptions))", "    except* KeyError as e:", "        print('k', len(e.exceptions))",
                      "    else:", "        print('else')", "    finally:", "        print('fin', k)", "f(0)", "f(3)")
    P["MatchPatterns"] = _j("import dataclasses", "@dataclasses.dataclass", "class Pt:", "    x: int", "    y: int", "def show(v):", "    match v:",
                            "        case None | False:", "            return 'singleton'", "        case 1 | 2 as small:", "            return ('small', small)",
                            "        case [a, b, *rest] if rest:", "            return ('seq', a, b, rest)", "        case [a, b]:", "            return ('pair', a + b)",
                            "        case {'k': val, **others}:", "            return ('map', val, sorted(others))", "        case Pt(x=0, y=yy):", "            return ('pt0', yy)",
                            "        case Pt(x, y):", "            return ('pt', x, y)", "        case str() as s:", "            return ('str', s.upper())",
                            "        case _:", "            return 'other'",
                            "for v in (None, False, 1, 2, [1, 2, 3, 4], [5, 6], {'k': 1, 'z': 2}, Pt(0, 9), Pt(3, 4), 'ab', 7.5):", "    print(show(v))")
    P["TypeAlias"] = _j("type Pair[T] = tuple[T, T]", "type Num = int | float", "def first[T](p: Pair[T]) -> T:", "    return p[0]",
                        "class Box[T, *Ts, **Q]:", "    def __init__(self, v: T):", "        self.v = v", "print(first((1, 2)), Pair.__name__, Num.__value__, Box(3).v)",
                        "print([p.__name__ for p in Box.__type_params__])")
    P["GlobalNonlocalDelete"] = _j("count = 0", "def bump():", "    global count", "    count += 1", "def outer():", "    acc = []", "    def inner(v):",
                                   "        nonlocal acc", "        acc = acc + [v]", "    inner(1)", "    inner(2)", "    return acc", "bump()", "bump()", "xs = [1, 2, 3, 4]",
                                   "del xs[0], xs[-1]", "d = {'a': 1}", "del d['a']", "print(count, outer(), xs, d)")
    P["AssertAnnAssign"] = _j("def check(v: int) -> int:", "    total: int = 0", "    later: int", "    assert v >= 0, 'negative'", "    total += v", "    return total",
                              "print(check(3))", "try:", "    check(-1)", "except AssertionError as e:", "    print('assert', e)", "print(check.__annotations__)")
    P["NamedExprStarredIfExp"] = _j("data = [3, 8, 1, 9]", "if (n := len(data)) > 3:", "    print('long', n)", "first, *middle, last = data",
                                    "print(first, middle, last, [y for x in data if (y := x * 2) > 5])", "print(*data, sep='-')",
                                    "print('big' if n > 10 else 'small', {**{'a': 1}, 'b': 2}, [*data, *middle])")
    P["YieldFromAwait"] = _j("import asyncio", "def inner():", "    got = yield 1", "    print('got', got)", "    return 'inner-done'", "def outer():",
                             "    r = yield from inner()", "    print('r', r)", "    yield 2", "g = outer()", "print(next(g))", "print(g.send('hello'))",
                             "async def work(v):", "    await asyncio.sleep(0)", "    return v * 2", "async def main():", "    a = await work(2)",
                             "    b = [await work(k) for k in (1, 2)]", "    c = [k async for k in agen()]", "    return a, b, c", "async def agen():",
                             "    for k in (5, 6):", "        yield k", "print(asyncio.run(main()))")
    P["Operators"] = _j("class M:", "    def __init__(self, v):", "        self.v = v", "    def __matmul__(self, o):", "        return M(self.v * o.v + 1)",
                        "    def __imatmul__(self, o):", "        self.v += o.v", "        return self", "a = M(2) @ M(3)", "a @= M(4)", "x = 0b1100",
                        "y = 0b1010", "print(a.v, x & y, x | y, x ^ y, ~x, x << 2, x >> 1, -x, +x, x // 5, x % 5, x ** 2, 7 / 2)",
                        "x <<= 1", "y >>= 1", "x |= 1", "y &= 6", "x ^= 3", "z = 9", "z //= 2", "z **= 2", "z %= 7", "z /= 2", "z -= 1", "z *= 3",
                        "print(x, y, z, x is not y, x is x, 3 not in [1], not x, 1 < x <= 100 != y)")
    P["Slices"] = _j("xs = list(range(10))", "print(xs[2:8:2], xs[::-1][:3], xs[slice(1, 4)], xs[-3:])", "xs[1:3] = ['a']", "del xs[::4]",
                     "class G:", "    def __getitem__(self, k):", "        return k", "print(xs, G()[1:2, ..., 3], G()[...])")
    P["StringsFormat"] = _j("v = 3.14159", "name = 'w'", "print(f'{v:.2f}|{name!r:>6}|{v!s}|{name!a}|{v:{name}^10.3}'.replace('w', '*'))",
                            "print(b'ab' + b'\\x00', r'\\d', 'a' 'b', 1j * 2, ..., 0x1f, 1_000)")
    P["LambdaComps"] = _j("sq = lambda x, *a, k=2, **kw: (x ** k, a, sorted(kw))", "print(sq(3), sq(2, 1, k=3, z=0))",
                          "print({k: v for k, v in zip('ab', (1, 2))}, {c for c in 'abca'} == {'a', 'b', 'c'}, sum(v for v in range(4)))",
                          "print([(i, j) for i in range(3) for j in range(i) if j != 5])")
    P["ImportsWithRaiseFrom"] = _j("import os.path as osp", "from collections import OrderedDict as OD, deque", "def conv(s):", "    try:",
                                   "        return int(s)", "    except ValueError as e:", "        raise KeyError(s) from e", "try:", "    conv('x')",
                                   "except KeyError as e:", "    print(type(e.__cause__).__name__, osp.basename('/a/b'), OD(a=1), deque([1], 2))",
                                   "with open(__file__ if False else '/dev/null') as fh, open('/dev/null') as g:", "    print(fh.read() == g.read())")
    P["ClassKeywordsDecorators"] = _j("import functools", "class Meta(type):", "    def __new__(m, name, bases, ns, **kw):", "        ns['kw'] = sorted(kw)",
                                      "        return super().__new__(m, name, bases, ns)", "class Base:", "    pass", "class K(Base, metaclass=Meta, flag=True):",
                                      "    @functools.cached_property", "    def p(self):", "        print('computed')", "        return 4",
                                      "    @staticmethod", "    def s(a, /, b, *, c=1):", "        return a + b + c", "k = K()", "print(k.p, k.p, K.kw, K.s(1, 2, c=3), K.s(1, b=2))")
    P["WhileElsePass"] = _j("def f(n):", "    while n > 0:", "        n -= 1", "        if n == 5:", "            break", "    else:", "        print('exhausted')",
                            "        return 'else'", "    return 'broke'", "print(f(3), f(9))", "for k in ():", "    pass", "else:", "    print('for-else')")
    return sorted(P.items())


def implicit_use_family() -> list[tuple[str, str]]:
    """definitions whose only use is implicit: executing the definition (decorator, metaclass, __init_subclass__,
    class body) is what the program observes; the defined NAME is never read"""
    P = {}
    reg = ["REGISTRY = {}", "", "", "def register(fn):", "    REGISTRY[fn.__name__] = fn", "    return fn", "", ""]
    P["decorator:function"] = _j(*reg, "@register", "def hello():", "    return 'hi'", "", "", "print(sorted(REGISTRY), REGISTRY['hello']())")
    P["decorator:async_function"] = _j(*reg, "@register", "async def hello():", "    return 'hi'", "", "", "print(sorted(REGISTRY))")
    P["decorator:class"] = _j(*reg, "@register", "class Hello:", "    tag = 'h'", "", "", "print(sorted(REGISTRY), REGISTRY['Hello'].tag)")
    P["decorator:factory"] = _j("ROUTES = []", "", "", "def route(path):", "    def deco(fn):", "        ROUTES.append((path, fn.__name__))", "        return fn",
                                "    return deco", "", "", "@route('/a')", "def page_a():", "    return 'a'", "", "", "@route('/b')", "def page_b():", "    return 'b'",
                                "", "", "print(ROUTES)")
    P["decorator:method"] = _j("class App:", "    handlers = []", "", "    def on(self, fn):", "        self.handlers.append(fn)", "        return fn", "", "",
                               "app = App()", "", "", "@app.on", "def started():", "    return 'started'", "", "", "print([h() for h in app.handlers])")
    P["init_subclass"] = _j("class Base:", "    subs = []", "", "    def __init_subclass__(cls):", "        Base.subs.append(cls.__name__)", "", "",
                            "class Child(Base):", "    pass", "", "", "class Other(Base):", "    x = 1", "", "", "print(Base.subs)")
    P["metaclass"] = _j("class Meta(type):", "    seen = []", "", "    def __new__(m, name, bases, ns):", "        Meta.seen.append(name)",
                        "        return super().__new__(m, name, bases, ns)", "", "", "class Plugin(metaclass=Meta):", "    pass", "", "", "print(Meta.seen)")
    P["class_body_effect"] = _j("LOG = []", "", "", "class Unused:", "    LOG.append('class body ran')", "", "", "print(LOG)")
    P["nested:decorator"] = _j("def build():", "    table = {}", "", "    def reg(fn):", "        table[fn.__name__] = fn", "        return fn", "",
                               "    @reg", "    def one():", "        return 1", "", "    return {k: v() for k, v in table.items()}", "", "", "print(build())")
    return sorted(P.items())


# ------------------------------------------------------------------------------------------------
# the meter


def node_histogram(sources) -> tuple[Counter, int]:
    hist, bad = Counter(), 0
    for src in sources:
        try:
            with warnings.catch_warnings():
                warnings.simplefilter("ignore")
                tree = ast.parse(src)
        except (SyntaxError, ValueError, RecursionError):
            bad += 1
            continue
        for n in ast.walk(tree):
            hist[type(n).__name__] += 1
    return hist, bad


def load_uncovered() -> dict:
    if UNCOVERED_FILE.exists():
        return json.loads(UNCOVERED_FILE.read_text())
    return {"never_in_corpus": {}}


def coverage_meter(sources) -> dict:
    """histogram + the three lists: covered, listed as never occurring, and NEW (in the interpreter's ast module, neither
    covered nor listed); also listed-but-now-covered entries (stale) and grammar blocks without a carrier template."""
    hist, bad = node_histogram(sources)
    classes = concrete_node_classes()
    listed = load_uncovered().get("never_in_corpus", {})
    missing = [c for c in classes if hist.get(c, 0) == 0]
    return {"programs": len(sources), "unparsable": bad, "interpreter_node_classes": len(classes),
            "covered": len(classes) - len(missing), "histogram": {k: hist[k] for k in sorted(hist)},
            "listed_never_in_corpus": sorted(c for c in missing if c in listed),
            "unlisted_uncovered": sorted(c for c in missing if c not in listed),
            "stale_listed": sorted(c for c in listed if hist.get(c, 0) > 0 or c not in classes),
            "grammar_blocks": grammar_blocks(), "blocks_without_carrier_template": unsupported_blocks()}
