"""C02 sweep (the property's own oracle; deterministic, not a proof): every public rule function of pyrefact is run,
in isolation, on (a) its repository example inputs harvested at run time from $VERIF_REPO/tests/unit and (b) closed
deterministic trigger programs; the program is executed before and after in a subprocess and stdout + normal
termination are compared.  Failures on the unchanged tree are matched against KNOWN_FINDINGS.txt by (site, sig)."""
from __future__ import annotations

import ast
import inspect
import json
import os
import re
import subprocess
import sys
import types
import warnings
from collections import Counter
from concurrent.futures import ThreadPoolExecutor
from pathlib import Path

from . import common, pipeline
from .c02_triggers import TRIGGERS

PID = "C02"
TIMEOUT = 10


def rule_functions(mods):
    """{module.name: callable} for every public rule function: (i) every attribute `module.name` that
    main.py (format_code, _multi_run_fixes, ...) refers to, (ii) every public function of the stage modules whose
    first parameter is `source`."""
    rules, from_main = {}, set()
    main_src = inspect.getsource(mods["main"])
    for node in ast.walk(ast.parse(main_src)):
        if (isinstance(node, ast.Attribute) and isinstance(node.value, ast.Name)
                and node.value.id in pipeline.STAGE_MODULES):
            fn = getattr(mods[node.value.id], node.attr, None)
            if callable(fn) and not isinstance(fn, type):
                from_main.add(f"{node.value.id}.{node.attr}")
    for m in pipeline.STAGE_MODULES:
        mod = mods[m]
        for name, fn in vars(mod).items():
            if name.startswith("_") or not callable(fn) or isinstance(fn, (type, types.ModuleType)):
                continue
            if getattr(fn, "__module__", None) != mod.__name__:
                continue
            try:
                params = list(inspect.signature(fn).parameters)
            except (TypeError, ValueError):
                continue
            key = f"{m}.{name}"
            if (params and params[0] == "source") or key in from_main:
                rules[key] = fn
    return rules, sorted(from_main)


def call_rule(fn, src):
    kw = {}
    for i, (name, p) in enumerate(inspect.signature(fn).parameters.items()):
        if i == 0 or p.default is not inspect.Parameter.empty:
            continue
        if p.kind in (p.VAR_POSITIONAL, p.VAR_KEYWORD):
            continue
        if name == "preserve":
            kw[name] = frozenset()
        elif name == "root_is_static":
            kw[name] = True
        else:
            raise TypeError(f"unknown required parameter {name}")
    return fn(src, **kw)


def harvest(wd: Path):
    out = wd / "harvest.json"
    unit = common.REPO / "tests" / "unit"
    scripts = sorted(str(p) for p in unit.glob("test_*.py"))
    env = dict(os.environ, PYTHONHASHSEED="0", PYTHONDONTWRITEBYTECODE="1")
    r = subprocess.run([sys.executable, "-m", "harness.c02_harvest", str(common.REPO), str(out), *scripts],
                       cwd=str(common.VERIF), env=env, capture_output=True, text=True, timeout=600)
    if r.returncode or not out.exists():
        return {}, {"error": (r.stdout + r.stderr)[-1500:]}
    d = json.loads(out.read_text())
    return d["examples"], d["status"]


_ADDR = re.compile(r"0x[0-9a-fA-F]+")
_NONDET = re.compile(r"\b(random|time|datetime|uuid|secrets|urandom|getpid|id|hash|threading|asyncio)\b")


def run_exec(src: str, cwd: str):
    """-> (status, stdout) with status 'ok' | 'exc:<last stderr line>' | 'timeout'"""
    env = {"PYTHONHASHSEED": "0", "PATH": os.environ.get("PATH", ""), "PYTHONDONTWRITEBYTECODE": "1"}
    try:
        r = subprocess.run([sys.executable, "-I", "-c", src], cwd=cwd, env=env, capture_output=True, text=True,
                           timeout=TIMEOUT, stdin=subprocess.DEVNULL)
    except subprocess.TimeoutExpired:
        return "timeout", ""
    out = _ADDR.sub("0x?", r.stdout)
    if r.returncode == 0:
        return "ok", out
    last = (r.stderr.strip().splitlines() or ["?"])[-1]
    return "exc:" + last.split(":")[0], out


# Prelude for repository examples that are not closed programs (undefined free names): plain ints / lists / dicts /
# functions only, no imports of names a rule may introduce.  The prelude of a case is the concatenation (fixed order)
# of the definitions of those PRELUDE_DEFS names the ORIGINAL text loads; the same text is put in front of the
# original and of the rule's output, and the pair only counts when the original then terminates normally.
PRELUDE_DEFS: dict = {
    **{n: f"{n} = {v}\n" for n, v in (
        ("a", 1), ("b", 2), ("c", 3), ("e", 4), ("h", 500), ("i", 0), ("j", 1), ("k", 2), ("m", 3), ("n", 4),
        ("p", 0), ("q", 1), ("r", 2), ("s", 3), ("t", 1), ("u", 2), ("v", 0), ("w", 7), ("x", 5), ("y", -2), ("z", 0),
        ("A", 3), ("B", 2), ("C", 1), ("N", 4), ("hqx", 1000), ("one", 1), ("two", 2), ("three", 3),
        ("left", "[[1, 2], [3, 4]]"), ("right", "[[5, 6], [7, 8]]"),
        ("d", "{1: 2, 3: 0, 0: 5}"), ("dd", "{1: 2}"), ("l", "[3, 0, 2]"), ("lst", "[3, 0, 2]"), ("values", "[3, 0, 2]"),
        ("iterator", "[(1, 2), (0, 3)]"), ("iterable", "[3, 0, 2]"), ("items", "[3, 0, 2]"), ("data", "[3, 0, 2]"),
        ("seq", "[3, 0, 2]"), ("xs", "[3, 0, 2]"), ("ys", "[1, 1, 0]"), ("args", "(1, 2)"), ("kwargs", "{}"),
        ("baz", 0), ("spam", "'spam'"), ("eggs", "''"), ("name", "'name'"), ("text", "'a b'"), ("value", 3),
    )},
    **{n: f"def {n}(*args, **kwargs):\n    return len(args) + len(kwargs)\n" for n in (
        "f", "g", "foo", "bar", "func", "function", "do_stuff", "doing_other_stuff", "do_something", "sketchy_function",
        "complicated_condition", "some_function", "fn", "callback", "process", "test", "condition", "wombat")},
    **{n: f"import {n}\n" for n in ("ast", "functools", "itertools", "logging", "math", "os", "re", "sys")},
    "logger": "import logging as _logging_\nlogger = _logging_.getLogger('sweep')\n",
    "log": "import logging as _logging_\nlog = _logging_.getLogger('sweep')\n",
    "iter_user_logins": "def iter_user_logins():\n    return iter([('u', 1), ('v', 0)])\n",
}


def prelude_for(src: str) -> str:
    try:
        with warnings.catch_warnings():
            warnings.simplefilter("ignore")
            tree = ast.parse(src)
    except (SyntaxError, ValueError):
        return ""
    loaded = {n.id for n in ast.walk(tree) if isinstance(n, ast.Name) and isinstance(n.ctx, ast.Load)}
    return "".join(text for name, text in PRELUDE_DEFS.items() if name in loaded)


def compare_exec(before: str, after: str, cwd: str | None = None, complete_imports=None, use_prelude: bool = True):
    """complete_imports: fixes.add_missing_imports (the stage of format_code that adds `import collections` etc. for
    names a rule introduced); when the output fails with NameError it is tried again after that stage and the result
    is reported as class 'same-after-import-completion' (matched by finding sig=needs_import_completion).
    use_prelude: when the original raises NameError, before and after are tried again behind prelude_for(before)."""
    cwd = cwd or str(common.WORK)
    a = run_exec(before, cwd)
    pre = ""
    if a[0] == "exc:NameError" and use_prelude:
        pre = prelude_for(before)
        if pre:
            a = run_exec(pre + before, cwd)
    if a[0] != "ok":
        return {"class": "not-executable", "before_status": a[0], "prelude": bool(pre)}
    b = run_exec(pre + after, cwd)
    if a == b:
        return {"class": "same", "stdout": a[1][:200], "prelude": bool(pre)}
    if _NONDET.search(before) or run_exec(pre + before, cwd) != a:
        return {"class": "nondeterministic", "prelude": bool(pre)}      # outside the class of closed deterministic programs
    res = {"class": "DIFFERENT", "before_status": a[0], "before_stdout": a[1][:600],
           "after_status": b[0], "after_stdout": b[1][:600], "prelude": bool(pre)}
    if b[0] == "exc:NameError" and complete_imports is not None:
        try:
            with common.quiet():
                after2 = complete_imports(after)
            b2 = run_exec(pre + after2, cwd)
        except Exception:  # noqa
            b2 = None
        if b2 is not None and b2[0] == "exc:ModuleNotFoundError":
            # the completed import is a third-party module that is not installed here (numpy, pandas): no verdict
            return {"class": "after-needs-uninstalled-module", "prelude": bool(pre)}
        res["same_after_import_completion"] = b2 == a
    return res


# ------------------------------------------------------------------------------------------------
# structural predicates of known findings (sig= field).  case = dict(rule, source, output, origin, result)


def _has(src, pat):
    return re.search(pat, src, flags=re.S) is not None


def _sig_needs_import_completion(c):
    # the rule introduced a qualified stdlib name (collections.defaultdict, heapq.nlargest, ...) and relies on the
    # add_missing_imports stage: in isolation the output raises NameError, after that stage it behaves as before
    return c["result"].get("after_status") == "exc:NameError" and c["result"].get("same_after_import_completion") is True


def _sig_lambda_eager_name(c):
    # `lambda *a: w(*a)` -> `w`: the name is now looked up when the lambda expression is evaluated
    return (c["result"].get("after_status") == "exc:NameError" and "lambda" in c["source"]
            and c["output"].count("lambda") < c["source"].count("lambda"))


def _sig_zip_truncation(c):
    # an unused zip argument is dropped although it may be the shortest one: more iterations afterwards
    r = c["result"]
    return ("zip(" in c["source"] and r.get("after_status") == "ok" and r["after_stdout"].startswith(r["before_stdout"])
            and len(r["after_stdout"]) > len(r["before_stdout"]))


SIGS: dict = {"zip_truncation": _sig_zip_truncation, "needs_import_completion": _sig_needs_import_completion, "lambda_eager_name": _sig_lambda_eager_name}


def match_finding(kf, case):
    for f in kf:
        if f.kind != "finding" or f.fields.get("site") not in (case["rule"], "*"):
            continue
        pred = SIGS.get(f.fields.get("sig", ""))
        try:
            if pred and pred(case):
                return f
        except Exception:  # noqa
            continue
    return None


# ------------------------------------------------------------------------------------------------


def sweep(run, mods, wd: Path, kf, hist: Counter, only=None):
    rules, from_main = rule_functions(mods)
    examples, status = harvest(wd)
    cwd = wd / "exec"
    cwd.mkdir(exist_ok=True)
    jobs = []       # (rule, origin, source)
    for name in sorted(rules):
        if only and not any(a in name for a in only):
            continue
        for i, src in enumerate(examples.get(name, [])):
            jobs.append((name, f"repo-example#{i}", src))
        for i, src in enumerate(TRIGGERS.get(name, [])):
            jobs.append((name, f"trigger#{i}", src))
    # 1. apply the rules (in process, sequential: rules share the parse cache)
    applied = []
    per_rule = {n: Counter() for n in rules}
    not_rewrite = set()      # functions whose result is not a str (tracing.get_imported_names, ...): not rewrite rules
    for name in sorted(rules):
        probe = "x = 1\nprint(x)\n"
        mods["core"].parse.cache_clear()
        for arg in (probe, ast.parse(probe)):
            try:
                with common.quiet():
                    out = call_rule(rules[name], arg)
            except Exception:  # noqa
                continue
            if not isinstance(out, str):
                not_rewrite.add(name)
            break
    for (name, origin, src) in jobs:
        mods["core"].parse.cache_clear()
        try:
            with warnings.catch_warnings():
                warnings.simplefilter("ignore")
                compile(src, "<sweep>", "exec")
        except (SyntaxError, ValueError):
            per_rule[name]["input-not-python"] += 1
            continue
        try:
            with common.quiet():
                out = call_rule(rules[name], src)
        except Exception as e:  # noqa   (totality is C04's business)
            per_rule[name]["rule-raised:" + type(e).__name__] += 1
            continue
        if not isinstance(out, str):
            not_rewrite.add(name)
            continue
        if out == src:
            per_rule[name]["unchanged"] += 1
            continue
        per_rule[name]["fired"] += 1
        applied.append((name, origin, src, out))

    # 2. execute before/after
    add_imports = mods["fixes"].add_missing_imports
    def work(item):
        name, origin, src, out = item
        return compare_exec(src, out, str(cwd), add_imports)
    with ThreadPoolExecutor(max_workers=min(8, common.NCPU)) as ex:
        results = list(ex.map(work, applied))
    failures, known, known_example = [], Counter(), {}
    executions = with_prelude = 0
    for n in not_rewrite:
        rules.pop(n)
        per_rule.pop(n)
    for (name, origin, src, out), res in zip(applied, results):
        executions += {"not-executable": 1, "same": 2}.get(res["class"], 3) + (1 if res.get("prelude") else 0)
        per_rule[name][res["class"]] += 1
        if res.get("prelude") and res["class"] in ("same", "DIFFERENT"):
            per_rule[name]["with-prelude"] += 1
            with_prelude += 1
        if res["class"] != "DIFFERENT":
            continue
        case = {"rule": name, "site": name, "origin": origin, "source": src, "output": out, "result": res}
        f = match_finding(kf, case)
        if f is None:
            failures.append(case)
        else:
            known[f.id] += 1
            known_example.setdefault(f.id, case)
    summary = {
        "rule_functions": len(rules), "reached_from_main": len(from_main),
        "repo_examples": sum(len(v) for k, v in examples.items() if k in rules),
        "repo_example_rules": len([k for k in examples if k in rules]),
        "trigger_programs": sum(len(v) for v in TRIGGERS.values()),
        "applications_that_changed_the_text": len(applied),
        "executed_pairs_compared": sum(per_rule[n]["same"] + per_rule[n]["DIFFERENT"] for n in rules),
        "executed_with_prelude": with_prelude,
        "not_rewrite_rules": sorted(not_rewrite),
        "not_executable_before": sum(per_rule[n]["not-executable"] for n in rules),
        "different": sum(per_rule[n]["DIFFERENT"] for n in rules),
        "rules_without_any_executed_pair": sorted(n for n in rules if not (per_rule[n]["same"] + per_rule[n]["DIFFERENT"])),
        "per_rule": {n: dict(c) for n, c in sorted(per_rule.items())},
        "harvest_scripts": len(status), "harvest_script_problems": {k: v for k, v in status.items() if v not in (0, "no-main")},
    }
    hist["sweep:same"] += summary["executed_pairs_compared"] - summary["different"]
    hist["sweep:different"] += summary["different"]
    hist["sweep:not-executable"] += summary["not_executable_before"]
    return {"rules": sorted(rules), "executions": executions, "fired": len(applied), "failures": failures,
            "known": known, "known_example": known_example, "summary": summary}


def main(argv):
    """stand-alone run of the sweep (debugging / triage):  VERIF_REPO=... python -m harness.c02_sweep [rule-substring]"""
    run = common.Run(PID, "quick", 0)
    wd = common.workdir(PID + "sw")
    mods = common.import_impl()
    kf = common.load_findings(PID)
    hist = Counter()
    global TRIGGERS
    if argv:
        TRIGGERS = {k: v for k, v in TRIGGERS.items() if any(a in k for a in argv)}
    res = sweep(run, mods, wd, kf, hist, only=argv or None)
    s = res["summary"]
    print(json.dumps({k: v for k, v in s.items() if k != "per_rule"}, indent=1))
    for n, c in s["per_rule"].items():
        if not argv or any(a in n for a in argv):
            print(n, c)
    print("known:", dict(res["known"]))
    for c in res["failures"]:
        print("=" * 100)
        print("FAILURE", c["rule"], c["origin"])
        print(c["source"])
        print("--->")
        print(c["output"])
        print(json.dumps(c["result"], indent=1))
    return 1 if res["failures"] else 0


if __name__ == "__main__":
    sys.exit(main(sys.argv[1:]))
