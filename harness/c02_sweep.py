"""C02 sweep (the property's own oracle; deterministic, not a proof): every public rule function of pyrefact is run,
in isolation, on (a) its repository example inputs harvested at run time from $VERIF_REPO/tests/unit and (b) closed
deterministic trigger programs; the program is executed before and after in a subprocess and stdout + normal
termination are compared.  Failures on the unchanged tree are matched against KNOWN_FINDINGS.txt by (site, sig)."""
from __future__ import annotations

import ast
import inspect
import json
import os
import re
import subprocess
import sys
import threading
import types
import warnings
from collections import Counter
from concurrent.futures import ThreadPoolExecutor
from pathlib import Path

from . import common, pipeline
from .c02_triggers import TRIGGERS

PID = "C02"
TIMEOUT = 6


def rule_functions(mods):
    """{module.name: callable} for every public rule function: (i) every attribute `module.name` that
    main.py (format_code, _multi_run_fixes, ...) refers to, (ii) every public function of the stage modules whose
    first parameter is `source`."""
    rules, from_main = {}, set()
    main_src = inspect.getsource(mods["main"])
    for node in ast.walk(ast.parse(main_src)):
        if (isinstance(node, ast.Attribute) and isinstance(node.value, ast.Name)
                and node.value.id in pipeline.STAGE_MODULES):
            fn = getattr(mods[node.value.id], node.attr, None)
            if callable(fn) and not isinstance(fn, type):
                from_main.add(f"{node.value.id}.{node.attr}")
    for m in pipeline.STAGE_MODULES:
        mod = mods[m]
        for name, fn in vars(mod).items():
            if name.startswith("_") or not callable(fn) or isinstance(fn, (type, types.ModuleType)):
                continue
            if getattr(fn, "__module__", None) != mod.__name__:
                continue
            try:
                params = list(inspect.signature(fn).parameters)
            except (TypeError, ValueError):
                continue
            key = f"{m}.{name}"
            if (params and params[0] == "source") or key in from_main:
                rules[key] = fn
    return rules, sorted(from_main)


def call_rule(fn, src):
    kw = {}
    for i, (name, p) in enumerate(inspect.signature(fn).parameters.items()):
        if i == 0 or p.default is not inspect.Parameter.empty:
            continue
        if p.kind in (p.VAR_POSITIONAL, p.VAR_KEYWORD):
            continue
        if name == "preserve":
            kw[name] = frozenset()
        elif name == "root_is_static":
            kw[name] = True
        else:
            raise TypeError(f"unknown required parameter {name}")
    return fn(src, **kw)


def harvest(wd: Path):
    out = wd / "harvest.json"
    unit = common.REPO / "tests" / "unit"
    scripts = sorted(str(p) for p in unit.glob("test_*.py"))
    env = dict(os.environ, PYTHONHASHSEED="0", PYTHONDONTWRITEBYTECODE="1")
    r = subprocess.run([sys.executable, "-m", "harness.c02_harvest", str(common.REPO), str(out), *scripts],
                       cwd=str(common.VERIF), env=env, capture_output=True, text=True, timeout=600)
    if r.returncode or not out.exists():
        return {}, {"error": (r.stdout + r.stderr)[-1500:]}
    d = json.loads(out.read_text())
    return d["examples"], d["status"]


_ADDR = re.compile(r"0x[0-9a-fA-F]+")
_NONDET_SURE = re.compile(r"\b(uuid|secrets|urandom|getpid|perf_counter|monotonic|SystemRandom)\b")   # not executed at all
_SEED = "import random as _sweep_random_\n_sweep_random_.seed(0)\ndel _sweep_random_\n"   # in front of programs that use `random`
_NONDET = re.compile(r"\b(time|datetime|uuid|secrets|urandom|getpid|id|hash|threading|asyncio)\b")


def run_exec(src: str, cwd: str, timeout: float | None = None):
    """-> (status, stdout) with status 'ok' | 'exc:<last stderr line>' | 'timeout'"""
    env = {"PYTHONHASHSEED": "0", "PATH": os.environ.get("PATH", ""), "PYTHONDONTWRITEBYTECODE": "1"}
    try:
        r = subprocess.run([sys.executable, "-I", "-c", src], cwd=cwd, env=env, capture_output=True, text=True,
                           timeout=timeout or TIMEOUT, stdin=subprocess.DEVNULL)
    except subprocess.TimeoutExpired:
        return "timeout", ""
    out = _ADDR.sub("0x?", r.stdout)
    if r.returncode == 0:
        return "ok", out
    last = (r.stderr.strip().splitlines() or ["?"])[-1]
    return "exc:" + last.split(":")[0], out


# Fast path of the sweep: one helper interpreter per worker forks a child per program instead of starting a new
# interpreter (the start-up dominates the cost of the sweep).  Only an "identical before/after" verdict of the fast
# path is final; every difference is re-established with run_exec (a fresh `python -I -c`) before it is reported.
_SERVER_SRC = r"""
import atexit, json, os, resource, signal, sys, tempfile, types
def child(src, cwd, out_path, st_w):
    status = "ok"
    try:
        os.setsid()
        fd = os.open(out_path, os.O_WRONLY | os.O_CREAT | os.O_TRUNC, 0o600)
        os.dup2(fd, 1)
        nul = os.open(os.devnull, os.O_RDWR)
        os.dup2(nul, 0)
        os.dup2(nul, 2)
        resource.setrlimit(resource.RLIMIT_FSIZE, (8 << 20, 8 << 20))
        os.chdir(cwd)
        enc, err = sys.__stdout__.encoding, sys.__stdout__.errors
        sys.stdin = open(0, "r", closefd=False)
        sys.stdout = sys.__stdout__ = open(1, "w", encoding=enc, errors=err, closefd=False)
        sys.stderr = sys.__stderr__ = open(2, "w", closefd=False)
        sys.argv = ["-c"]
        main = types.ModuleType("__main__")
        sys.modules["__main__"] = main
        try:
            exec(compile(src, "<string>", "exec"), main.__dict__)
        except SystemExit as e:
            if e.code not in (None, 0):
                status = "exc:SystemExit"
        except BaseException as e:
            status = "exc:" + type(e).__name__
        try:
            atexit._run_exitfuncs()
            sys.stdout.flush()
        except BaseException as e:
            if status == "ok":
                status = "exc:" + type(e).__name__
    except BaseException as e:
        status = "crash:" + type(e).__name__
    try:
        os.write(st_w, status.encode())
    finally:
        os._exit(0)
def main():
    tmp = tempfile.mkdtemp(prefix="c02srv")
    out_path = os.path.join(tmp, "out")
    for line in sys.stdin:
        job = json.loads(line)
        st_r, st_w = os.pipe()
        pid = os.fork()
        if pid == 0:
            os.close(st_r)
            child(job["src"], job["cwd"], out_path, st_w)
        os.close(st_w)
        timed_out = []
        def on_alarm(*_):
            timed_out.append(1)
            try:
                os.killpg(pid, signal.SIGKILL)
            except OSError:
                pass
            try:
                os.kill(pid, signal.SIGKILL)
            except OSError:
                pass
        signal.signal(signal.SIGALRM, on_alarm)
        signal.setitimer(signal.ITIMER_REAL, job["timeout"])
        while True:
            try:
                _, wst = os.waitpid(pid, 0)
                break
            except InterruptedError:
                continue
        signal.setitimer(signal.ITIMER_REAL, 0)
        status = os.read(st_r, 200).decode() or "crash:signal"
        os.close(st_r)
        if timed_out:
            status = "timeout"
        try:
            with open(out_path, "rb") as fh:
                out = fh.read(1 << 20).decode("utf-8", "replace")
        except OSError:
            out = ""
        sys.stdout.write(json.dumps({"status": status, "stdout": out}) + "\n")
        sys.stdout.flush()
main()
"""


class ForkRunner:
    """callable (src, cwd) -> (status, stdout) like run_exec, through a helper interpreter that forks per program"""

    def __init__(self):
        env = {"PYTHONHASHSEED": "0", "PATH": os.environ.get("PATH", ""), "PYTHONDONTWRITEBYTECODE": "1"}
        self.p = subprocess.Popen([sys.executable, "-I", "-u", "-c", _SERVER_SRC], stdin=subprocess.PIPE,
                                  stdout=subprocess.PIPE, stderr=subprocess.DEVNULL, env=env, text=True)
        self.calls = 0

    def __call__(self, src: str, cwd: str, timeout: float | None = None):
        if self.p is None:
            return run_exec(src, cwd, timeout)
        try:
            self.p.stdin.write(json.dumps({"src": src, "cwd": cwd, "timeout": timeout or TIMEOUT}) + "\n")
            self.p.stdin.flush()
            line = self.p.stdout.readline()
            res = json.loads(line)
        except (OSError, ValueError):
            self.close()
            return run_exec(src, cwd, timeout)
        self.calls += 1
        return res["status"], _ADDR.sub("0x?", res["stdout"])

    def close(self):
        p, self.p = self.p, None
        if p is not None:
            try:
                p.stdin.close()
                p.wait(timeout=5)
            except Exception:  # noqa
                p.kill()


# Prelude for repository examples that are not closed programs (undefined free names): plain ints / lists / dicts /
# functions only, no imports of names a rule may introduce.  The prelude of a case is the concatenation (fixed order)
# of the definitions of those PRELUDE_DEFS names the ORIGINAL text loads; the same text is put in front of the
# original and of the rule's output, and the pair only counts when the original then terminates normally.
PRELUDE_DEFS: dict = {
    **{n: f"{n} = {v}\n" for n, v in (
        ("a", 1), ("b", 2), ("c", 3), ("e", 4), ("h", 500), ("i", 0), ("j", 1), ("k", 2), ("m", 3), ("n", 4),
        ("p", 0), ("q", 1), ("r", 2), ("s", 3), ("t", 1), ("u", 2), ("v", 0), ("w", 7), ("x", 5), ("y", -2), ("z", 0),
        ("A", 3), ("B", 2), ("C", 1), ("N", 4), ("hqx", 1000), ("one", 1), ("two", 2), ("three", 3),
        ("left", "[[1, 2], [3, 4]]"), ("right", "[[5, 6], [7, 8]]"),
        ("d", "{1: 2, 3: 0, 0: 5}"), ("dd", "{1: 2}"), ("l", "[3, 0, 2]"), ("lst", "[3, 0, 2]"), ("values", "[3, 0, 2]"),
        ("iterator", "[(1, 2), (0, 3)]"), ("iterable", "[3, 0, 2]"), ("items", "[3, 0, 2]"), ("data", "[3, 0, 2]"),
        ("seq", "[3, 0, 2]"), ("xs", "[3, 0, 2]"), ("ys", "[1, 1, 0]"), ("args", "(1, 2)"), ("kwargs", "{}"),
        ("baz", 0), ("spam", "'spam'"), ("eggs", "''"), ("name", "'name'"), ("text", "'a b'"), ("value", 3),
    )},
    **{n: f"def {n}(*args, **kwargs):\n    return len(args) + len(kwargs)\n" for n in (
        "f", "g", "foo", "bar", "func", "function", "do_stuff", "doing_other_stuff", "do_something", "sketchy_function",
        "complicated_condition", "some_function", "fn", "callback", "process", "test", "condition", "wombat")},
    **{n: f"import {n}\n" for n in ("ast", "functools", "itertools", "logging", "math", "os", "re", "sys")},
    "logger": "import logging as _logging_\nlogger = _logging_.getLogger('sweep')\n",
    "log": "import logging as _logging_\nlog = _logging_.getLogger('sweep')\n",
    "iter_user_logins": "def iter_user_logins():\n    return iter([('u', 1), ('v', 0)])\n",
}


def prelude_for(src: str) -> str:
    try:
        with warnings.catch_warnings():
            warnings.simplefilter("ignore")
            tree = ast.parse(src)
    except (SyntaxError, ValueError):
        return ""
    loaded = {n.id for n in ast.walk(tree) if isinstance(n, ast.Name) and isinstance(n.ctx, ast.Load)}
    return "".join(text for name, text in PRELUDE_DEFS.items() if name in loaded)


def _compare(before, after, cwd, complete_imports, use_prelude, run, aux):
    """run: runner of the two decisive executions (before, after); aux: runner of the auxiliary ones (determinism
    re-run, run after import completion)"""
    if _NONDET_SURE.search(before):
        return {"class": "nondeterministic", "prelude": False}      # outside the class of closed deterministic programs
    seed = _SEED if re.search(r"\brandom\b", before) else ""
    a = run(seed + before, cwd)
    pre = seed
    if a[0] == "exc:NameError" and use_prelude:
        pre = seed + prelude_for(before)
        if pre != seed:
            a = run(pre + before, cwd)
    if a[0] != "ok":
        return {"class": "not-executable", "before_status": a[0], "prelude": pre != seed}
    b = run(pre + after, cwd)
    if b[0] == "timeout":       # the original finished in time: exclude a time-out that is due to the load of the machine
        b = aux(pre + after, cwd, 4 * TIMEOUT)
    if a == b:
        return {"class": "same", "stdout": a[1][:200], "prelude": pre != seed}
    if _NONDET.search(before) or (aux(pre + before, cwd) != a and run_exec(pre + before, cwd) != a):
        return {"class": "nondeterministic", "prelude": pre != seed}      # outside the class of closed deterministic programs
    res = {"class": "DIFFERENT", "before_status": a[0], "before_stdout": a[1][:600],
           "after_status": b[0], "after_stdout": b[1][:600], "prelude": pre != seed}
    if b[0] == "exc:NameError" and complete_imports is not None:
        try:
            with common.quiet():
                after2 = complete_imports(after)
            b2 = aux(pre + after2, cwd)
        except Exception:  # noqa
            b2 = None
        if b2 is not None and b2[0] == "exc:ModuleNotFoundError":
            # the completed import is a third-party module that is not installed here (numpy, pandas): no verdict
            return {"class": "after-needs-uninstalled-module", "prelude": pre != seed}
        res["same_after_import_completion"] = b2 == a
    return res


def compare_exec(before: str, after: str, cwd: str | None = None, complete_imports=None, use_prelude: bool = True,
                 fast=None):
    """complete_imports: fixes.add_missing_imports (the stage of format_code that adds `import collections` etc. for
    names a rule introduced); when the output fails with NameError it is tried again after that stage and the result
    is reported in 'same_after_import_completion' (matched by finding sig=needs_import_completion).
    use_prelude: when the original raises NameError, before and after are tried again behind prelude_for(before).
    fast: optional ForkRunner.  Its verdict is final only for 'same' and for an original that does not terminate
    normally; every other case is decided by fresh interpreters (run_exec) for the two decisive executions."""
    cwd = cwd or str(common.WORK)
    if fast is not None:
        res = _compare(before, after, cwd, complete_imports, use_prelude, fast, fast)
        if res["class"] in ("same", "not-executable"):
            return res
        return _compare(before, after, cwd, complete_imports, use_prelude, run_exec, fast)
    return _compare(before, after, cwd, complete_imports, use_prelude, run_exec, run_exec)


# ------------------------------------------------------------------------------------------------
# structural predicates of known findings (sig= field).  case = dict(rule, source, output, origin, result)


def _has(src, pat):
    return re.search(pat, src, flags=re.S) is not None


def _sig_cr_only_multiline_string(c):
    # the source uses bare carriage returns as line terminators and contains a string literal spanning lines; the
    # rewritten statement carries the literal with its line break replaced by blanks
    src = c["source"]
    if not re.search(r"\r(?!\n)", src):
        return False
    try:
        tree = ast.parse(src)
    except SyntaxError:
        return False
    multi = [n for n in ast.walk(tree) if isinstance(n, ast.Constant) and isinstance(n.value, str)
             and n.end_lineno > n.lineno]
    return bool(multi) and any(n.value not in c["output"] and n.value.replace("\n", "") != n.value for n in multi)


def _sig_needs_import_completion(c):
    # the rule introduced a qualified stdlib name (collections.defaultdict, heapq.nlargest, ...) and relies on the
    # add_missing_imports stage: in isolation the output raises NameError, after that stage it behaves as before
    return c["result"].get("after_status") == "exc:NameError" and c["result"].get("same_after_import_completion") is True


def _sig_zip_truncation(c):
    # an unused zip argument is dropped although it may be the shortest one: more iterations afterwards
    r = c["result"]
    return ("zip(" in c["source"] and r.get("after_status") == "ok" and r["after_stdout"].startswith(r["before_stdout"])
            and len(r["after_stdout"]) > len(r["before_stdout"]))


SIGS: dict = {"cr_only_multiline_string": _sig_cr_only_multiline_string, "zip_truncation": _sig_zip_truncation, "needs_import_completion": _sig_needs_import_completion}


def _sig(name):
    def deco(fn):
        SIGS[name] = fn
        return fn
    return deco


# ---- helpers of the predicates (all work on the ASTs of c["source"] / c["output"])

_MUTABLE = (ast.List, ast.Dict, ast.Set, ast.ListComp, ast.DictComp, ast.SetComp, ast.Call)
_COMPS = (ast.ListComp, ast.SetComp, ast.DictComp, ast.GeneratorExp)
_ORDER = {ast.Lt: ast.GtE, ast.LtE: ast.Gt, ast.Gt: ast.LtE, ast.GtE: ast.Lt}
_DEFS = (ast.FunctionDef, ast.AsyncFunctionDef, ast.ClassDef)


def _parse(text):
    try:
        with warnings.catch_warnings():
            warnings.simplefilter("ignore")
            return ast.parse(text)
    except (SyntaxError, ValueError):
        return ast.parse("")


_TREES: dict = {}


def _st(c):
    key = (c["source"], c["output"])
    if key not in _TREES:
        if len(_TREES) > 64:
            _TREES.clear()
        _TREES[key] = (_parse(c["source"]), _parse(c["output"]))
    return _TREES[key]


def _u(node):
    return ast.unparse(node)


def _w(tree, *types):
    return [n for n in ast.walk(tree) if isinstance(n, types)] if types else list(ast.walk(tree))


def _names(node, ctx=None):
    nodes = node if isinstance(node, list) else [node]
    return {n.id for x in nodes for n in ast.walk(x) if isinstance(n, ast.Name) and (ctx is None or isinstance(n.ctx, ctx))}


def _has_call(node):
    nodes = node if isinstance(node, list) else [node]
    return any(isinstance(n, ast.Call) for x in nodes for n in ast.walk(x))


def _bodies(tree):
    """every statement list of the tree"""
    for n in ast.walk(tree):
        for field in ("body", "orelse", "finalbody"):
            b = getattr(n, field, None)
            if isinstance(b, list) and b and isinstance(b[0], ast.stmt):
                yield n, b


def _stmts_text(tree):
    return {_u(st) for _, b in _bodies(tree) for st in b}


def _call_name(node):
    """dotted name of the callee of a Call, '' otherwise"""
    if isinstance(node, ast.Call):
        try:
            return _u(node.func)
        except Exception:  # noqa
            return ""
    return ""


def _calls(tree, *names):
    return [n for n in _w(tree, ast.Call) if _call_name(n) in names]


def _bound_names(tree):
    out = set()
    for n in ast.walk(tree):
        if isinstance(n, ast.Name) and isinstance(n.ctx, (ast.Store, ast.Del)):
            out.add(n.id)
        elif isinstance(n, _DEFS):
            out.add(n.name)
        elif isinstance(n, (ast.Import, ast.ImportFrom)):
            out.update((a.asname or a.name).split(".")[0] for a in n.names)
        elif isinstance(n, ast.arg):
            out.add(n.arg)
    return out


def _const_falsy(node):
    return isinstance(node, ast.Constant) and not node.value or (isinstance(node, (ast.Tuple, ast.List, ast.Dict)) and not getattr(node, "elts", getattr(node, "keys", None)))


def _order_compares(nodes):
    out = set()
    for node in nodes:
        for n in ast.walk(node):
            if isinstance(n, ast.Compare) and len(n.ops) == 1 and type(n.ops[0]) in _ORDER:
                out.add((_u(n.left), type(n.ops[0]), _u(n.comparators[0])))
    return out


def _status(c, *kinds):
    return c["result"].get("after_status") in {"exc:" + k for k in kinds}


# ---- control flow

@_sig("lambda_eager_name")
def _sig_lambda_eager_name(c):
    # `lambda *a: w(*a)` -> `w`: the name is now looked up when the lambda expression is evaluated
    if not ("lambda" in c["source"] and c["output"].count("lambda") < c["source"].count("lambda")):
        return False
    if c["result"].get("after_status") == "exc:NameError":
        return True
    src, _ = _st(c)
    for lam in _w(src, ast.Lambda):        # ... or it is rebound between the lambda expression and the call
        if isinstance(lam.body, ast.Call) and isinstance(lam.body.func, ast.Name):
            w = lam.body.func.id
            binders = [n for n in ast.walk(src) if (isinstance(n, _DEFS) and n.name == w)
                       or (isinstance(n, ast.Name) and n.id == w and isinstance(n.ctx, ast.Store))]
            if any(b.lineno > lam.lineno for b in binders):
                return True
    return False


@_sig("common_stmt_hoisted_over_test")
def _sig_common_stmt_hoisted_over_test(c):
    # the statement that opens both branches is moved in front of the `if` although it interferes with the test
    src, out = _st(c)
    moved = set()
    for _, body in _bodies(src):
        for i, st in enumerate(body):
            if not isinstance(st, ast.If) or not st.body:
                continue
            other = st.orelse[0] if st.orelse else (body[i + 1] if i + 1 < len(body) else None)
            if other is None or _u(st.body[0]) != _u(other):
                continue
            s0, test = st.body[0], st.test
            if (_names(s0) & _names(test)) or (_has_call(s0) and _has_call(test)):
                moved.add((_u(s0), _u(test)))
    for _, body in _bodies(out):
        for a, b in zip(body, body[1:]):
            if isinstance(b, ast.If) and (_u(a), _u(b.test)) in moved:
                return True
    return False


def _boolish(t):
    if isinstance(t, ast.Compare) or (isinstance(t, ast.UnaryOp) and isinstance(t.op, ast.Not)):
        return True
    if isinstance(t, ast.BoolOp):
        return all(_boolish(v) for v in t.values)
    if isinstance(t, ast.Constant):
        return isinstance(t.value, bool)
    return _call_name(t) in ("bool", "isinstance", "issubclass", "callable", "hasattr", "any", "all")


@_sig("bool_coercion_dropped")
def _sig_bool_coercion_dropped(c):
    # `if T: return True / return False` (or v = True / v = False) -> `return T` (v = T): T itself instead of bool(T)
    if c["rule"] not in ("fixes.fix_if_return", "fixes.fix_if_assign"):
        return False
    src, out = _st(c)
    wanted = set()
    const = lambda n, v: isinstance(n, ast.Constant) and n.value is v   # noqa: E731
    for _, body in _bodies(src):
        for i, st in enumerate(body):
            if not isinstance(st, ast.If) or len(st.body) != 1 or _boolish(st.test):
                continue
            b0 = st.body[0]
            nxt = body[i + 1] if i + 1 < len(body) else None
            if (isinstance(b0, ast.Return) and const(b0.value, True) and not st.orelse
                    and isinstance(nxt, ast.Return) and const(nxt.value, False)):
                wanted.add("return " + _u(st.test))
            if (isinstance(b0, ast.Assign) and const(b0.value, True) and len(st.orelse) == 1
                    and isinstance(st.orelse[0], ast.Assign) and const(st.orelse[0].value, False)
                    and _u(b0.targets[0]) == _u(st.orelse[0].targets[0])):
                wanted.add(_u(b0.targets[0]) + " = " + _u(st.test))
    return bool(wanted & _stmts_text(out))


def _hoisted(c):
    """assignments of a loop body of the source that stand in front of that loop in the output -> [(assign, loop)]"""
    src, out = _st(c)
    header = lambda n: _u(n.test) if isinstance(n, ast.While) else _u(n.target) + " in " + _u(n.iter)   # noqa: E731
    loops = {}
    for n in _w(src, ast.For, ast.While):
        loops.setdefault(header(n), n)
    res = []
    for _, body in _bodies(out):
        for i, st in enumerate(body):
            if isinstance(st, (ast.For, ast.While)) and header(st) in loops:
                sl = loops[header(st)]
                inside = {_u(x): x for x in sl.body if isinstance(x, (ast.Assign, ast.AnnAssign))}
                still = {_u(x) for x in st.body}
                j = i - 1
                while j >= 0 and _u(body[j]) in inside and _u(body[j]) not in still:
                    res.append((inside[_u(body[j])], sl))
                    j -= 1
    return res


@_sig("hoist_out_of_zero_iteration_loop")
def _sig_hoist_zero_iterations(c):
    # a loop-invariant assignment is moved in front of a loop that may run zero times (the only way such a move
    # changes the behaviour: the value does not depend on the loop and is not a fresh mutable object)
    for a, loop in _hoisted(c):
        stored = _names(loop, ast.Store)
        if a.value is not None and not any(isinstance(n, _MUTABLE) for n in ast.walk(a.value)) and not (_names(a.value) & stored):
            return True
    return False


@_sig("hoist_fresh_mutable")
def _sig_hoist_fresh_mutable(c):
    # `y = []` (a NEW object per iteration) is moved in front of the loop: all iterations share one object
    return any(a.value is not None and isinstance(a.value, _MUTABLE) for a, _ in _hoisted(c))


@_sig("negated_ordering_comparison")
def _sig_negated_ordering_comparison(c):
    # fixes._negate_condition turns `a < b` into `a >= b`: not equivalent for partial orders (sets) and NaN
    if c["rule"] not in ("fixes.swap_if_else", "fixes.early_continue"):
        return False
    src, out = _st(c)
    s = _order_compares([n.test for n in _w(src, ast.If)])
    o = _order_compares([n.test for n in _w(out, ast.If)])
    return any((l, _ORDER[op], r) in o and (l, _ORDER[op], r) not in s for (l, op, r) in s)


@_sig("negated_numeric_comparison_nan")
def _sig_negated_numeric_nan(c):
    # `not a < 3` -> `a >= 3`: differs when a is NaN
    src, out = _st(c)
    s = _order_compares([n.operand for n in _w(src, ast.UnaryOp) if isinstance(n.op, ast.Not)])
    o = _order_compares([out])
    return bool(s) and any((l, _ORDER[op], r) in o for (l, op, r) in s) and bool(re.search(r"\bnan\b", c["source"], re.I))


def _dead_comps(tree):
    return [n for n in _w(tree, *_COMPS) if any(_const_falsy(i) for g in n.generators for i in g.ifs)]


@_sig("dead_generator_becomes_tuple")
def _sig_dead_generator_becomes_tuple(c):
    # a generator expression with an always-false condition is replaced by the tuple (): not an iterator
    src, out = _st(c)
    empty = lambda t: sum(1 for n in _w(t, ast.Tuple) if not n.elts)   # noqa: E731
    return any(isinstance(n, ast.GeneratorExp) for n in _dead_comps(src)) and empty(out) > empty(src) and _status(c, "TypeError", "AttributeError")


@_sig("dead_comprehension_iter_side_effect")
def _sig_dead_comprehension_iter_side_effect(c):
    # a comprehension with an always-false condition is replaced by an empty display: its iterable is not evaluated
    src, out = _st(c)
    return any(_has_call([g.iter for g in n.generators]) for n in _dead_comps(src)) and len(_w(out, *_COMPS)) < len(_w(src, *_COMPS))


# ---- deletion / definitions / imports

@_sig("dynamic_name_access")
def _sig_dynamic_name_access(c):
    # the rules assume that every use of a name is a Name/Attribute node of the text: a name that is only reached
    # through eval/exec/globals()/locals()/vars()/getattr is deleted or renamed
    src, out = _st(c)
    if not _calls(src, "eval", "exec", "globals", "locals", "vars", "getattr") or not _status(c, "NameError", "KeyError", "AttributeError"):
        return False
    lost = _bound_names(src) - _bound_names(out)
    star = any(isinstance(n, ast.ImportFrom) and n.names[0].name == "*" for n in ast.walk(src))
    strings = [n.value for n in _w(src, ast.Constant) if isinstance(n.value, str)]
    return any(re.search(r"\b%s\b" % re.escape(name), s) for name in lost for s in strings) or (star and bool(strings))


def _removed_defs(c):
    src, out = _st(c)
    kept = {n.name for n in _w(out, *_DEFS)}
    return [n for n in _w(src, *_DEFS) if n.name not in kept]


@_sig("deleted_definition_has_effect")
def _sig_deleted_definition_has_effect(c):
    # an unused function/class is deleted although executing its definition has an effect (decorator call, class body)
    for n in _removed_defs(c):
        if n.decorator_list or (isinstance(n, ast.ClassDef) and any(isinstance(b, ast.Expr) and _has_call(b) for b in n.body)):
            return True
    return False


@_sig("duck_typed_method_deleted")
def _sig_duck_typed_method_deleted(c):
    # a method whose name never occurs in the text is deleted although the instance is handed to code that calls it
    # (print(file=obj) -> obj.write, iteration, context managers of other libraries, ...)
    src, out = _st(c)
    kept = {n.name for n in _w(out, ast.ClassDef)}
    removed = {n.name for n in _removed_defs(c)}
    for cls in _w(src, ast.ClassDef):
        if cls.name in kept and any(isinstance(b, (ast.FunctionDef, ast.AsyncFunctionDef)) and b.name in removed for b in cls.body):
            return _status(c, "AttributeError", "TypeError")
    return False


@_sig("del_of_undefined_variable")
def _sig_del_of_undefined_variable(c):
    # `x = 1; del x`: the unused binding is removed and the `del` is rewritten to `del _`
    src, out = _st(c)
    d = lambda t: [n for n in _w(t, ast.Delete) if any(isinstance(x, ast.Name) and x.id == "_" for x in n.targets)]   # noqa: E731
    return len(d(out)) > len(d(src))


@_sig("hoisted_import_rebinds_global")
def _sig_hoisted_import_rebinds_global(c):
    # a function-local import is moved to module level where its name is also bound to something else
    src, out = _st(c)
    local = {(a.asname or a.name).split(".")[0] for f in _w(src, ast.FunctionDef, ast.AsyncFunctionDef)
             for n in _w(f, ast.Import, ast.ImportFrom) for a in n.names}
    top_out = {(a.asname or a.name).split(".")[0] for n in out.body if isinstance(n, (ast.Import, ast.ImportFrom)) for a in n.names}
    top_bound = {t.id for n in src.body if isinstance(n, (ast.Assign, ast.AnnAssign, ast.AugAssign))
                 for t in ast.walk(n) if isinstance(t, ast.Name) and isinstance(t.ctx, ast.Store)} | {n.name for n in src.body if isinstance(n, _DEFS)}
    return bool(local & top_out & top_bound)


@_sig("duplicate_function_defaults")
def _sig_duplicate_function_defaults(c):
    # functions with the same text are merged although their default values are evaluated separately (at different
    # times, and each definition owns its own default objects)
    return any(isinstance(n, ast.FunctionDef) and (n.args.defaults or any(d is not None for d in n.args.kw_defaults)) for n in _removed_defs(c))


@_sig("duplicate_function_parameter_names")
def _sig_duplicate_function_parameter_names(c):
    # functions that differ only in their parameter names are merged: keyword calls of the removed one break
    src, _ = _st(c)
    removed = {n.name for n in _removed_defs(c)}
    return any(isinstance(n.func, ast.Name) and n.func.id in removed and n.keywords for n in _w(src, ast.Call))


@_sig("submodule_import_removed")
def _sig_submodule_import_removed(c):
    # `import a.b` is removed as unused although importing it binds attribute b of the still used package a
    src, out = _st(c)
    dotted = lambda t: {a.name for n in _w(t, ast.Import) for a in n.names if "." in a.name and not a.asname}   # noqa: E731
    return any(name.split(".")[0] in _names(out, ast.Load) for name in dotted(src) - dotted(out))


@_sig("same_name_bound_by_two_imports")
def _sig_same_name_bound_by_two_imports(c):
    # two imports bind the same name to different modules: the last one wins, the rule keeps the first / reorders them
    if c["rule"] not in ("fixes.fix_duplicate_imports", "fixes.sort_imports"):
        return False
    src, _ = _st(c)
    seen = {}
    for n in _w(src, ast.Import, ast.ImportFrom):
        for a in n.names:
            origin = (getattr(n, "module", None), a.name)
            if seen.setdefault(a.asname or a.name.split(".")[0], origin) != origin:
                return True
    return False


@_sig("blank_lines_in_string_literal")
def _sig_blank_lines_in_string_literal(c):
    # the blank-line regular expressions run over the raw text, string literals included
    src, out = _st(c)
    strs = lambda t: sorted(n.value for n in _w(t, ast.Constant) if isinstance(n.value, str))   # noqa: E731
    return any(re.search(r"\n[ \t]*\n[ \t]*\n", v) for v in strs(src)) and strs(src) != strs(out)


@_sig("attribute_uses_not_renamed")
def _sig_attribute_uses_not_renamed(c):
    # a method / class attribute is renamed at its definition, its uses `obj.name` are not
    src, out = _st(c)
    members = lambda t: {getattr(b, "name", None) or x.id for cl in _w(t, ast.ClassDef) for b in cl.body   # noqa: E731
                         for x in ([b] if isinstance(b, _DEFS) else [y for y in ast.walk(b) if isinstance(y, ast.Name) and isinstance(y.ctx, ast.Store)])}
    gone = members(src) - members(out)
    return any(n.attr in gone for n in _w(out, ast.Attribute)) and _status(c, "AttributeError")


@_sig("rename_collision")
def _sig_rename_collision(c):
    # two different names are normalised to the same new name
    src, out = _st(c)
    top = lambda t: {x.id for n in t.body for x in ast.walk(n) if isinstance(x, ast.Name) and isinstance(x.ctx, ast.Store)} | {n.name for n in t.body if isinstance(n, _DEFS)}   # noqa: E731
    return len(top(out)) < len(top(src))


@_sig("introduced_name_error_clashes")
def _sig_introduced_name_error_clashes(c):
    # `except E:` -> `except E as error:` although the program already uses the name `error`
    src, out = _st(c)
    named = lambda t: sum(1 for h in _w(t, ast.ExceptHandler) if h.name == "error")   # noqa: E731
    return named(out) > named(src) and ("error" in _names(src) or any(a.arg == "error" for a in _w(src, ast.arg)))


@_sig("with_binds_enter_result")
def _sig_with_binds_enter_result(c):
    # `d = tempfile.TemporaryDirectory()` -> `with tempfile.TemporaryDirectory() as d`: d is the result of
    # __enter__ (the path string), not the object
    src, out = _st(c)
    w = [i for n in _w(out, ast.With) for i in n.items if _call_name(i.context_expr).endswith("TemporaryDirectory") and i.optional_vars is not None]
    return bool(w) and any(isinstance(n.value, ast.Call) and _call_name(n.value).endswith("TemporaryDirectory") for n in _w(src, ast.Assign))


@_sig("brace_format_passed_to_logging")
def _sig_brace_format_passed_to_logging(c):
    # f-string / str.format arguments of logging calls become `logging.info('a={}', a)`: logging formats with %
    _, out = _st(c)
    for n in _w(out, ast.Call):
        if isinstance(n.func, ast.Attribute) and n.func.attr in ("info", "debug", "warning", "error", "critical", "exception", "log"):
            fmt = [a for a in n.args if isinstance(a, ast.Constant) and isinstance(a.value, str)]
            if fmt and "{" in fmt[0].value and (len(n.args) > n.args.index(fmt[0]) + 1 or n.keywords) and _u(n) not in c["source"]:
                return True
    return False


@_sig("global_assignment_dropped")
def _sig_global_assignment_dropped(c):
    # `global x; x = v; return x` -> `return v`: the assignment to the global / nonlocal variable is lost
    src, out = _st(c)
    def count(t):
        res = Counter()
        for f in _w(t, ast.FunctionDef, ast.AsyncFunctionDef):
            shared = {name for g in _w(f, ast.Global, ast.Nonlocal) for name in g.names}
            for a in _w(f, ast.Assign, ast.AnnAssign, ast.AugAssign):
                for x in ast.walk(a):
                    if isinstance(x, ast.Name) and isinstance(x.ctx, ast.Store) and x.id in shared:
                        res[(f.name, x.id)] += 1
        return res
    cs, co = count(src), count(out)
    return any(co[k] < v for k, v in cs.items())


# ---- comparisons, comprehensions, collections

@_sig("eq_bool_to_is")
def _sig_eq_bool_to_is(c):
    # `x == True` / `x == False` -> `x is True` / `x is False`: 1 == True and 0 == False, but they are other objects
    src, _ = _st(c)
    return any(isinstance(op, (ast.Eq, ast.NotEq)) and isinstance(v, ast.Constant) and isinstance(v.value, bool)
               for n in _w(src, ast.Compare) for op, v in zip(n.ops, n.comparators))


@_sig("underscore_read_later")
def _sig_underscore_read_later(c):
    # the target `_` is removed although the program reads `_` afterwards
    src, out = _st(c)
    tgt = lambda t: sum(1 for n in _w(t, ast.For, ast.comprehension) for x in ast.walk(n.target) if isinstance(x, ast.Name) and x.id == "_")   # noqa: E731
    return "_" in _names(src, ast.Load) and tgt(out) < tgt(src)


@_sig("zip_longest_padding")
def _sig_zip_longest_padding(c):
    # an unused zip_longest argument is dropped although it may be the longest one: fewer iterations afterwards
    src, out = _st(c)
    n = lambda t: sum(len(x.args) for x in _w(t, ast.Call) if _call_name(x).endswith("zip_longest"))   # noqa: E731
    return n(out) < n(src)


def _loaded_after(tree, loop, names):
    end = loop.end_lineno
    return {n.id for n in _w(tree, ast.Name) if isinstance(n.ctx, ast.Load) and n.id in names and n.lineno > end}


@_sig("loop_variable_after_filter")
def _sig_loop_variable_after_filter(c):
    # `for x in it: if x: ...` -> `for x in filter(None, it)`: after the loop x is the last ACCEPTED element
    src, out = _st(c)
    if len(_calls(out, "filter")) <= len(_calls(src, "filter")):
        return False
    return any(_loaded_after(src, n, _names(n.target)) for n in src.body if isinstance(n, ast.For)) or any(
        _loaded_after(f, n, _names(n.target)) for f in _w(src, ast.FunctionDef) for n in _w(f, ast.For))


@_sig("generator_argument_parentheses_lost")
def _sig_generator_argument_parentheses_lost(c):
    # `list(x for x in y)`: the generator expression that is the sole argument of a call is replaced together with
    # the parentheses of the call -> `listiter(y)` (text replacement over the range of the GeneratorExp node)
    pat = r"\b(list|tuple|set|frozenset|sorted|sum|max|min|any|all|dict|enumerate|iter|next|len)(iter|list|set|tuple|dict)\("
    return re.search(pat, c["output"]) is not None and re.search(pat, c["source"]) is None


@_sig("dictcomp_over_mapping_to_dict")
def _sig_dictcomp_over_mapping_to_dict(c):
    # `{k: v for k, v in d}` -> `dict(d)`: for a mapping d the comprehension unpacks the KEYS, dict(d) copies d
    src, out = _st(c)
    for n in _w(src, ast.DictComp):
        g = n.generators[0]
        if len(n.generators) == 1 and isinstance(g.target, ast.Tuple) and isinstance(g.iter, ast.Name) and _calls(out, "dict"):
            if any(_u(a) == g.iter.id for x in _calls(out, "dict") for a in x.args):
                return True
    return False


@_sig("dictcomp_cast_loses_insertion_order")
def _sig_dictcomp_cast_loses_insertion_order(c):
    # `list({k: v for ...})` -> `list({k for ...})`: the keys of a dict keep their insertion order, a set does not
    src, _ = _st(c)
    return any(x.args and isinstance(x.args[0], ast.DictComp) for x in _calls(src, "list", "iter"))


@_sig("iter_of_empty_chain")
def _sig_iter_of_empty_chain(c):
    # `iter(itertools.chain())` -> `iter()` (TypeError)
    src, out = _st(c)
    n = lambda t: sum(1 for x in _calls(t, "iter") if not x.args)   # noqa: E731
    return n(out) > n(src)


_FOLDING_RULES = ("fixes.replace_collection_add_update_with_collection_literal", "fixes.replace_dict_assign_with_dict_literal",
                  "fixes.replace_dict_update_with_dict_literal", "fixes.replace_dictcomp_assign_with_dict_literal",
                  "fixes.replace_dictcomp_update_with_dict_literal", "fixes.replace_for_loops_with_dict_comp",
                  "fixes.replace_for_loops_with_set_list_comp", "fixes.replace_listcomp_append_with_plus",
                  "fixes.replace_setcomp_add_with_union", "fixes.replace_nested_loops_with_set_list_comp")


@_sig("accumulator_reads_itself")
def _sig_accumulator_reads_itself(c):
    # `t = init` and the statements that fill t are folded into ONE expression although they read t: in the folded
    # expression t is not bound yet (NameError) or is the previous value
    if c["rule"] not in _FOLDING_RULES:
        return False
    src, out = _st(c)
    old = _stmts_text(src)
    for a in _w(out, ast.Assign):
        t = a.targets[0]
        if isinstance(t, ast.Name) and t.id in _names(a.value, ast.Load) and _u(a) not in old:
            first = [x for x in _w(src, ast.Assign) if isinstance(x.targets[0], ast.Name) and x.targets[0].id == t.id]
            if first and t.id not in _names(first[0].value, ast.Load):
                return True
    return False


def _bound_outside_comprehensions(tree):
    inside = {id(x) for n in _w(tree, *_COMPS) for x in ast.walk(n)}
    return {n.id for n in _w(tree, ast.Name) if isinstance(n.ctx, ast.Store) and id(n) not in inside}


@_sig("loop_variable_read_after_loop")
def _sig_loop_variable_read_after_loop(c):
    # a for loop becomes a comprehension: its loop variables / temporaries are not bound after it any more
    if c["rule"] not in _FOLDING_RULES:
        return False
    src, out = _st(c)
    still = {_u(n.target) + _u(n.iter) for n in _w(out, ast.For)}
    bound_out = _bound_outside_comprehensions(out)
    for scope in [src] + _w(src, ast.FunctionDef):
        for n in _w(scope, ast.For):
            if _u(n.target) + _u(n.iter) not in still and _loaded_after(scope, n, _names(n, ast.Store) - bound_out):
                return True
    return False


def _aug_fold_targets(src):
    """[(init assign, AugAssign)] for `t = init` directly followed by a for loop whose innermost statement is `t op= v`"""
    res = []
    for _, body in _bodies(src):
        for a, loop in zip(body, body[1:]):
            if isinstance(a, ast.Assign) and isinstance(a.targets[0], ast.Name) and isinstance(loop, ast.For):
                inner = loop
                while isinstance(inner, (ast.For, ast.If)) and len(inner.body) == 1:
                    inner = inner.body[0]
                if isinstance(inner, ast.AugAssign) and isinstance(inner.target, ast.Name) and inner.target.id == a.targets[0].id:
                    res.append((a, inner))
    return res


@_sig("augassign_on_sequence_as_sum")
def _sig_augassign_on_sequence_as_sum(c):
    # `x = []` / `s = ''` ... `x += [i]` / `s += c` is folded like a numeric accumulation: [[i] for ...], sum(str)
    src, _ = _st(c)
    return any(isinstance(a.value, ast.List) or (isinstance(a.value, ast.Constant) and isinstance(a.value.value, str)) for a, _ in _aug_fold_targets(src))


@_sig("float_sum_reassociation")
def _sig_float_sum_reassociation(c):
    # `t = 0.1; for v in ...: t += v` -> `t = 0.1 + sum(...)`: another association of the float additions
    src, out = _st(c)
    r = c["result"]
    try:
        a, b = float(r["before_stdout"]), float(r["after_stdout"])
    except (ValueError, KeyError):
        return False
    return bool(_aug_fold_targets(src)) and len(_calls(out, "sum")) > len(_calls(src, "sum")) and a != b and abs(a - b) <= 1e-9 * max(abs(a), abs(b))


@_sig("non_update_call_folded_as_unpacking")
def _sig_non_update_call_folded_as_unpacking(c):
    # after `d = {...}` ANY call `d.method(arg)` is folded as `**arg` (d.pop('a') -> **'a'), and d.update(pairs) with
    # a non-mapping argument as well
    if c["rule"] not in ("fixes.replace_dict_update_with_dict_literal", "fixes.replace_dictcomp_update_with_dict_literal"):
        return False
    src, _ = _st(c)
    for _, body in _bodies(src):
        for i, a in enumerate(body):
            if isinstance(a, ast.Assign) and isinstance(a.targets[0], ast.Name) and isinstance(a.value, (ast.Dict, ast.DictComp)):
                for st in body[i + 1:]:
                    call = st.value if isinstance(st, ast.Expr) else None
                    if not (isinstance(call, ast.Call) and isinstance(call.func, ast.Attribute) and _u(call.func.value) == a.targets[0].id and len(call.args) == 1):
                        break
                    if call.func.attr != "update" or isinstance(call.args[0], (ast.List, ast.Tuple, ast.ListComp, ast.GeneratorExp, ast.Constant)):
                        return True
    return False


@_sig("subscript_store_rewritten")
def _sig_subscript_store_rewritten(c):
    # `for k in d.keys(): d[k] = ...` -> `for k, d_k in d.items(): d_k = ...`: the WRITE to d[k] is replaced too
    src, _ = _st(c)
    for n in _w(src, ast.For):
        if isinstance(n.iter, ast.Call) and isinstance(n.iter.func, ast.Attribute) and n.iter.func.attr == "keys":
            key = _u(n.iter.func.value) + "[" + _u(n.target) + "]"
            if any(isinstance(x, ast.Subscript) and isinstance(x.ctx, (ast.Store, ast.Del)) and _u(x) == key for x in ast.walk(n)):
                return True
    return False


@_sig("defaultdict_is_observable")
def _sig_defaultdict_is_observable(c):
    # d = {} -> collections.defaultdict(...): repr(d) differs and reading a missing key creates it instead of raising
    src, out = _st(c)
    if not _calls(out, "collections.defaultdict") or _calls(src, "collections.defaultdict"):
        return False
    targets = {a.targets[0].id for a in _w(out, ast.Assign) if isinstance(a.targets[0], ast.Name) and _call_name(a.value) == "collections.defaultdict"}
    printed = any(isinstance(a, ast.Name) and a.id in targets for x in _w(src, ast.Call) for a in x.args)
    keyerr = any(h.type is not None and "KeyError" in _u(h.type) for h in _w(src, ast.ExceptHandler))
    return printed or keyerr


@_sig("comprehension_inlined_and_kept")
def _sig_comprehension_inlined_and_kept(c):
    # `y = [p(i) ...]; z = sum(y)` -> `z = sum([p(i) ...])` while the assignment to y stays: evaluated twice
    src, out = _st(c)
    cnt = lambda t: Counter(_u(n) for n in _w(t, *_COMPS))   # noqa: E731
    cs, co = cnt(src), cnt(out)
    return any(co[k] > v and _has_call(_parse(k)) for k, v in cs.items())


@_sig("zip_zip_is_not_identity")
def _sig_zip_zip_is_not_identity(c):
    # zip(*zip(*m)) -> m: the double transpose yields tuples and truncates ragged rows
    src, out = _st(c)
    zz = lambda t: sum(1 for x in _calls(t, "zip") if len(x.args) == 1 and isinstance(x.args[0], ast.Starred) and _call_name(x.args[0].value) == "zip")   # noqa: E731
    return zz(out) < zz(src)


def _dropped_dict_entries(src):
    res = []
    for d in _w(src, ast.Dict):
        consts = [(i, k.value) for i, k in enumerate(d.keys) if isinstance(k, ast.Constant)]
        for i, v in consts:
            try:
                if any(j > i and w == v for j, w in consts):
                    res.append((d, i))
            except Exception:  # noqa
                pass
    return res


@_sig("duplicate_key_value_side_effect")
def _sig_duplicate_key_value_side_effect(c):
    # {'a': n(1), 'a': n(2)} -> {'a': n(2)}: the value expression of the dropped entry is not evaluated any more
    src, _ = _st(c)
    return any(_has_call(d.values[i]) for d, i in _dropped_dict_entries(src))


@_sig("duplicate_key_position_and_identity")
def _sig_duplicate_key_position_and_identity(c):
    # {'a': 1, 'b': 2, 'a': 3} -> {'b': 2, 'a': 3}: Python keeps the position (and the key object, 1 vs True) of the
    # FIRST occurrence and the value of the last one
    src, _ = _st(c)
    dropped = _dropped_dict_entries(src)
    return bool(dropped) and not any(_has_call(d.values[i]) for d, i in dropped)


# ---- performance

def _in_compares(tree):
    return [(n, n.comparators[0]) for n in _w(tree, ast.Compare) if len(n.ops) == 1 and isinstance(n.ops[0], (ast.In, ast.NotIn))]


@_sig("membership_in_set_needs_hashable")
def _sig_membership_in_set_needs_hashable(c):
    # `x in [1, 2, 3]` -> `x in {1, 2, 3}`: raises TypeError for an unhashable x
    src, out = _st(c)
    sets = lambda t: sum(1 for _, r in _in_compares(t) if isinstance(r, ast.Set))   # noqa: E731
    return sets(out) > sets(src) and _status(c, "TypeError")


@_sig("membership_in_string")
def _sig_membership_in_string(c):
    # `'ab' in list(s)` -> `'ab' in s`: substring test instead of element test when s is a string
    src, out = _st(c)
    wrapped = [n for n, r in _in_compares(src) if _call_name(r) in ("sorted", "list", "tuple", "set", "iter", "reversed")
               and isinstance(n.left, ast.Constant) and isinstance(n.left.value, str)]
    return bool(wrapped) and len(_in_compares(out)) == len(_in_compares(src)) and not any(_u(n) in c["output"] for n in wrapped)


@_sig("copy_protects_from_mutation")
def _sig_copy_protects_from_mutation(c):
    # `for k in list(d): del d[k]` -> `for k in d`: the copy is what allows the body to change d
    src, _ = _st(c)
    for n in _w(src, ast.For):
        if _call_name(n.iter) in ("list", "tuple") and len(n.iter.args) == 1 and isinstance(n.iter.args[0], ast.Name):
            x = n.iter.args[0].id
            for b in n.body:
                for y in ast.walk(b):
                    if isinstance(y, ast.Subscript) and isinstance(y.ctx, (ast.Store, ast.Del)) and _u(y.value) == x:
                        return True
                    if isinstance(y, ast.Call) and isinstance(y.func, ast.Attribute) and _u(y.func.value) == x and y.func.attr in (
                            "append", "add", "remove", "pop", "popitem", "clear", "update", "extend", "insert", "discard", "setdefault"):
                        return True
    return False


_CHAIN_OUTER = ("sorted", "list", "set", "iter", "reversed", "tuple", "sum")


@_sig("outer_call_keywords_dropped")
def _sig_outer_call_keywords_dropped(c):
    # sorted(list(v), key=len) -> sorted(v): the keyword arguments of the outer call (and of an inner sorted) are lost
    src, out = _st(c)
    kw = lambda t: sum(len(x.keywords) for x in _calls(t, *_CHAIN_OUTER))   # noqa: E731
    nested = any(x.args and _call_name(x.args[0]) in _CHAIN_OUTER and (x.keywords or x.args[0].keywords) for x in _calls(src, *_CHAIN_OUTER) if _call_name(x) != "reversed")
    return nested and kw(out) < kw(src)


@_sig("reversed_needs_a_sequence")
def _sig_reversed_needs_a_sequence(c):
    # reversed(list(g)) -> reversed(g): TypeError for an iterator / a set
    src, out = _st(c)
    inner = lambda t: sum(1 for x in _calls(t, "reversed") if x.args and _call_name(x.args[0]) in ("list", "tuple"))   # noqa: E731
    return inner(out) < inner(src) and _status(c, "TypeError")


@_sig("reversed_sorted_ties")
def _sig_reversed_sorted_ties(c):
    # reversed(sorted(v, key=k)) -> sorted(v, key=k, reverse=True): elements with equal keys come out in the other order
    src, out = _st(c)
    rs = lambda t: sum(1 for x in _calls(t, "reversed") if x.args and _call_name(x.args[0]) == "sorted" and x.args[0].keywords)   # noqa: E731
    return rs(out) < rs(src)


def _sorted_subscripts(tree):
    return [n for n in _w(tree, ast.Subscript) if _call_name(n.value) == "sorted" and any(k.arg == "key" for k in n.value.keywords)]


@_sig("sorted_tail_ties")
def _sig_sorted_tail_ties(c):
    # sorted(v, key=k)[-1] -> max(v, key=k) (the FIRST maximal element instead of the last), [-2:] -> reversed nlargest
    src, _ = _st(c)
    for n in _sorted_subscripts(src):
        s = n.slice
        if isinstance(s, ast.UnaryOp) and isinstance(s.operand, ast.Constant):
            return True
        if isinstance(s, ast.Slice) and isinstance(s.lower, ast.UnaryOp) and isinstance(s.lower.operand, ast.Constant) and s.upper is None:
            return True
    return False


@_sig("sorted_tail_of_length_zero")
def _sig_sorted_tail_of_length_zero(c):
    # sorted(v, key=k)[-n:] -> nlargest(n, ...): for n == 0 the slice is the whole list, nlargest(0) is empty
    src, _ = _st(c)
    return any(isinstance(n.slice, ast.Slice) and isinstance(n.slice.lower, ast.UnaryOp) and not isinstance(n.slice.lower.operand, ast.Constant)
               for n in _sorted_subscripts(src))


def _range_len_comps(src):
    res = []
    for n in _w(src, *_COMPS):
        g = n.generators[0]
        if len(n.generators) == 1 and _call_name(g.iter) == "range" and len(g.iter.args) == 1 and _call_name(g.iter.args[0]) == "len" and isinstance(g.target, ast.Name):
            res.append((n, g.target.id, _u(g.iter.args[0].args[0])))
    return res


@_sig("index_still_used_after_subscript_looping")
def _sig_index_still_used(c):
    # [(i, s[i]) for i in range(len(s))] -> [(i, s_i) for s_i in s]: the index is used on its own as well
    src, _ = _st(c)
    for n, i, seq in _range_len_comps(src):
        elts = [getattr(n, "elt", None), getattr(n, "key", None), getattr(n, "value", None)] + [x for g in n.generators for x in g.ifs]
        sub = sum(1 for e in elts if e is not None for x in ast.walk(e) if isinstance(x, ast.Subscript) and _u(x.value) == seq and _u(x.slice) == i)
        use = sum(1 for e in elts if e is not None for x in ast.walk(e) if isinstance(x, ast.Name) and x.id == i)
        if use > sub:
            return True
    return False


@_sig("mapping_indexed_by_range")
def _sig_mapping_indexed_by_range(c):
    # [d[i] for i in range(len(d))] -> list(d): for a dict with keys 0..n-1 the loop yields the values, list(d) the keys
    src, _ = _st(c)
    dicts = {a.targets[0].id for a in _w(src, ast.Assign) if isinstance(a.targets[0], ast.Name) and isinstance(a.value, (ast.Dict, ast.DictComp))}
    return any(seq in dicts for _, _, seq in _range_len_comps(src))


@_sig("dot_requires_equal_lengths")
def _sig_dot_requires_equal_lengths(c):
    # sum(x * y for x, y in zip(a, b)) -> np.dot(a, b): zip stops at the shorter operand, dot raises
    src, out = _st(c)
    return len(_calls(out, "np.dot")) > len(_calls(src, "np.dot")) and _status(c, "ValueError")


@_sig("matmul_replaces_in_place_accumulation")
def _sig_matmul_replaces_in_place_accumulation(c):
    # the triple loop `result[i][j] += ...` adds to the previous content of `result` and updates that object in
    # place; `result = np.matmul(left, right)` rebinds the name to a new object
    src, out = _st(c)
    aug = any(isinstance(a.target, ast.Subscript) and isinstance(a.op, ast.Add) for f in _w(src, ast.For) for a in _w(f, ast.AugAssign))
    return aug and len(_calls(out, "np.matmul")) > len(_calls(src, "np.matmul"))


# ---- classes

def _made_static(c):
    """methods that carry @staticmethod in the output but not in the source -> [source FunctionDef]"""
    src, out = _st(c)
    deco = lambda f: {_u(d) for d in f.decorator_list}   # noqa: E731
    res = []
    for cl in _w(src, ast.ClassDef):
        for co in _w(out, ast.ClassDef):
            if co.name != cl.name:
                continue
            for f in cl.body:
                for g in co.body:
                    if isinstance(f, ast.FunctionDef) and isinstance(g, ast.FunctionDef) and f.name == g.name and "staticmethod" in deco(g) - deco(f):
                        res.append((cl, f))
    return res


@_sig("staticmethod_called_with_explicit_instance")
def _sig_staticmethod_called_with_explicit_instance(c):
    # def m(self, x) without a use of self becomes a staticmethod although the text calls it as A.m(a, 1)
    src, _ = _st(c)
    return any(isinstance(n.func, ast.Attribute) and n.func.attr == f.name and _u(n.func.value) == cl.name
               for cl, f in _made_static(c) for n in _w(src, ast.Call))


@_sig("staticmethod_on_decorated_method")
def _sig_staticmethod_on_decorated_method(c):
    # @property def p(self) without a use of self becomes @staticmethod @property def p()
    return any(f.decorator_list for _, f in _made_static(c))


@_sig("staticmethod_with_zero_argument_super")
def _sig_staticmethod_with_zero_argument_super(c):
    # a method that uses super() but not self becomes a staticmethod: super() has no instance any more
    return any(any(not n.args for n in _calls(f, "super")) for _, f in _made_static(c))


def _moved_static(c):
    src, out = _st(c)
    res = []
    for cl in _w(src, ast.ClassDef):
        for f in cl.body:
            if isinstance(f, ast.FunctionDef) and any(_u(d) == "staticmethod" for d in f.decorator_list):
                if not any(co.name == cl.name and any(isinstance(g, ast.FunctionDef) and g.name == f.name for g in co.body) for co in _w(out, ast.ClassDef)):
                    res.append((cl, f))
    return res


@_sig("self_access_on_last_line_of_class")
def _sig_self_access_on_last_line_of_class(c):
    # uses `self.m` / `cls.m` on the LAST line of the class are not redirected to the moved function
    # (classdef.lineno < node.lineno < classdef.end_lineno)
    return any(isinstance(n.value, ast.Name) and n.value.id in ("self", "cls") and n.attr == f.name and n.lineno == cl.end_lineno
               for cl, f in _moved_static(c) for n in _w(cl, ast.Attribute))


@_sig("staticmethod_reached_through_instance_variable")
def _sig_staticmethod_reached_through_instance_variable(c):
    # `a = A(); a.m(1)`: the staticmethod is moved out of the class although it is used through another name
    # (attributes_to_preserve.add(node.value.id) records the name of the object instead of the attribute)
    src, _ = _st(c)
    classes = {cl.name for cl in _w(src, ast.ClassDef)}
    return any(isinstance(n.value, ast.Name) and n.value.id not in classes | {"self", "cls"} and n.attr == f.name
               for _, f in _moved_static(c) for n in _w(src, ast.Attribute))


@_sig("assignment_moved_into_class_scope")
def _sig_assignment_moved_into_class_scope(c):
    # `Foo.b = a` behind the class becomes `b = a` inside it: `a` now resolves in the class namespace first, and the
    # class name itself is not bound yet
    src, _ = _st(c)
    for cl in _w(src, ast.ClassDef):
        inner = _bound_names(ast.Module(body=cl.body, type_ignores=[])) | {cl.name}
        for a in _w(src, ast.Assign):
            t = a.targets[0]
            if isinstance(t, ast.Attribute) and _u(t.value) == cl.name and a.lineno > cl.end_lineno and (_names(a.value, ast.Load) & inner):
                return True
    return False


# ---- abstractions

@_sig("mutable_display_shared")
def _sig_mutable_display_shared(c):
    # five equal displays [..] / {..} are replaced by ONE object bound to a new constant name
    src, out = _st(c)
    old = _bound_names(src)
    return any(isinstance(a.targets[0], ast.Name) and a.targets[0].id not in old and isinstance(a.value, (ast.List, ast.Dict, ast.Set)) for a in _w(out, ast.Assign))


@_sig("constant_of_default_bound_in_body")
def _sig_constant_of_default_bound_in_body(c):
    # the constant is used in a default value of the function, the new name is assigned inside the function body
    src, out = _st(c)
    top = _bound_names(ast.Module(body=[n for n in out.body if not isinstance(n, _DEFS)], type_ignores=[]))
    for f in _w(out, ast.FunctionDef, ast.AsyncFunctionDef):
        inner = {x.id for b in f.body for x in ast.walk(b) if isinstance(x, ast.Name) and isinstance(x.ctx, ast.Store)}
        dflt = _names([d for d in f.args.defaults + f.args.kw_defaults if d is not None], ast.Load)
        if (dflt & inner) - top - _bound_names(src):
            return True
    return False


@_sig("snapshot_of_rebound_names")
def _sig_snapshot_of_rebound_names(c):
    # `var_1 = x` at the start of the branch freezes x although a call in the branch rebinds x (global)
    src, out = _st(c)
    shared = {name for g in _w(src, ast.Global, ast.Nonlocal) for name in g.names}
    return any(isinstance(a.targets[0], ast.Name) and a.targets[0].id.startswith("var_") and isinstance(a.value, ast.Name) and a.value.id in shared
               for a in _w(out, ast.Assign))


# ---- symbolic_math (kernel of C17), tracing

def _boolop_stats(tree):
    ops = _w(tree, ast.BoolOp)
    return len(ops), sum(1 for o in ops for v in o.values if _has_call(v))


@_sig("boolop_operands_with_calls_dropped")
def _sig_boolop_operands_with_calls_dropped(c):
    # symbolic_math: `t(1) and t(0) and not t(1)` -> False: operands whose evaluation has effects are removed
    if not c["rule"].startswith("symbolic_math."):
        return False
    src, out = _st(c)
    return _boolop_stats(out)[1] < _boolop_stats(src)[1]


@_sig("boolop_total_order_assumed")
def _sig_boolop_total_order_assumed(c):
    # symbolic_math: `n <= 5 or n >= 3` -> True, `n == 2 or n != 2` -> True: false for NaN / partial orders
    if not c["rule"].startswith("symbolic_math."):
        return False
    src, out = _st(c)
    return bool(re.search(r"\bnan\b", c["source"], re.I)) and _boolop_stats(out)[0] < _boolop_stats(src)[0] and _boolop_stats(src)[1] == 0


@_sig("boolop_value_replaced_by_truth_value")
def _sig_boolop_value_replaced_by_truth_value(c):
    # symbolic_math: `x and False and y` -> False, `(a and b) or (a and not b)` -> a: the VALUE of and/or is one of
    # its operands (0, '', [] ...), the simplification only preserves the truth value
    if not c["rule"].startswith("symbolic_math."):
        return False
    src, out = _st(c)
    s, o = _boolop_stats(src), _boolop_stats(out)
    return o[0] < s[0] and s[1] == 0 and not re.search(r"\bnan\b", c["source"], re.I)


@_sig("range_with_none_bound")
def _sig_range_with_none_bound(c):
    # symbolic_math.simplify_constrained_range: range(n) if x >= 2 -> range(2, None)
    _, out = _st(c)
    return any(any(isinstance(a, ast.Constant) and a.value is None for a in x.args) for x in _calls(out, "range"))


def _sum_range(tree):
    return [x for x in _calls(tree, "sum") if x.args and ("range(" in _u(x.args[0]))]


def _floats_as_ints(text):
    return re.sub(r"(\d)\.0\b", r"\1", text)


@_sig("sum_closed_form_is_float")
def _sig_sum_closed_form_is_float(c):
    # symbolic_math: sum(range(n)) -> n * (n - 1) / 2: a float (15.0) instead of an int (15)
    src, out = _st(c)
    r = c["result"]
    div = lambda t: sum(1 for b in _w(t, ast.BinOp) if isinstance(b.op, ast.Div))   # noqa: E731
    return bool(_sum_range(src)) and div(out) > div(src) and _floats_as_ints(r.get("after_stdout", "")) == r.get("before_stdout")


@_sig("sum_closed_form_of_empty_range")
def _sig_sum_closed_form_of_empty_range(c):
    # symbolic_math (F17-1): the closed form of sum(range(a, b)) is wrong for an empty range (b < a)
    src, out = _st(c)
    r = c["result"]
    if not (bool(_sum_range(src)) and len(_sum_range(out)) < len(_sum_range(src)) and not _calls(out, "range")
            and _floats_as_ints(r.get("after_stdout", "")) != r.get("before_stdout")):
        return False
    # ... and one of the summed ranges really is EMPTY with an implicit step of 1 (integer literals or module-level
    # integer constants as bounds); a wrong closed form for a non-empty or stepped range is a different defect
    consts = {}
    for node in src.body:
        if isinstance(node, ast.Assign) and len(node.targets) == 1 and isinstance(node.targets[0], ast.Name):
            try:
                v = ast.literal_eval(node.value)
            except (ValueError, SyntaxError):
                continue
            if type(v) is int:
                consts[node.targets[0].id] = v
    for call in _sum_range(src):
        for rng in [x for x in ast.walk(call) if _call_name(x) == "range" and len(x.args) in (1, 2)]:
            try:
                args = [eval(compile(ast.Expression(a), "<r>", "eval"), {"__builtins__": {}}, dict(consts)) for a in rng.args]
            except Exception:  # noqa
                continue
            if all(type(a) is int for a in args) and len(range(*args)) == 0:
                return True
    return False


@_sig("sum_of_stepped_range")
def _sig_sum_of_stepped_range(c):
    # symbolic_math: sum(range(0, 10, 3)) -> range(0, 10, 3)
    src, out = _st(c)
    stepped = [x for x in _sum_range(src) if _call_name(x.args[0]) == "range" and len(x.args[0].args) == 3]
    return bool(stepped) and any(_u(x.args[0]) in {_u(y) for y in _calls(out, "range")} and len(_sum_range(out)) < len(_sum_range(src)) for x in stepped)


@_sig("star_import_deleted")
def _sig_star_import_deleted(c):
    # tracing: `from os.path import *` cannot be traced (os.path is posixpath): the import is deleted, its names stay
    src, out = _st(c)
    star = lambda t: {n.module for n in _w(t, ast.ImportFrom) if n.names[0].name == "*"}   # noqa: E731
    named = {n.module for n in _w(out, ast.ImportFrom) if n.names[0].name != "*"}
    return bool(star(src) - star(out) - named) and _status(c, "NameError") and not _calls(src, "eval", "exec")


def live_findings(pid="C02"):
    """The lines of KNOWN_FINDINGS.txt for this property.  The file is append-only: a `finding:` line whose id also
    has a `fixed:` line is superseded by it (it neither suppresses anything nor counts as a known finding)."""
    kf = common.load_findings(pid)
    fixed = {f.id for f in kf if f.kind == "fixed"}
    return [f for f in kf if not (f.kind == "finding" and f.id in fixed)]


def match_finding(kf, case):
    for f in kf:
        if f.kind != "finding" or f.fields.get("site") not in (case["rule"], "*"):
            continue
        pred = SIGS.get(f.fields.get("sig", ""))
        try:
            if pred and pred(case):
                return f
        except Exception:  # noqa
            continue
    return None


# ------------------------------------------------------------------------------------------------


def sweep(run, mods, wd: Path, kf, hist: Counter, only=None):
    rules, from_main = rule_functions(mods)
    examples, status = harvest(wd)
    cwd = wd / "exec"
    cwd.mkdir(exist_ok=True)
    jobs = []       # (rule, origin, source)
    for name in sorted(rules):
        if only and not any(a in name for a in only):
            continue
        for i, src in enumerate(examples.get(name, [])):
            jobs.append((name, f"repo-example#{i}", src))
        for i, src in enumerate(TRIGGERS.get(name, [])):
            jobs.append((name, f"trigger#{i}", src))
    # 1. apply the rules (in process, sequential: rules share the parse cache)
    applied = []
    per_rule = {n: Counter() for n in rules}
    not_rewrite = set()      # functions whose result is not a str (tracing.get_imported_names, ...): not rewrite rules
    for name in sorted(rules):
        probe = "x = 1\nprint(x)\n"
        mods["core"].parse.cache_clear()
        for arg in (probe, ast.parse(probe)):
            try:
                with common.quiet():
                    out = call_rule(rules[name], arg)
            except Exception:  # noqa
                continue
            if not isinstance(out, str):
                not_rewrite.add(name)
            break
    for (name, origin, src) in jobs:
        mods["core"].parse.cache_clear()
        try:
            with warnings.catch_warnings():
                warnings.simplefilter("ignore")
                compile(src, "<sweep>", "exec")
        except (SyntaxError, ValueError):
            per_rule[name]["input-not-python"] += 1
            continue
        try:
            with common.quiet():
                out = call_rule(rules[name], src)
        except Exception as e:  # noqa   (totality is C04's business)
            per_rule[name]["rule-raised:" + type(e).__name__] += 1
            continue
        if not isinstance(out, str):
            not_rewrite.add(name)
            continue
        if out == src:
            per_rule[name]["unchanged"] += 1
            continue
        per_rule[name]["fired"] += 1
        applied.append((name, origin, src, out))

    # 2. execute before/after
    add_imports = mods["fixes"].add_missing_imports
    tls, runners = threading.local(), []
    def work(item):
        name, origin, src, out = item
        if not hasattr(tls, "runner"):
            tls.runner = ForkRunner()
            runners.append(tls.runner)
        return compare_exec(src, out, str(cwd), add_imports, fast=tls.runner)
    try:
        with ThreadPoolExecutor(max_workers=min(8, common.NCPU)) as ex:
            results = list(ex.map(work, applied))
    finally:
        for r in runners:
            r.close()
    failures, known, known_example = [], Counter(), {}
    executions = with_prelude = 0
    for n in not_rewrite:
        rules.pop(n)
        per_rule.pop(n)
    for (name, origin, src, out), res in zip(applied, results):
        executions += {"not-executable": 1, "same": 2}.get(res["class"], 3) + (1 if res.get("prelude") else 0)
        per_rule[name][res["class"]] += 1
        if res.get("prelude") and res["class"] in ("same", "DIFFERENT"):
            per_rule[name]["with-prelude"] += 1
            with_prelude += 1
        if res["class"] != "DIFFERENT":
            continue
        case = {"rule": name, "site": name, "origin": origin, "source": src, "output": out, "result": res}
        f = match_finding(kf, case)
        if f is None:
            failures.append(case)
        else:
            known[f.id] += 1
            known_example.setdefault(f.id, case)
    summary = {
        "rule_functions": len(rules), "reached_from_main": len(from_main),
        "repo_examples": sum(len(v) for k, v in examples.items() if k in rules),
        "repo_example_rules": len([k for k in examples if k in rules]),
        "trigger_programs": sum(len(v) for v in TRIGGERS.values()),
        "applications_that_changed_the_text": len(applied),
        "executed_pairs_compared": sum(per_rule[n]["same"] + per_rule[n]["DIFFERENT"] for n in rules),
        "executed_with_prelude": with_prelude,
        "not_rewrite_rules": sorted(not_rewrite),
        "not_executable_before": sum(per_rule[n]["not-executable"] for n in rules),
        "different": sum(per_rule[n]["DIFFERENT"] for n in rules),
        "rules_without_any_executed_pair": sorted(n for n in rules if not (per_rule[n]["same"] + per_rule[n]["DIFFERENT"])),
        "per_rule": {n: dict(c) for n, c in sorted(per_rule.items())},
        "harvest_scripts": len(status), "harvest_script_problems": {k: v for k, v in status.items() if v not in (0, "no-main")},
    }
    hist["sweep:same"] += summary["executed_pairs_compared"] - summary["different"]
    hist["sweep:different"] += summary["different"]
    hist["sweep:not-executable"] += summary["not_executable_before"]
    return {"rules": sorted(rules), "executions": executions, "fired": len(applied), "failures": failures,
            "known": known, "known_example": known_example, "summary": summary}


def main(argv):
    """stand-alone run of the sweep (debugging / triage):  VERIF_REPO=... python -m harness.c02_sweep [rule-substring]"""
    run = common.Run(PID, "quick", 0)
    wd = common.workdir(PID + "sw")
    mods = common.import_impl()
    kf = live_findings()
    hist = Counter()
    global TRIGGERS
    if argv:
        TRIGGERS = {k: v for k, v in TRIGGERS.items() if any(a in k for a in argv)}
    res = sweep(run, mods, wd, kf, hist, only=argv or None)
    s = res["summary"]
    print(json.dumps({k: v for k, v in s.items() if k != "per_rule"}, indent=1))
    for n, c in s["per_rule"].items():
        if not argv or any(a in n for a in argv):
            print(n, c)
    print("known:", dict(res["known"]))
    for c in res["failures"]:
        print("=" * 100)
        print("FAILURE", c["rule"], c["origin"])
        print(c["source"])
        print("--->")
        print(c["output"])
        print(json.dumps(c["result"], indent=1))
    return 1 if res["failures"] else 0


if __name__ == "__main__":
    sys.exit(main(sys.argv[1:]))
