"""C14 -- Pattern substitution rewrites exactly the matches and nothing else
(kernels K1 scheduler + K13 textual instantiation; SubstModel.v, ExprModel.v)."""
from __future__ import annotations

import ast
import copy
import io
import itertools
import json
import random
import re
import tokenize
from collections import Counter
from pathlib import Path

from . import common
from .common import gz, glist, gopt, gbool

PID = "C14"
IGNORE_RE = re.compile(r"#\s*pyrefact\s*:\s*(skip_file|ignore)")
START_COUNT = -100000000
SITE_FORMAT = "core.format_template"


# ------------------------------------------------------------------------------------------------
# instrumented runs of the real code


class Instr:
    """Wraps module attributes of the implementation for the duration of one call."""

    def __init__(self, mods):
        self.mods = mods
        self.saved = []

    def wrap(self, mod, name, make):
        orig = getattr(mod, name)
        self.saved.append((mod, name, orig))
        setattr(mod, name, make(orig))

    def __enter__(self):
        return self

    def __exit__(self, *a):
        for mod, name, orig in reversed(self.saved):
            setattr(mod, name, orig)
        return False


def in_domain(*texts) -> bool:
    """The text domain of the Gallina model: printable ASCII + '\\n' (no tabs, no other separators)."""
    return all(all(c == "\n" or 32 <= ord(c) < 127 for c in t) for t in texts)


NEWLINE_RE = re.compile(r"\r\n|\r|\n")


def physical_lines(source):
    """(start, end, text incl. terminator) of the physical lines as Python's tokenizer delimits them
    (\\n, \\r\\n, \\r -- NOT form feed, U+2028 ... which str.splitlines also splits at)."""
    out, pos = [], 0
    for m in NEWLINE_RE.finditer(source):
        out.append((pos, m.end(), source[pos:m.end()]))
        pos = m.end()
    if pos < len(source):
        out.append((pos, len(source), source[pos:]))
    return out


def node_span(nodes, source):
    """Character range of a run of nodes from their own (lineno, col_offset in UTF-8 bytes) --
    independent of core.get_charnos and of find_replace's arithmetic."""
    lines = physical_lines(source) or [(0, 0, "")]

    def pos(lineno, col):
        a, _, text = lines[min(lineno, len(lines)) - 1]
        return a + len(text.encode("utf-8")[:col].decode("utf-8", errors="ignore"))
    a = min(pos(n.lineno, n.col_offset) for n in nodes)
    b = max(pos(n.end_lineno, n.end_col_offset) for n in nodes)
    return (a, b)


def all_matches(mods, pattern, source):
    """Every match of the pattern in the matcher's yield order:
    (range of the matched nodes, {wildcard: unparsed text}, groups)."""
    core, processing = mods["core"], mods["processing"]
    res = []
    with common.quiet():
        for rng, _, groups in processing.find_replace(source, pattern, "", yield_match=True):
            d = groups_dict(groups)
            root = d.get("root")
            roots = list(root) if isinstance(root, (list, tuple)) else [root]
            if roots and all(isinstance(r, ast.AST) and hasattr(r, "lineno") for r in roots):
                span = node_span(roots, source)
            else:
                span = (rng.start, rng.end)
            res.append((span, {k: core.unparse(v) for k, v in d.items()}, groups))
    return res


def run_subn(mods, pattern, repl, source, count):
    """pattern_matching.subn with every intermediate product recorded."""
    core, processing, pm = mods["core"], mods["processing"], mods["pattern_matching"]
    rec = {"items": [], "sched": None, "chain": [], "valid": {}, "equiv": {}, "minws_changed": False, "error": None,
           "filled": [], "tok_calls": []}

    def recording(func):
        import functools

        @functools.wraps(func)
        def gen(*a, **kw):
            for item in func(*a, **kw):
                rec["items"].append(((item[0].start, item[0].end), item[1]))
                yield item
        return gen

    def mk_schedule(orig):
        def _schedule_rewrites(src, funcs):
            out = orig(src, [(recording(f), a, kw) for (f, a, kw) in funcs])
            rec["sched"] = [(t.group_number, t.transaction_number, rng.start, rng.end, rw.new)
                            for t, (rng, rw) in out]
            return out
        return _schedule_rewrites

    def mk_do_rewrite(orig):
        def _do_rewrite(src, rewrite, **kw):
            out = orig(src, rewrite, **kw)
            rec["chain"].append(out)
            if "scheduled" in kw:
                rec["has_flag"] = True
                if kw["scheduled"]:
                    rec["sched_out"] = out
            return out
        return _do_rewrite

    def mk_valid(orig):
        def is_valid_python(text):
            r = orig(text)
            rec["valid"][text] = bool(r)
            return r
        return is_valid_python

    def mk_equiv(orig):
        def _sources_equivalent(a, b):
            r = orig(a, b)
            if isinstance(a, str) and isinstance(b, str):
                rec["equiv"][(a, b)] = bool(r)
            return r
        return _sources_equivalent

    def mk_minws(orig):
        def minimize_whitespace_line_differences(src, new):
            out = orig(src, new)
            if out[0] != new:
                rec["minws_changed"] = True
            return out
        return minimize_whitespace_line_differences

    def mk_fill(orig):
        def format_template(*a, **kw):
            out = orig(*a, **kw)
            rec["filled"].append(out)
            return out
        return format_template

    def mk_tok(orig):
        def _lines_inside_string_literals(code):
            rec["tok_calls"].append(code)
            return orig(code)
        return _lines_inside_string_literals

    with Instr(mods) as ins, common.quiet():
        ins.wrap(core, "format_template", mk_fill)
        if hasattr(processing, "_lines_inside_string_literals"):
            ins.wrap(processing, "_lines_inside_string_literals", mk_tok)
        ins.wrap(processing, "_schedule_rewrites", mk_schedule)
        ins.wrap(processing, "_do_rewrite", mk_do_rewrite)
        ins.wrap(core, "is_valid_python", mk_valid)
        if hasattr(processing, "_sources_equivalent"):
            ins.wrap(processing, "_sources_equivalent", mk_equiv)
        ins.wrap(processing, "minimize_whitespace_line_differences", mk_minws)
        try:
            # count == 0 is the documented default: exercised through the default argument
            out, n = pm.subn(pattern, repl, source, count) if count != 0 else pm.subn(pattern, repl, source)
        except ValueError as e:
            rec["error"] = f"ValueError: {e}"
            out, n = None, None
        except Exception as e:  # anything else is a crash of sub()
            rec["error"] = f"{type(e).__name__}: {e}"
            out, n = None, None
    rec["out"], rec["n"] = out, n
    if rec["sched"] is None:
        rec["sched"] = []
    # the model's splice asks the tokenizer (strl) about every instantiated replacement: where that text has a
    # line inside a string literal (by OUR tokenizer pass) the real code must have asked about exactly that text
    import textwrap
    rec["tok_missing"] = [d for d in dict.fromkeys(textwrap.dedent(f) for f in rec["filled"])
                          if string_literal_lines(d) and d not in rec["tok_calls"]]
    # _substitute_original_strings calls _do_rewrite too: the scheduled rewrites are the first calls
    # (since the application step skips members that change nothing / refuses whitespace-only transactions, the
    # scheduled calls are recognised by their scheduled=True flag where the implementation passes one)
    k = len(rec["sched"])
    if rec.pop("has_flag", False) or _apply_passes_flag(processing):
        rec["cand"] = rec.pop("sched_out", source)
    else:
        rec["cand"] = rec["chain"][k - 1] if k and len(rec["chain"]) >= k else source
    return rec


def _apply_passes_flag(processing):
    """Does processing._apply_rewrites mark its own _do_rewrite calls (scheduled=True)?"""
    import inspect
    try:
        return "scheduled" in inspect.signature(processing._do_rewrite).parameters
    except (TypeError, ValueError):
        return False


def ignore_line_ranges(source):
    """Physical lines that carry an ignore COMMENT (a comment token, not text inside a string)."""
    lines = physical_lines(source)
    res = set()
    try:
        toks = list(tokenize.generate_tokens(io.StringIO(NEWLINE_RE.sub("\n", source)).readline))
    except (tokenize.TokenError, SyntaxError, IndentationError):
        toks = None
    if toks is None:
        return [(a, b) for (a, b, t) in lines if IGNORE_RE.search(t)]
    for t in toks:
        if t.type == tokenize.COMMENT and IGNORE_RE.search(t.string) and t.start[0] - 1 < len(lines):
            a, b, _ = lines[t.start[0] - 1]
            res.add((a, b))
    return sorted(res)


def tokenizer_verdict(source):
    """The model's `coms` input: zero-based numbers of the physical lines that carry a COMMENT token matching the
    ignore regex, by CPython's tokenizer fed with the untranslated lines; None when it raises (the textual test
    then decides).  Computed here, not taken from pyrefact."""
    try:
        return sorted({t.start[0] - 1 for t in tokenize.generate_tokens(io.StringIO(source, newline="").readline)
                       if t.type == tokenize.COMMENT and IGNORE_RE.search(t.string)})
    except (tokenize.TokenError, SyntaxError, ValueError):
        return None


def impl_ignore_line_ranges(mods, source):
    """The physical lines for which the REAL core.has_ignore_comment answers True when asked about exactly that
    line: what the model's ignore_lines (IgnoreModel.ignore_entries under the tokenizer's verdict) must equal."""
    core = mods["core"]
    return [(a, b) for (a, b, _) in physical_lines(source) if core.has_ignore_comment(source, core.Range(a, b))]


def impl_ignore_probes(mods, source, max_lines=16):
    """Answers of the REAL core.has_ignore_comment on probe ranges of every physical line: its first and last
    character, the insertion points at its first column, before its terminator and at its end (for the last line
    that is the end of the text).  The model's scheduler-side test (SchedModel.ignored on SubstModel.sched_ilines)
    must give the same answers."""
    core = mods["core"]
    probes = {}
    for (a, b, text) in physical_lines(source)[:max_lines]:
        body_end = a + len(text.rstrip("\r\n"))
        for r in ((a, a + 1), (b - 1, b), (a, a), (body_end, body_end), (b, b), (a, b)):
            if r not in probes and 0 <= r[0] <= r[1] <= len(source):
                probes[r] = bool(core.has_ignore_comment(source, core.Range(*r)))
    return sorted(probes.items())


def overlaps(a, b):
    return a[0] < b[1] and b[0] < a[1]


# ------------------------------------------------------------------------------------------------
# the property's own oracle (independent of the Gallina model and of the scheduler's algorithm)

HOLE = "__c14_hole_%s__"


def _template_tree(text, mode):
    """Parse a template whose wildcards were turned into placeholder names."""
    src = re.sub(r"\{\{(\w+)\}\}", lambda m: HOLE % m.group(1), text)
    import textwrap
    tree = ast.parse(textwrap.dedent(src))
    if mode == "expr":
        if len(tree.body) != 1 or not isinstance(tree.body[0], ast.Expr):
            raise ValueError("statement template in expression position")
        return tree.body[0].value
    return tree.body


class _Fill(ast.NodeTransformer):
    def __init__(self, binds):
        self.binds = binds

    def visit_Name(self, node):
        m = re.fullmatch(HOLE % r"(\w+)", node.id)
        if m:
            v = self.binds.get(m.group(1))
            if isinstance(v, ast.Expr):
                v = v.value
            if not isinstance(v, ast.expr):
                raise ValueError("non-expression binding in expression position")
            return copy.deepcopy(v)
        return node

    def visit_Expr(self, node):
        # a wildcard that is a whole statement may be bound to a statement
        if isinstance(node.value, ast.Name):
            m = re.fullmatch(HOLE % r"(\w+)", node.value.id)
            if m and isinstance(self.binds.get(m.group(1)), ast.stmt):
                return copy.deepcopy(self.binds[m.group(1)])
        return self.generic_visit(node)


class OutsideProperty(Exception):
    """The tree-level substitution is not a program (or the template is not parseable on its own):
    the property says nothing about this input."""


def groups_dict(groups):
    """Bindings of a match: namedtuple for patterns with wildcards, a plain 1-tuple (root,) without."""
    if hasattr(groups, "_asdict"):
        return groups._asdict()
    return {"root": groups[0]} if isinstance(groups, tuple) and groups else {}


def resolve_targets(tree, source, rng, root):
    """The node(s) of OUR parse of the source that a match covers: for a single node the node of the
    same type with exactly that span, for a statement sequence the consecutive statements of one block
    that span the range."""
    if isinstance(root, ast.AST) and hasattr(root, "lineno"):
        for node in ast.walk(tree):
            if type(node) is type(root) and hasattr(node, "lineno") and node_span([node], source) == tuple(rng):
                return [node]
        raise LookupError(f"no {type(root).__name__} node with span {rng}")
    for node in ast.walk(tree):
        for field in ("body", "orelse", "finalbody"):
            block = getattr(node, field, None)
            if not isinstance(block, list) or not block or not isinstance(block[0], ast.stmt):
                continue
            spans = [node_span([st], source) for st in block]
            for i in range(len(block)):
                if spans[i][0] == rng[0]:
                    for j in range(i, len(block)):
                        if spans[j][1] == rng[1]:
                            return block[i:j + 1]
    raise LookupError(f"no statement run with span {rng}")


def reference_tree(source, repl, applied):
    """ast of the source with the matched nodes of every applied match replaced by the replacement
    template instantiated (at tree level) with that match's bindings.
    applied: list of (range, bindings as text, groups) of the applied matches."""
    tree = ast.parse(source)
    plan = {}      # id(node) -> replacement (expr | list of stmts)
    for (rng, _, groups) in applied:
        d = groups_dict(groups)
        binds = dict(d)
        mine = resolve_targets(tree, source, rng, d.get("root"))
        try:
            if isinstance(mine[0], ast.expr):
                new = _Fill(binds).visit(_template_tree(repl, "expr"))
            else:
                body = _template_tree(repl, "stmt") if repl.strip() else []
                new = [_Fill(binds).visit(st) for st in body]
                new = [x for st in new for x in (st if isinstance(st, list) else [st])]
        except (SyntaxError, ValueError) as e:
            raise OutsideProperty(str(e))
        plan[id(mine[0])] = new
        for other in mine[1:]:
            plan[id(other)] = []

    class Apply(ast.NodeTransformer):
        def generic_visit(self, node):
            for field, old in ast.iter_fields(node):
                if isinstance(old, list):
                    out = []
                    for v in old:
                        if isinstance(v, ast.AST):
                            if id(v) in plan:
                                r = plan[id(v)]
                                out.extend(r if isinstance(r, list) else [r])
                            else:
                                out.append(self.generic_visit(v))
                        else:
                            out.append(v)
                    if old and not out and isinstance(old[0], ast.stmt) and not isinstance(node, ast.Module):
                        out = [ast.Pass()]   # a block emptied by a deletion keeps a placeholder
                    old[:] = out
                elif isinstance(old, ast.AST):
                    if id(old) in plan:
                        r = plan[id(old)]
                        if isinstance(r, list):
                            raise OutsideProperty("statement list in a single-node position")
                        setattr(node, field, r)
                    else:
                        self.generic_visit(old)
            return node

    Apply().generic_visit(tree)
    return ast.fix_missing_locations(tree)


def dump_norm(tree_or_text):
    """Canonical tree: through ast.unparse (which parenthesises from the tree) and back, so that
    expression contexts and positions are those of a parsed program."""
    if isinstance(tree_or_text, str):
        return ast.dump(ast.parse(tree_or_text))
    return ast.dump(ast.parse(ast.unparse(tree_or_text)))


def greedy_reference(items, ilines, dedupe=True):
    """Indices of the yielded items that the property says are applied: in yield order, skip what
    touches an ignored line or overlaps something already taken."""
    taken = []
    for i, (rng, _) in enumerate(items):
        if any(overlaps(rng, l) for l in ilines):
            continue
        if any(overlaps(rng, items[j][0]) for j in taken):
            continue
        if dedupe and any(items[j] == items[i] for j in range(i)):   # the scheduler drops exact duplicates
            continue
        taken.append(i)
    return taken


def untouched_preserved(source, out, ranges):
    """Lines not touched by a match are unchanged: the physical lines of the source that no applied
    range overlaps appear in the output verbatim and in order -- those before the first touched line
    as a prefix of the output, those after the last touched line as its suffix."""
    if not ranges:
        return out == source
    lines = physical_lines(source)
    touched = [any(overlaps((a, b), r) or (r[0] == r[1] and a <= r[0] < b) for r in ranges)
               for (a, b, _) in lines]
    if not any(touched):
        return False
    first = touched.index(True)
    last = len(touched) - 1 - touched[::-1].index(True)
    head = "".join(ln for (_, _, ln) in lines[:first])
    tail = "".join(ln for (_, _, ln) in lines[last + 1:])
    if not out.startswith(head) or not out.endswith(tail) or len(head) + len(tail) > len(out):
        return False
    middle = out[len(head):len(out) - len(tail)] if tail else out[len(head):]
    k = 0
    for i in range(first, last + 1):
        if not touched[i]:
            j = middle.find(lines[i][2], k)
            if j < 0:
                return False
            k = j + len(lines[i][2])
    return True


def expected_applied(ms, source, count):
    """What the property says is applied: of the first `count` matches in yield order (all when
    count <= 0), those that touch no ignored line and overlap nothing taken before."""
    ilines = ignore_line_ranges(source)
    first = ms[:count] if count > 0 else ms
    idx = greedy_reference([(rng, None) for (rng, _, _) in first], ilines, dedupe=False)
    return [first[i] for i in idx]


def template_holes(repl):
    """Wildcard names that are nodes of the replacement template (not text inside one of its literals), with
    multiplicity; None when the template does not parse on its own."""
    try:
        body = _template_tree(repl, "stmt") if repl.strip() else []
    except (SyntaxError, ValueError):
        return None
    names = []
    for st in body:
        for n in ast.walk(st):
            if isinstance(n, ast.Name):
                m = re.fullmatch(HOLE % r"(\w+)", n.id)
                if m:
                    names.append(m.group(1))
    return names


def _string_constants(node):
    return Counter((type(n.value).__name__, n.value) for n in ast.walk(node)
                   if isinstance(n, ast.Constant) and isinstance(n.value, (str, bytes)))


def binding_constants_clause(repl, want, out):
    """What a wildcard is bound to reaches the output unchanged: every string / bytes constant of a node bound to a
    wildcard of the replacement template is a constant of the output, as often as the template uses the wildcard
    (over all applied matches), and a bound STATEMENT is a statement of the output with the same ast.dump.
    Independent of the reference tree: only the matcher's bindings and the parse of the output are used."""
    holes = template_holes(repl)
    if not holes or not want:
        return []
    try:
        out_tree = ast.parse(out)
    except SyntaxError:
        return []       # judged by the tree clause
    need, stmts = Counter(), []
    for (rng, _, groups) in want:
        d = groups_dict(groups)
        for name in holes:
            node = d.get(name)
            for nd in (node if isinstance(node, (list, tuple)) else [node]):
                if isinstance(nd, ast.AST):
                    need.update(_string_constants(nd))
                    if isinstance(nd, ast.stmt):
                        stmts.append((name, nd))
    have = _string_constants(out_tree)
    probs = []
    lost = [k for k in need if have[k] < need[k]]
    if lost:
        near = sorted((v for (_, v) in have if v not in {x for (_, x) in need}), key=repr)
        probs.append({"clause": "binding-constants",
                      "detail": f"string constant(s) {[v for (_, v) in lost]!r} of a bound node are not constants of the "
                                f"output {out!r} (constants only in the output: {near[:4]!r})"})
    if stmts:
        dumps = {ast.dump(n) for n in ast.walk(out_tree) if isinstance(n, ast.stmt)}
        for (name, nd) in stmts:
            if ast.dump(nd) not in dumps:
                probs.append({"clause": "binding-constants",
                              "detail": f"the statement bound to {{{{{name}}}}} ({ast.unparse(nd)[:200]!r}) is not a "
                                        f"statement of the output {out!r} (ast.dump)"})
                break
    return probs


def property_oracle(mods, pattern, repl, source, count, rec=None) -> list[dict]:
    """All clauses of C14 on one input, judged on the value sub()/subn() returned."""
    probs = []
    pm = mods["pattern_matching"]
    try:
        with common.quiet():
            out, n = pm.subn(pattern, repl, source, count) if count != 0 else pm.subn(pattern, repl, source)
    except ValueError as e:
        if str(e).startswith("Unfilled wildcards"):
            return []   # documented error for a replacement that uses an unknown wildcard
        return [{"clause": "no-crash", "detail": f"ValueError: {e}"}]
    except Exception as e:
        return [{"clause": "no-crash", "detail": f"{type(e).__name__}: {e}"}]
    with common.quiet():
        if (pm.sub(pattern, repl, source, count) if count != 0 else pm.sub(pattern, repl, source)) != out:
            probs.append({"clause": "sub-is-subn", "detail": "sub() and subn()[0] differ"})
    ms = all_matches(mods, pattern, source)
    ilines = ignore_line_ranges(source)
    if not ms:
        if out != source:
            probs.append({"clause": "no-match-identity", "detail": f"{out!r}"})
        return probs
    want = expected_applied(ms, source, count)
    ranges = [rng for (rng, _, _) in want]
    if count > 0 and n > count:
        probs.append({"clause": "count", "detail": f"subn reports {n} replacements for count={count}"})
    for (a, b) in ilines:
        if source[a:b].rstrip("\r\n") not in out:
            probs.append({"clause": "ignore", "detail": f"ignored line {source[a:b]!r} not in the output"})
    try:
        ref = reference_tree(source, repl, want)
        ref_dump = dump_norm(ref)
        compile(ast.parse(ast.unparse(ref)), "<ref>", "exec")
    except (OutsideProperty, SyntaxError, ValueError):
        ref_dump = None   # the tree-level substitution is not a program: outside the property
    if ref_dump is not None:
        try:
            out_dump = dump_norm(out)
        except SyntaxError:
            out_dump = "<does not parse>"
        if out_dump != ref_dump:
            probs.append({"clause": "tree", "detail": f"output {out!r} is not the source tree with the nodes of "
                          f"the applied matches {ranges} replaced; expected {ast.unparse(ref)!r}"})
        elif not untouched_preserved(source, out, ranges):
            probs.append({"clause": "untouched-lines", "detail": f"{out!r}"})
    elif out != source and not untouched_preserved(source, out, ranges):
        probs.append({"clause": "untouched-lines", "detail": f"{out!r}"})
    probs += binding_constants_clause(repl, want, out)
    if pattern == repl:
        try:
            same = dump_norm(out) == dump_norm(source)
        except SyntaxError:
            same = False
        if not same:
            probs.append({"clause": "self-substitution", "detail": f"{out!r}"})
    return probs


# ---- signature predicates of known findings (keyed by sig=) -------------------------------------


ATOMIC = (ast.Name, ast.Constant, ast.Call, ast.Attribute, ast.Subscript, ast.List, ast.Dict, ast.Set,
          ast.ListComp, ast.SetComp, ast.DictComp, ast.GeneratorExp, ast.Tuple)


def _can_lose_precedence(text) -> bool:
    """Is the text an expression whose top node is an operator application (or anything we cannot classify)?"""
    t = text.strip()
    try:
        node = ast.parse(t, mode="eval").body
    except (SyntaxError, ValueError):
        return True
    if isinstance(node, ast.Tuple):
        return not (t.startswith("(") and t.endswith(")"))
    return not isinstance(node, ATOMIC)


def _parenthesised_variants(mods, case):
    """None unless the output of sub() is exactly what pasting the unparenthesised texts at the
    expected matches gives (same tree; or the source when that text does not parse).  Otherwise
    (reference dump, dump with every binding parenthesised, dump with every binding and every expression
    replacement parenthesised)."""
    import textwrap
    pattern, repl, source, count = case["pattern"], case["repl"], case["source"], case["count"]
    want = expected_applied(all_matches(mods, pattern, source), source, count)
    if not want:
        return None
    with common.quiet():
        out = mods["pattern_matching"].sub(pattern, repl, source, count)
    ms = {rng: (binds, groups) for (rng, binds, groups) in want}
    got = sorted(ms, reverse=True)
    text_p = text_a = text_b = source
    for r in got:
        binds, groups = ms[r]
        root = groups_dict(groups).get("root")
        # same placement as find_replace: continuation lines follow the line the match starts on
        line = source[source.rfind("\n", 0, r[0]) + 1:r[1]].split("\n", 1)[0]
        ind = len(line) - len(line.lstrip(" ")) if line.strip() else 0

        def placed(fill):
            filled = re.sub(r"\{\{(\w+)\}\}", lambda m: fill(binds[m.group(1)]), repl)
            first, nl, rest = textwrap.dedent(filled).partition("\n")
            return first + nl + textwrap.indent(rest, " " * ind)
        # parentheses are put around texts that can lose to their context only: an atom (name, literal, call,
        # display ...) has no precedence to lose -- a brace of a set display merging with the brace of an
        # f-string field is not a precedence matter
        plain, par = placed(lambda t: t), placed(lambda t: "(" + t + ")" if _can_lose_precedence(t) else t)
        text_p = text_p[:r[0]] + plain + text_p[r[1]:]
        text_a = text_a[:r[0]] + par + text_a[r[1]:]
        whole = isinstance(root, ast.expr) and _can_lose_precedence(plain)
        text_b = text_b[:r[0]] + ("(" + par + ")" if whole else par) + text_b[r[1]:]

    def d(t):
        try:
            return dump_norm(t)
        except SyntaxError:
            return None
    # (1) the implementation did paste the plain texts at exactly the expected matches
    if d(text_p) is None:
        if out != source:
            return None
    elif d(out) != d(text_p):
        return None
    try:
        ref = dump_norm(reference_tree(source, repl, [(r, ms[r][0], ms[r][1]) for r in got]))
    except (OutsideProperty, SyntaxError, ValueError, LookupError):
        return None
    return ref, d(text_a), d(text_b)


def sig_binding_precedence_lost(mods, case) -> bool:
    """The output is the plain textual splice at the expected matches, and the only thing wrong with
    it is a missing pair of parentheses around a binding: filling the template with every binding
    parenthesised gives exactly the tree-level result."""
    v = _parenthesised_variants(mods, case)
    return bool(v) and v[1] == v[0]


def sig_replacement_precedence_lost(mods, case) -> bool:
    """As above, but parenthesising the bindings is not enough: parenthesising the whole (expression)
    replacement as well gives exactly the tree-level result -- the replacement binds less tightly than
    its new context."""
    v = _parenthesised_variants(mods, case)
    return bool(v) and v[1] != v[0] and v[2] == v[0]


def _expected(mods, case):
    return expected_applied(all_matches(mods, case["pattern"], case["source"]), case["source"], case["count"])


def sig_string_line_trailing_blank(mods, case) -> bool:
    """A string literal of the source spans several lines and one of its inner lines ends in blanks
    (they are stripped when the original spelling of the literal is put back)."""
    try:
        toks = list(tokenize.generate_tokens(io.StringIO(case["source"]).readline))
    except (tokenize.TokenError, SyntaxError, IndentationError):
        return False
    for t in toks:
        if t.type == tokenize.STRING and t.start[0] != t.end[0]:
            if any(l != l.rstrip(" \t") for l in t.string.split("\n")[:-1]):
                return True
    return False


def sig_fstring_debug_specifier(mods, case) -> bool:
    """An expected match is the expression of a self-documenting f-string field, f'{x=}'."""
    src = case["source"]
    for (rng, _, _) in _expected(mods, case):
        if re.match(r"\s*=\s*[}!:]", src[rng[1]:]) and src[:rng[0]].rstrip().endswith("{"):
            return True
    return False


def sig_elif_clause_matched(mods, case) -> bool:
    """An expected match is the nested If of an `elif` clause: its range starts at the keyword elif."""
    src = case["source"]
    return any(src[rng[0]:rng[0] + 4] == "elif" for (rng, _, _) in _expected(mods, case))


def sig_statement_shares_line(mods, case) -> bool:
    """An expected STATEMENT match shares its physical line with other code: a block header in front of
    it (one-line body) or `;`-separated neighbours."""
    src = case["source"]
    lines = physical_lines(src)
    for (rng, _, groups) in _expected(mods, case):
        root = groups_dict(groups).get("root")
        if isinstance(root, ast.expr):
            continue
        first = next(l for l in lines if l[0] <= rng[0] < l[1] or (rng[0] == l[1] == len(src)))
        last = next(l for l in lines if l[0] < rng[1] <= l[1])
        before = src[first[0]:rng[0]]
        after = src[rng[1]:last[1]].strip()
        if before.strip() or (after and not after.startswith("#")):
            return True
    return False


def sig_comment_ends_replacement(mods, case) -> bool:
    """The replacement template ends in a comment and the source line goes on after an expected match."""
    src, repl = case["source"], case["repl"]
    last = repl.split("\n")[-1]
    try:
        has_comment = any(t.type == tokenize.COMMENT for t in tokenize.generate_tokens(io.StringIO(last).readline))
    except (tokenize.TokenError, SyntaxError, IndentationError):
        has_comment = "#" in last
    if not has_comment:
        return False
    lines = physical_lines(src)
    for (rng, _, _) in _expected(mods, case):
        last_line = next(l for l in lines if l[0] < rng[1] <= l[1])
        if src[rng[1]:last_line[1]].strip():
            return True
    return False


def sig_compound_binding_shares_line(mods, case) -> bool:
    """A wildcard of the replacement template shares its template line with other code and an expected match binds
    it to a compound statement (which cannot follow `;` or other text on a line)."""
    shared = set()
    for line in case["repl"].split("\n"):
        for m in re.finditer(r"\{\{(\w+)\}\}", line):
            rest = (line[:m.start()] + line[m.end():]).strip()
            if rest and not rest.startswith("#"):
                shared.add(m.group(1))
    if not shared:
        return False
    for (_, _, groups) in _expected(mods, case):
        d = groups_dict(groups)
        for name in shared:
            nd = d.get(name)
            if isinstance(nd, ast.stmt) and isinstance(getattr(nd, "body", None), list):
                return True
    return False


SIGS = {"compound_binding_shares_line": sig_compound_binding_shares_line,
        "binding_precedence_lost": sig_binding_precedence_lost,
        "replacement_precedence_lost": sig_replacement_precedence_lost,
        "string_line_trailing_blank": sig_string_line_trailing_blank,
        "fstring_debug_specifier": sig_fstring_debug_specifier,
        "elif_clause_matched": sig_elif_clause_matched,
        "statement_shares_line": sig_statement_shares_line,
        "comment_ends_replacement": sig_comment_ends_replacement}
SITES = {SITE_FORMAT, "processing.find_replace", "core.has_ignore_comment", "processing._do_rewrite"}
EXPLAINABLE = {"tree", "self-substitution", "ignore", "untouched-lines", "binding-constants"}


def match_finding(mods, findings, case, probs):
    """A failing case is suppressed only by a listed finding whose site and predicate both hold; a crash,
    a wrong count, a changed text where there is no match are never explained."""
    if any(p["clause"] not in EXPLAINABLE for p in probs):
        return None
    for f in findings:
        if f.kind != "finding" or f.fields.get("site") not in SITES:
            continue
        pred = SIGS.get(f.fields.get("sig", ""))
        try:
            if pred and pred(mods, case):
                return f
        except Exception:
            continue
    return None


# ------------------------------------------------------------------------------------------------
# generators

EXPR_PATTERNS = [
    ("f({{x}})", ["x"]),
    ("{{a}} + {{b}}", ["a", "b"]),
    ("{{a}} * {{b}}", ["a", "b"]),
    ("f({{x}}, {{y}})", ["x", "y"]),
    ("{{x}} + 1", ["x"]),
    ("not {{x}}", ["x"]),
    ("{{x}}.real", ["x"]),
    ("{{g}}({{x}})", ["g", "x"]),
]
STMT_PATTERNS = [
    ("x = {{v}}", ["v"]),
    ("{{t}} = f({{v}})", ["t", "v"]),
    ("print({{v}})", ["v"]),
    ("return {{v}}", ["v"]),
    ("x = {{a}}\ny = {{b}}", ["a", "b"]),
    ("{{t}} = {{a}}\nprint({{t}})", ["t", "a"]),
    ("if {{c}}:\n    x = {{v}}", ["c", "v"]),
]


def expr_replacements(names):
    a = names[0]
    b = names[-1]
    res = ["g()", "g({{%s}})" % a, "g({{%s}}, {{%s}})" % (a, a), "{{%s}} * 2" % a, "{{%s}}" % a,
           "h({{%s}}, {{%s}})" % (b, a), "{{%s}} - {{%s}}" % (a, b), "g(\n    {{%s}}\n)" % a,
           "-{{%s}}" % b, "{{%s}} < {{%s}}" % (a, b), "k({{root}})",
           # deleting an expression: neither the plain nor the `pass` candidate parses (rolled back)
           ""]
    return res


def comment_replacements(names):
    """Replacement texts that carry an ignore comment themselves: not a meaningful use of sub() (the
    comment swallows the rest of the line), used for the correspondence only -- _do_rewrite re-tests
    has_ignore_comment on the text as rewritten so far."""
    return ["{{%s}} # pyrefact: ignore" % names[0]]


def stmt_replacements(names):
    a = names[0]
    b = names[-1]
    return ["x = g({{%s}})" % a, "x = {{%s}}\ny = {{%s}}" % (a, a), "if q:\n    x = {{%s}}" % b, "pass", "",
            "x = {{%s}} * 2" % a, "w = {{%s}}\n\nz = {{%s}}" % (b, a), "    x = h({{%s}})\n    u = 0" % a,
            "{{%s}}" % a, "while {{%s}}:\n    x = 1\n    break" % a,
            # body not indented in the template: valid only through _do_rewrite's extra-indent retry
            "if q:\nx = {{%s}}" % a, "for i in q:\nx = {{%s}}\nu = i" % b]


FIXED_SOURCES = [
    "y = f(1 + 2)\n",
    "y = (1 + 2) * 3\n",
    "x = f(f(1))\n",
    "x = f(1) + f(2)\nz = f(3)  # pyrefact: ignore\n",
    "x = f(1) + f(2)\nz = f(3)  # pyrefact: ignore",
    "if a:\n    x = 1\n",
    "if a:\n    x = 1\n    y = 2\nelse:\n    x = f(2)\n    print(x)\n",
    "def k(u):\n    if u:\n        x = u + 1\n        y = f(x, 2)\n    return f(u) * 2 + 1\n",
    "x = 1\ny = 2\nx = 3\ny = 4\n",
    "t = f(a or b)\nprint(t)\nu = not a + 1\n",
    "x = (a + 1) + 1  # pyrefact: skip_file\nc = d + 1\n\n\nx = f(  #pyrefact :  ignore\n    2)\nx = 5",
    "for i in z:\n    x = i.real\n    print(x)  # comment\n    y = f(i)(2)\n",
    "x = f(\"s\") + f('t')\nprint(-x * 2)\n",
    "z = [f(i) for i in f(q) if not f(i) + 1]\n",
    "x = a if f(b) else c\ny = lambda: f(1)\n",
    "x = f(  # pyrefact: ignore\n    f(1) + 1)\ny = f(f(2))\n",
    "if a:\n    x = 1\n    y = 2  # pyrefact: ignore\n    x = 3\n    y = 4\n",
    "if a:\n    x = 1\nelse:\n    x = 2\nwhile b:\n    print(b)\nreturn_value = f(3)\n",
]


class Gen:
    """Seeded generator of (pattern, replacement, source, count) with nested/adjacent matches, indented
    targets, ignore comments, statement-sequence patterns."""

    def __init__(self, rnd):
        self.rnd = rnd

    def expr(self, d=0):
        r = self.rnd
        if d >= 3 or r.random() < 0.25:
            return r.choice(["a", "b", "1", "2", "u", "x", "'s'"])
        k = r.choice(["call", "call", "call2", "add", "add1", "mul", "not", "attr", "paren", "neg", "lt", "or", "gcall"])
        e = lambda: self.expr(d + 1)
        if k == "call":
            return f"f({e()})"
        if k == "call2":
            return f"f({e()}, {e()})"
        if k == "gcall":
            return f"{r.choice(['g', 'h'])}({e()})"
        if k == "add":
            return f"{e()} + {e()}"
        if k == "add1":
            return f"{e()} + 1"
        if k == "mul":
            return f"{e()} * {e()}"
        if k == "not":
            return f"(not {e()})"
        if k == "attr":
            return f"{r.choice(['a', 'u', 'f(1)'])}.real"
        if k == "paren":
            return f"({e()} + {e()})"
        if k == "neg":
            return f"-{e()}" if r.random() < 0.5 else f"-({e()})"
        if k == "lt":
            return f"({e()} < {e()})"
        return f"({e()} or {e()})"

    def stmts(self, ind, depth, fn):
        r = self.rnd
        out = []
        for _ in range(r.randint(1, 4)):
            k = r.choice(["assign", "assign", "assignx", "xy", "print", "tprint", "if", "ifx", "ret", "for", "blank", "expr",
                          "iffg", "forelse"])
            pad = " " * ind
            cm = r.choice(["", "", "", "", "  # pyrefact: ignore", "  # note", "  #pyrefact:skip_file"])
            if k == "assign":
                out.append(f"{pad}{r.choice(['t', 'u', 'x', 'y'])} = {self.expr()}{cm}\n")
            elif k == "assignx":
                out.append(f"{pad}x = {self.expr()}{cm}\n")
            elif k == "xy":
                out.append(f"{pad}x = {self.expr()}{cm}\n")
                out.append(f"{pad}y = {self.expr()}\n")
            elif k == "print":
                out.append(f"{pad}print({self.expr()}){cm}\n")
            elif k == "iffg":
                kw = r.choice(["if", "if", "while"])
                out.append(f"{pad}{kw} {self.expr(2)}:{cm}\n{pad}    f({self.expr(2)})\n")
                out.append(f"{pad}{r.choice(['    ', ''])}g({self.expr(2)})\n")
            elif k == "forelse":
                inner = r.random() < 0.5
                out.append(f"{pad}for i in {self.expr(2)}:\n{pad}    if {self.expr(2)}:\n{pad}        break\n")
                out.append(f"{pad}    else:\n{pad}        g({self.expr(2)})\n" if inner
                           else f"{pad}else:\n{pad}    g({self.expr(2)})\n")
            elif k == "tprint":
                out.append(f"{pad}t = {self.expr()}\n{pad}print(t){cm}\n")
            elif k == "expr":
                out.append(f"{pad}{self.expr()}{cm}\n")
            elif k == "ret" and fn:
                out.append(f"{pad}return {self.expr()}{cm}\n")
                break
            elif k == "blank" and out:
                out.append("\n")
            elif k in ("if", "ifx", "for") and depth < 2:
                if k == "ifx":
                    out.append(f"{pad}if {self.expr()}:{cm}\n{pad}    x = {self.expr()}\n")
                elif k == "if":
                    out.append(f"{pad}if {self.expr()}:{cm}\n" + self.stmts(ind + 4, depth + 1, fn))
                    if r.random() < 0.3:
                        out.append(f"{pad}else:\n" + self.stmts(ind + 4, depth + 1, fn))
                else:
                    out.append(f"{pad}for i in {self.expr()}:\n" + self.stmts(ind + 4, depth + 1, fn))
            else:
                out.append(f"{pad}u = {self.expr()}\n")
        return "".join(out)

    def source(self):
        r = self.rnd
        if r.random() < 0.3:
            s = "def k(u):\n" + self.stmts(4, 1, True)
            if r.random() < 0.5:
                s += self.stmts(0, 0, False)
        else:
            s = self.stmts(0, 0, False)
        if r.random() < 0.35 and s.endswith("\n"):
            s = s[:-1]
        return s

    def case(self):
        r = self.rnd
        if r.random() < 0.12:
            pat, repls = r.choice(RESTRUCTURE)
            repl = r.choice(repls)
            count = r.choice([0, 0, 1, 2])
            return (pat, repl, self.source(), count)
        if r.random() < 0.55:
            pat, names = r.choice(EXPR_PATTERNS)
            repl = r.choice(expr_replacements(names) + [pat] + comment_replacements(names))
        else:
            pat, names = r.choice(STMT_PATTERNS)
            repl = r.choice(stmt_replacements(names) + [pat])
        if r.random() < 0.03:
            repl = repl + " + {{zz}}" if repl else "{{zz}}"
        count = r.choice([0, 0, 0, 1, 1, 2, 3, -1])
        return (pat, repl, self.source(), count)


# compound-statement / statement-sequence patterns whose replacement has the same non-blank lines up to
# LEADING whitespace (a statement moved out of / into a block, if/else <-> for/else ...): leading
# whitespace is block structure, so these are real rewrites although _do_rewrite's "whitespace-only
# change" guard sees almost identical texts.  Each entry: pattern, replacements.
IF_FG = "if {{c}}:\n    f({{a}})\n    g({{b}})"
IF_F_G = "if {{c}}:\n    f({{a}})\ng({{b}})"
FOR_IFELSE = "for {{i}} in {{it}}:\n    if {{c}}:\n        break\n    else:\n        g({{x}})"
FOR_ELSE = "for {{i}} in {{it}}:\n    if {{c}}:\n        break\nelse:\n    g({{x}})"
WHILE_FG = "while {{c}}:\n    f({{a}})\n    g({{b}})"
WHILE_F_G = "while {{c}}:\n    f({{a}})\ng({{b}})"
IF_IF = "if {{c}}:\n    if {{d}}:\n        f({{a}})\n    g({{b}})"
IF_IF_IN = "if {{c}}:\n    if {{d}}:\n        f({{a}})\n        g({{b}})"
RESTRUCTURE = [
    (IF_FG, [IF_F_G, "if not {{c}}:\n    f({{a}})\ng({{b}})", IF_FG, "if {{c}}:\n    f({{a}})\n    g({{b}})  "]),
    (IF_F_G, [IF_FG, IF_F_G]),
    (FOR_IFELSE, [FOR_ELSE, FOR_IFELSE]),
    (FOR_ELSE, [FOR_IFELSE]),
    (WHILE_FG, [WHILE_F_G]),
    (WHILE_F_G, [WHILE_FG]),
    (IF_IF, [IF_IF_IN, "if {{c}}:\n    if {{d}}:\n        f({{a}})\ng({{b}})"]),
    (IF_IF_IN, [IF_IF]),
]
RESTRUCTURE_SOURCES = [
    "if q:\n    f(1)\n    g(2)\nh()\n",
    "def k():\n    if q:\n        f(1)\n        g(2)\n    h()\nk()\n",
    "def k():\n    if q:\n        f(1)\n    g(2)\n    h()\nk()\n",
    "for i in (0, 0, 1):\n    if i:\n        break\n    else:\n        g(i)\nh()\n",
    "def k(z):\n    for i in z:\n        if i:\n            break\n    else:\n        g(i)\n    return 1\n",
    "while q:\n    f(q)\n    g(q + 1)\nif u:\n    f(u)\ng(2)",
    "if a:\n    if b:\n        f(1)\n    g(2)\nif c:\n    if d:\n        f(3)\n        g(4)\n",
    "if q:\n    f(1)\n    g(2)  # pyrefact: ignore\nif r:\n    f(3)\n    g(4)\nif s:\n    f(5)\n    g(6)\n",
    "class K:\n    def m(self):\n        while self:\n            f(self)\n            g(0)\n        if self:\n            f(1)\n        g(2)\n",
]


def restructure_family():
    for (pat, repls) in RESTRUCTURE:
        for repl in repls:
            for src in RESTRUCTURE_SOURCES:
                for count in (0, 1):
                    yield (pat, repl, src, count)


# ------------------------------------------------------------------------------------------------
# round 4 families (bug-hunt reports): string-literal shapes, sole-argument generators, elif clauses,
# one-line bodies and `;` neighbours, tab / CR / CRLF / other line separators, templates with comments,
# multi-line strings and compound statements.  Oracle sweep on all of them; correspondence where the
# text is inside the model's domain.

STRING_SOURCES = [
    "f(r'\\n')\n",                       # raw string
    "v = f(R'\\d+', 1)\nw = '\\\\d+'\n",
    "f(b'ab', rb'\\d')\n",
    "x = f('a\\tb', \"it's\")\n",          # escapes
    "x = f('\\x41\\u00e9')\n",
    "a = '\\\\n'\nb = x\n",
    "x = \'\'\'a \nb\'\'\'\n",                  # multi-line string, trailing blank inside
    "x = \'\'\'a\nb\'\'\'\ny = 1\n",
    "if c:\n    x = \"\"\"a\n  b\n\"\"\"\n",
    's = f"abc{x}"\n',                     # f-strings
    "s = f'abc{x}' + 'abc'\n",
    "t = f'{x=}' + f'{x!r:>10}'\n",
    "u = f(f'{x}{f(1)}', f\"{f'{x}'}\")\n",
    "w = f'id {x}'\nv = g(\"id\")\n",
    "w = f'id{x}'\nv = f(\"id\")\n",
]
GENEXP_SOURCES = [
    "z = f(i for i in x)\n",
    "n = sum(len(v) for v in w)\n",
    "n = sum((len(v) for v in w), 0) + max(v for v in w)\n",
    "if any(f(i) for i in x):\n    z = list(i for i in x)\n",
    "z = f((i for i in x))\nq = [i for i in x]\n",
]
BLOCK_SOURCES = [
    "if a:\n    p()\nelif b:\n    q()\n",
    "if a:\n    p()\nelif b:\n    q()\nelif c:\n    x = 1\nelse:\n    r()\n",
    "if c: x = 1\n",
    "if c: x = 1\nelse: x = 1\n",
    "for i in j: x = 1\n",
    "class A: x = 1\n",
    "if a: w = 0; x = 1\n",
    "if c:\n    x = 1; a = 0\n",
    "x = 1; w = 3\n",
    "y = f() + 1\n",
    "if a:\n    p()\nif b:\n    for i in j:\n        q()\n",
    "def k():\n    if b:\n        while c:\n            q()\n            x = 1\n    return f()\n",
    "try:\n    x = 1\n    y = 2\nfinally:\n    x = 1\n    y = 2\n",
]
LAYOUT_SOURCES = [
    "if a:\n\tx = 1\n",                                   # tab indentation
    "def k():\n\tif a:\n\t\tx = 1\n\treturn f()\n",
    "if c:\r    x = 1\r",                                 # CR only
    "if c:\r\n    x = 1\r\ny = f()\r\n",                  # CRLF
    "x = 1 \x0c # pyrefact: ignore\n",                    # form feed before the comment
    "x = 1; s = '\u2028'  # pyrefact: ignore\n",
    "s = \'\'\'\n# pyrefact: ignore\'\'\'; f()\n",           # comment-like text inside a string
    "x = f('a\u2028b')\n",
    "x = f('a\x0cb')  # c\ny = 2\n",
]
HUNT_RULES = [
    # (pattern, replacements)
    ("f({{a}})", ["g({{a}})", "f({{a}})", "g({{a}}, {{a}})"]),
    ("f({{a}}, {{b}})", ["g({{b}}, {{a}})"]),
    ("x = {{a}}", ["y = {{a}}", "x = {{a}}"]),
    ("x", ["y", "r'\\n'"]),
    ("'abc'", ["'xyz'"]),
    ("\"id\"", ["'id'", "h('id')"]),
    ("({{a}} for {{b}} in {{c}})", ["y", "g({{a}}, {{c}})", "[{{a}} for {{b}} in {{c}}]", "({{a}} for {{b}} in {{c}})",
                                     "({{a}} for {{b}} in h({{c}}))"]),
    ("sum({{g}})", ["sum(list({{g}}))"]),
    ("if {{c}}:\n    {{b}}", ["if not {{c}}:\n    {{b}}", "while {{c}}:\n    {{b}}", "if {{c}}:\n    {{b}}"]),
    ("x = 1", ["x = 2\ny = 3", "if d:\n    x = 2", "x = 2  # c", "x = \'\'\'a\nb\'\'\'", "x = 2"]),
    ("f()", ["g()  # c", "g()"]),
    ("\'\'\'a\nb\'\'\'", ["\'\'\'a\n\nb\'\'\'"]),
    ("\'\'\'a \nb\'\'\'", ["\'\'\'a\nb\'\'\'"]),
    ("x = 1\ny = 2", ["z = 3"]),
    ("{{t}} = {{v}}", ["{{t}} = (\n    {{v}}\n)", "{{t}} = h(\'\'\'k\n  l\'\'\', {{v}})"]),
]


def hunt_family():
    srcs = STRING_SOURCES + GENEXP_SOURCES + BLOCK_SOURCES + LAYOUT_SOURCES
    for (pat, repls) in HUNT_RULES:
        for repl in repls:
            for src in srcs:
                yield (pat, repl, src, 0)


# ------------------------------------------------------------------------------------------------
# round 5 family (seed C14-d): binding shape x template shape x match position.  What a wildcard is bound
# to (expression / simple statement / compound statement; with and without a string literal that spans
# lines: multi-line docstring of a def / class, multi-line string argument, backslash-continued literal,
# f-string over lines) x where the wildcard stands in the replacement template (alone on its line, indented
# inside a block of the template, after other text; template with / without a multi-line literal of its own)
# x the indentation of the line the match starts on (0, 4, 8, one tab).  Each binding is written at
# indentation 0, relative to the statement that holds it.

STMT_BINDINGS = [
    # simple statements
    "y = 2",
    "y = h('''a\n  b\n''', 1)",                      # multi-line string argument
    "y = 'a\\\n  b'",                              # backslash-continued literal
    "y = f'''x{z}\n  w'''",                         # f-string over lines
    # compound statements
    "for i in z:\n    p(i)",
    "def dump(self):\n    'One line.'\n    return 1",
    "def dump(self):\n    \"\"\"Dump the state.\n\n    Usage:\n        dump()\n    \"\"\"\n    return 1",
    "class Config:\n    \"\"\"Settings.\n\n    key = value\n    \"\"\"\n    x = 1",
    "class Config:\n    \"\"\"Settings.\n      more\n    \"\"\"\n    def get(self):\n        \"\"\"Get.\n\n        it\n        \"\"\"\n        return 0",
    "async def dump():\n    '''a\nb'''\n    return 1",     # continuation line at column 0 of the file
    "def dump():\n    y = h('''a\n  b\n''', 1)\n    return y",
    "while q:\n    y = f'''x{z}\n  w'''\n    break",
]
STMT_BINDING_RULES = [
    # (pattern, replacement templates)
    ("if DEBUG:\n    {{stmt}}", [
        "{{stmt}}",                                               # alone on its line
        "if not DEBUG:\n    {{stmt}}",                            # indented inside a block of the template
        "if DEBUG:\n    if more:\n        {{stmt}}\n    done()",  # two levels; text after it
        "pass; {{stmt}}",                                         # after other text
        "s = '''k\n  l'''\n{{stmt}}",                             # template with a multi-line literal of its own
        "if DEBUG:\n    s = '''k\n  l'''\n    {{stmt}}",
        "{{stmt}}\ns = h('''k\n  l''')",
    ]),
    ("try:\n    {{stmt}}\nexcept Exception:\n    raise", [
        "{{stmt}}",
        "try:\n    {{stmt}}\nfinally:\n    done()",
        "s = '''k\n  l'''\n{{stmt}}",
    ]),
]
EXPR_BINDINGS = [
    "1 + 2",
    "'''a\n  b\n'''",
    "'a\\\n  b'",
    "f'''x{z}\n  w'''",
    "h('''a\n  b''', [1,\n  2])",
    "lambda: '''a\n  b'''",
]
EXPR_BINDING_RULES = [
    ("f({{e}})", [
        "g({{e}})",
        "{{e}}",
        "g(\n    {{e}}\n)",                     # indented inside the template
        "h(0, {{e}})",                          # after other text
        "h('''k\n  l''', {{e}})",               # template with a multi-line literal of its own
        "h(\n    '''k\n  l''',\n    {{e}})",
    ]),
]
# the line of the match at indentation 0 / 4 / 8 / one tab: (prefix lines, indentation, suffix lines)
MATCH_POSITIONS = [
    ("import os\n", "", "print(1)\n"),
    ("class Client:\n    name = 'c'\n\n", "    ", "\n    def other(self):\n        return 1\n"),
    ("def make():\n    for _ in range(1):\n", "        ", "    return 1\n"),
    ("class Client:\n\tname = 'c'\n", "\t", "\tother = 2\n"),
]


def _at(indentation, text, unit="    "):
    """The statement text (written at indentation 0 with 4-blank levels) on lines indented by `indentation`;
    lines that begin inside a string literal are content and stay as they are."""
    inside = set(string_literal_lines(text))
    out = []
    for i, line in enumerate(text.split("\n")):
        if i in inside or not line.strip():
            out.append(line)
        else:
            k = (len(line) - len(line.lstrip(" "))) // 4
            out.append(indentation + unit * k + line.lstrip(" "))
    return "\n".join(out)


def binding_family(positions=MATCH_POSITIONS):
    for (pre, ind, post) in positions:
        unit = "\t" if ind == "\t" else "    "
        for (pat, repls) in STMT_BINDING_RULES:
            for b in STMT_BINDINGS:
                # code lines of the binding go into the slot, lines inside its literals stay as written
                block = _at(ind, pat.replace("    {{stmt}}", _at("    ", b)), unit)
                for repl in repls:
                    yield (pat, repl, pre + block + "\n" + post, 0)
        for (pat, repls) in EXPR_BINDING_RULES:
            for e in EXPR_BINDINGS:
                for stmt in ("x = " + pat.replace("{{e}}", e), "if c:\n    y = " + pat.replace("{{e}}", e) + " + 1"):
                    block = _at(ind, stmt, unit)
                    for repl in repls:
                        yield (pat, repl, pre + block + "\n" + post, 0)


def fixed_family(with_comments=False):
    """Seed-independent small-scope family: every pattern x every replacement of its kind x the fixed
    sources x count in {0, 1, 2}."""
    for (pat, names) in EXPR_PATTERNS:
        for repl in expr_replacements(names) + [pat, pat + "  "] + (comment_replacements(names) if with_comments else []):
            for src in FIXED_SOURCES:
                for count in (0, 1, 2):
                    yield (pat, repl, src, count)
    for (pat, names) in STMT_PATTERNS:
        for repl in stmt_replacements(names) + [pat, pat + "  ", pat + "\n\n"]:
            for src in FIXED_SOURCES:
                for count in (0, 1, 2):
                    yield (pat, repl, src, count)
    yield from restructure_family()


# ------------------------------------------------------------------------------------------------
# Coq side


PACKED = True


def gtext(s: str) -> str:
    """A text as packed primitive integers (8 chars of 7 bits each) or, for replays, as a string
    literal; outside printable ASCII + newline as a list of code points."""
    if all(c == "\n" or 32 <= ord(c) < 127 for c in s):
        if PACKED:
            vals = []
            for k in range(0, len(s), 8):
                vals.append(sum(ord(c) << (7 * i) for i, c in enumerate(s[k:k + 8])))
            return "(TP [" + "; ".join(str(v) for v in vals) + "]%uint63)"
        return '(T "' + s.replace('"', '""') + '"%string)'
    return common.gtext(s)


def g_range(r):
    return f"({gz(r[0])}, {gz(r[1])})"


def g_binds(d):
    return glist([f"({gtext(k)}, {gtext(v)})" for k, v in d.items()])


def string_literal_lines(text):
    """0-based numbers of the lines of the text that begin inside a string literal (our own tokenizer
    pass, independent of processing._lines_inside_string_literals)."""
    out = set()
    try:
        for tok in tokenize.generate_tokens(io.StringIO(text).readline):
            if tok.type == tokenize.STRING or tokenize.tok_name[tok.type] in ("FSTRING_MIDDLE", "FSTRING_END"):
                out.update(range(tok.start[0], tok.end[0]))
    except (tokenize.TokenError, SyntaxError, IndentationError):
        pass
    return sorted(out)


def generator_shares_call_parens(source, rng):
    """Is the node at rng a generator expression that is the only argument of a call and written
    with that call's parentheses (structural criterion on our own parse)?"""
    try:
        tree = ast.parse(source)
    except SyntaxError:
        return False
    for node in ast.walk(tree):
        if isinstance(node, ast.Call) and len(node.args) == 1 and not node.keywords \
                and isinstance(node.args[0], ast.GeneratorExp) and node_span([node.args[0]], source) == tuple(rng):
            f_end = node_span([node.func], source)[1]
            return source[f_end:rng[0]].strip() == ""
    return False


def wrap_ranges(source, rec):
    """Scheduled ranges whose replacement must get the call's parentheses back: shared parentheses,
    and the replacement is not a generator expression itself."""
    out = []
    for (_, _, a, b, new) in rec["sched"]:
        if new.strip() and generator_shares_call_parens(source, (a, b)):
            try:
                again = isinstance(ast.parse(new.strip(), mode="eval").body, ast.GeneratorExp)
            except SyntaxError:
                again = False
            if not again:
                out.append((a, b))
    return out


def g_subn_case(case, ms, rec, mods=None) -> str:
    pat, repl, source, count = case
    mods = mods or common.import_impl()
    import textwrap
    matches = glist([f"({g_range(rng)}, {g_binds(b)})" for (rng, b, _) in ms])
    # the tokenizer's answers (our own pass) about every text the model may ask about: the unparsed bindings and
    # the instantiated, dedented replacements
    asked = [v for (_, b, _) in ms for v in b.values() if "\n" in v] + [textwrap.dedent(f) for f in rec["filled"]]
    strl = glist([f"({gtext(t)}, {glist([f'{i}%nat' for i in string_literal_lines(t)])})"
                  for t in dict.fromkeys(asked) if string_literal_lines(t)])
    valid = glist([f"({gtext(t)}, {gbool(v)})" for t, v in rec["valid"].items()])
    if rec["error"]:
        items = "None"
    else:
        items = "(Some " + glist([f"({g_range(r)}, {gtext(t)})" for (r, t) in rec["items"]]) + ")"
    sched = glist([f"({gz(g)}, {gz(t)}, {gz(s)}, {gz(e)}, {gtext(n)})" for (g, t, s, e, n) in rec["sched"]])
    il = glist([g_range(r) for r in impl_ignore_line_ranges(mods, source)])
    coms = gopt(tokenizer_verdict(source), lambda cs: glist([f"{c}%nat" for c in cs]))
    probes = glist([f"({g_range(r)}, {gbool(v)})" for r, v in impl_ignore_probes(mods, source)])
    equiv = glist([f"({gtext(a)}, {gtext(b)}, {gbool(v)})" for (a, b), v in rec.get("equiv", {}).items()])
    n = rec["n"] if rec["n"] is not None else -1
    wraps = glist([g_range(r) for r in wrap_ranges(source, rec)])
    texts = {t for (_, _, a, b, t) in rec["sched"]} | {source[a:b] for (_, _, a, b, _) in rec["sched"]}
    mlstr = glist([gtext(t) for t in sorted(texts) if string_literal_lines(t)])
    return (f"(mkSubn {gtext(source)} {gtext(repl)} {gz(count)} {matches} {valid} {equiv} {wraps} {mlstr} {strl} {coms} {il} {probes} "
            f"{items} "
            f"{sched} {gtext(rec['cand'])} {gz(n)})")


HEADER = ("From Coq Require Import String List ZArith Uint63.\nImport ListNotations.\nOpen Scope Z_scope.\n"
          "Require Import Pyrefact.Base Pyrefact.SchedModel Pyrefact.SubstModel Pyrefact.SubstCases.\n"
          "Notation T := text_of_string.\nNotation TP := text_of_packed.\n")


def write_subn_file(path: Path, rows) -> None:
    body = ";\n  ".join(rows)
    path.write_text(HEADER + f"Definition cases : list subn_case := [\n  {body}\n].\n"
                    "Eval vm_compute in (bad_idx subn_case_ok cases).\n")


def model_subn_detail(wd: Path, row: str) -> str:
    p = wd / "replay_subn.v"
    p.write_text(HEADER + f"Definition c : subn_case := {row}.\n"
                 "Eval vm_compute in (subn_case_code c).\nEval vm_compute in (model_items c).\n"
                 "Eval vm_compute in (model_sched c).\nEval vm_compute in (model_cand c).\n"
                 "Eval vm_compute in (model_cand_d true c).\n")
    rc, out = common.coqc(p)
    return out[-6000:]


def decode_texts(s: str) -> str:
    """Render Coq `[104; 105]` lists as Python string literals in a model dump (for replays)."""
    def f(m):
        try:
            return repr("".join(chr(int(x)) for x in re.findall(r"-?\d+", m.group(0))))
        except (ValueError, OverflowError):
            return m.group(0)
    return re.sub(r"\[\s*\d+(?:;\s*\d+)*\s*\]", f, s)


# ------------------------------------------------------------------------------------------------
# K13: the precedence grammar (ExprModel.v) against CPython's ast.unparse / ast.parse and
# core.format_template.  Trees: ("atom", n) ("hole", x) ("un", u, e) ("bin", o, a, b) ("call", f, a)

UOPS = {"UNeg": (ast.USub, "TMinus"), "UNot": (ast.Not, "TNot")}
BOPS = {"BMul": "TStar", "BAdd": "TPlus", "BLt": "TLess", "BAnd": "TAnd", "BOr": "TOr"}
TOK_TEXT = {"TMinus": "-", "TNot": "not", "TStar": "*", "TPlus": "+", "TLess": "<", "TAnd": "and", "TOr": "or",
            "TLp": "(", "TRp": ")"}
TEXT_TOK = {v: k for k, v in TOK_TEXT.items()}
TOKEN_RE = re.compile(r"\s*(?:\{\{h(\d+)\}\}|v(\d+)|(not|and|or)\b|([-*+<()]))")


def e_ast(e):
    k = e[0]
    if k == "atom":
        return ast.Name(id=f"v{e[1]}", ctx=ast.Load())
    if k == "hole":
        return ast.Name(id=f"HOLE{e[1]}", ctx=ast.Load())
    if k == "un":
        return ast.UnaryOp(op=UOPS[e[1]][0](), operand=e_ast(e[2]))
    if k == "call":
        return ast.Call(func=ast.Name(id=f"v{e[1]}", ctx=ast.Load()), args=[e_ast(e[2])], keywords=[])
    o, a, b = e[1], e_ast(e[2]), e_ast(e[3])
    if o == "BMul":
        return ast.BinOp(left=a, op=ast.Mult(), right=b)
    if o == "BAdd":
        return ast.BinOp(left=a, op=ast.Add(), right=b)
    if o == "BLt":
        return ast.Compare(left=a, ops=[ast.Lt()], comparators=[b])
    return ast.BoolOp(op=ast.And() if o == "BAnd" else ast.Or(), values=[a, b])


def ast_e(node):
    """The tree of the fragment for an ast node, None when it has no counterpart (n-ary BoolOp,
    chained comparison, call of a non-name ...)."""
    if isinstance(node, ast.Name):
        m = re.fullmatch(r"v(\d+)", node.id)
        if m:
            return ("atom", int(m.group(1)))
        m = re.fullmatch(r"HOLE(\d+)", node.id)
        return ("hole", int(m.group(1))) if m else None
    if isinstance(node, ast.UnaryOp) and isinstance(node.op, (ast.USub, ast.Not)):
        a = ast_e(node.operand)
        return a and ("un", "UNeg" if isinstance(node.op, ast.USub) else "UNot", a)
    if isinstance(node, ast.BinOp) and isinstance(node.op, (ast.Mult, ast.Add)):
        a, b = ast_e(node.left), ast_e(node.right)
        return a and b and ("bin", "BMul" if isinstance(node.op, ast.Mult) else "BAdd", a, b)
    if isinstance(node, ast.Compare) and len(node.ops) == 1 and isinstance(node.ops[0], ast.Lt):
        a, b = ast_e(node.left), ast_e(node.comparators[0])
        return a and b and ("bin", "BLt", a, b)
    if isinstance(node, ast.BoolOp) and len(node.values) == 2:
        a, b = ast_e(node.values[0]), ast_e(node.values[1])
        return a and b and ("bin", "BAnd" if isinstance(node.op, ast.And) else "BOr", a, b)
    if isinstance(node, ast.Call) and isinstance(node.func, ast.Name) and len(node.args) == 1 \
            and not node.keywords and re.fullmatch(r"v\d+", node.func.id):
        a = ast_e(node.args[0])
        return a and ("call", int(node.func.id[1:]), a)
    return None


def tokens_of(text):
    """Tokenise the fragment's text (fail closed on anything else)."""
    out, pos = [], 0
    text = text.rstrip()
    while pos < len(text):
        m = TOKEN_RE.match(text, pos)
        if not m:
            raise ValueError(f"cannot tokenise {text!r} at {pos}")
        if m.group(1) is not None:
            out.append(("THole", int(m.group(1))))
        elif m.group(2) is not None:
            out.append(("TAtom", int(m.group(2))))
        else:
            out.append((TEXT_TOK[m.group(3) or m.group(4)],))
        pos = m.end()
    return out


def text_of_tokens(toks):
    return " ".join(f"v{t[1]}" if t[0] == "TAtom" else "{{h%d}}" % t[1] if t[0] == "THole" else TOK_TEXT[t[0]]
                    for t in toks)


def py_parse(text):
    """CPython's parser on the text: the tree of the fragment, or None (SyntaxError / no counterpart)."""
    try:
        tree = ast.parse(text, mode="eval")
    except SyntaxError:
        return None
    return ast_e(tree.body) or None


def template_text(t):
    return re.sub(r"HOLE(\d+)", lambda m: "{{h%s}}" % m.group(1), ast.unparse(e_ast(t)))


def g_expr(e):
    k = e[0]
    if k == "atom":
        return f"(Atom {e[1]})"
    if k == "hole":
        return f"(Hole {e[1]})"
    if k == "un":
        return f"(Un {e[1]} {g_expr(e[2])})"
    if k == "call":
        return f"(Call {e[1]} {g_expr(e[2])})"
    return f"(Bin {e[1]} {g_expr(e[2])} {g_expr(e[3])})"


def g_toks(toks):
    return glist([f"({t[0]} {t[1]})" if len(t) == 2 else t[0] for t in toks])


def exprs(depth, leaves, calls=(2,)):
    """All trees of at most this depth."""
    if depth == 1:
        return list(leaves)
    sub = exprs(depth - 1, leaves, calls)
    out = list(leaves)
    out += [("un", u, a) for u in UOPS for a in sub]
    out += [("bin", o, a, b) for o in BOPS for a in sub for b in sub]
    out += [("call", f, a) for f in calls for a in sub]
    return out


def inst_tree(t, binds):
    k = t[0]
    if k == "hole":
        return binds[t[1]]
    if k == "atom":
        return t
    if k == "un":
        return ("un", t[1], inst_tree(t[2], binds))
    if k == "call":
        return ("call", t[1], inst_tree(t[2], binds))
    return ("bin", t[1], inst_tree(t[2], binds), inst_tree(t[3], binds))


EXPR_HEADER = ("From Coq Require Import List Arith.\nImport ListNotations.\n"
               "Require Import Pyrefact.Base Pyrefact.ExprModel.\n")


def write_expr_file(path: Path, rows) -> None:
    body = ";\n  ".join(rows)
    path.write_text(EXPR_HEADER + f"Definition cases : list expr_case := [\n  {body}\n].\n"
                    "Eval vm_compute in (bad_idx expr_case_ok cases).\n")


def grammar_cases(mods, tier, rnd):
    """(rows for Coq, descriptions, python-side problems, stats)"""
    import collections
    core = mods["core"]
    rows, desc, problems = [], [], []
    stats = Counter()
    atoms = [("atom", 0), ("atom", 1)]
    # (i) ast.unparse on every tree of depth <= 3, and CPython's own round trip
    for e in exprs(3, atoms):
        text = ast.unparse(e_ast(e))
        toks = tokens_of(text)
        rows.append(f"(CUnparse {g_expr(e)} {g_toks(toks)})")
        desc.append({"kind": "unparse", "tree": e, "text": text})
        if py_parse(text) != e:
            problems.append({"kind": "cpython-roundtrip", "tree": e, "text": text})
        stats["unparse"] += 1
    # (ii) CPython's parser on every token string up to a length, plus seeded longer ones
    alphabet = [("TAtom", 0), ("TAtom", 1)] + [(t,) for t in TOK_TEXT]
    maxlen = 4 if tier == "quick" else 5
    strings = []
    for n in range(1, maxlen + 1):
        strings += [list(s) for s in itertools.product(alphabet, repeat=n)]
    for _ in range(600 if tier == "quick" else 6000):
        strings.append([rnd.choice(alphabet) for _ in range(rnd.randint(maxlen + 1, 10))])
    # parsable strings are rare among random ones: add mutated printed trees
    pool = exprs(3, atoms)
    for _ in range(600 if tier == "quick" else 6000):
        toks = tokens_of(ast.unparse(e_ast(rnd.choice(pool))))
        for _ in range(rnd.randint(0, 2)):
            i = rnd.randrange(len(toks))
            op = rnd.choice(["del", "ins", "sub"])
            if op == "del" and len(toks) > 1:
                del toks[i]
            elif op == "ins":
                toks.insert(i, rnd.choice(alphabet))
            else:
                toks[i] = rnd.choice(alphabet)
        strings.append(toks)
    stats["parse-exhaustive"] = sum(len(alphabet) ** n for n in range(1, maxlen + 1))
    for toks in strings:
        r = py_parse(text_of_tokens(toks))
        if any(a == ("TRp",) and b == ("TLp",) for a, b in zip(toks, toks[1:])):
            r = None   # `)(`: a call whose callee is not a bare name -- outside the fragment's token language
        rows.append(f"(CParse {g_toks(toks)} {gopt(r, g_expr)})")
        desc.append({"kind": "parse", "tokens": text_of_tokens(toks), "cpython": r})
        stats["parse"] += 1
        stats["parse-some"] += r is not None
    # (iii) core.format_template on every template of depth <= 2 x bindings of depth <= 2
    import collections as _c
    leaves_t = [("atom", 0), ("hole", 0), ("hole", 1)]
    templates = [t for t in exprs(2, leaves_t) if "hole" in repr(t)]
    b0s = exprs(2, atoms)
    b1s = [("atom", 1), ("bin", "BAdd", ("atom", 0), ("atom", 1))] if tier == "quick" else exprs(2, atoms)
    NT = _c.namedtuple("NT", ["h0", "h1"])
    lost = []
    for t in templates:
        ttext = template_text(t)
        for b0 in b0s:
            for b1 in b1s:
                with common.quiet():
                    text = core.format_template(ttext, NT(h0=e_ast(b0), h1=e_ast(b1)))
                toks = tokens_of(text)
                rows.append(f"(CInst {g_expr(t)} {glist([b0, b1], g_expr)} {g_toks(toks)})")
                desc.append({"kind": "inst", "template": ttext, "bindings": [ast.unparse(e_ast(b0)),
                                                                            ast.unparse(e_ast(b1))], "text": text})
                r = py_parse(text)
                # the parse of the filled text is checked against the model's parser too
                rows.append(f"(CParse {g_toks(toks)} {gopt(r, g_expr)})")
                desc.append({"kind": "parse", "tokens": text, "cpython": r})
                stats["inst"] += 1
                if r != inst_tree(t, [b0, b1]):
                    lost.append((ttext, ast.unparse(e_ast(b0)), ast.unparse(e_ast(b1)), text))
    stats["inst-tree-differs"] = len(lost)
    return rows, desc, problems, stats, lost


# ------------------------------------------------------------------------------------------------
# the check

WITNESSES = {
    "F14-1": [("f({{x}})", "{{x}} * 2", "y = f(1 + 2)", 0),
              ("{{a}} * {{b}}", "{{a}} * {{b}}", "y = (1 + 2) * 3", 0)],
    "F14-2": [("f({{x}})", "{{x}} - {{x}}", "y = f(u) * 2\n", 0)],
    "F14-6": [("x = 1", "x = 2\ny = 3", "if c: x = 1\n", 0)],
    "F14-7": [("f()", "g()  # c", "y = f() + 1\n", 0)],
    "F14-8": [("x", "y", "f'{x=}'\n", 0)],
    "F14-9": [("if {{c}}:\n    {{b}}", "if not {{c}}:\n    {{b}}", "if a:\n    p()\nelif b:\n    q()\n", 0)],
    "F14-19": [("x = {{a}}", "y = {{a}}", "x = \'\'\'a \nb\'\'\'\n", 0)],
    "F14-21": [("if DEBUG:\n    {{stmt}}", "pass; {{stmt}}", "if DEBUG:\n    for i in z:\n        p(i)\n", 0)],
}


def load_corpus():
    out = []
    for p in sorted((common.VERIF / "corpus" / "subst").glob("*.json")):
        for c in json.loads(p.read_text())["cases"]:
            out.append((p.name, tuple(c)))
    return out


def subn_nontrivial(ms, rec) -> bool:
    return len(ms) >= 2 and len(rec["sched"]) >= 1


def oracle_on(mods, case, findings):
    """(problems, finding that explains them or None)"""
    pat, repl, src, count = case
    try:
        probs = property_oracle(mods, pat, repl, src, count)
    except Exception as e:  # the oracle itself must not hide a crash
        probs = [{"clause": "oracle-crash", "detail": f"{type(e).__name__}: {e}"}]
    if not probs:
        return [], None
    return probs, match_finding(mods, findings, dict(pattern=pat, repl=repl, source=src, count=count), probs)


def failing_input_search(mods, run, seeds_cases, findings, budget=1500):
    """Starting from the disagreeing cases: the property's oracle on them, on their neighbours (same
    pattern / replacement on the fixed sources, with and without final newline, all counts) and on
    seeded random inputs.  Returns the first unexplained failing input."""
    tried = 0
    seen = set()

    def attempt(case):
        nonlocal tried
        if case in seen:
            return None
        seen.add(case)
        tried += 1
        probs, f = oracle_on(mods, case, findings)
        if probs and f is None:
            return {"pattern": case[0], "repl": case[1], "source": case[2], "count": case[3], "problems": probs}
        return None

    for c in seeds_cases:
        r = attempt(c)
        if r:
            return r
    for (pat, repl, src, count) in seeds_cases[:10]:
        for s2 in [src, src.rstrip("\n"), src + "\n"] + FIXED_SOURCES + [s.rstrip("\n") for s in FIXED_SOURCES]:
            for c2 in (0, 1, 2, count):
                r = attempt((pat, repl, s2, c2))
                if r:
                    return r
    g = Gen(random.Random(run.seed + 7919))
    while tried < budget:
        c = g.case()
        if "#" in c[1]:
            continue
        r = attempt(c)
        if r:
            return r
    return None


# ------------------------------------------------------------------------------------------------
# the command line: `python -m pyrefact.pattern_matching find|replace ...` (pattern_matching.main)

CLI_TREES = [
    # files of the tree; (relative path -> content)
    {"a.py": "x = f(1) + f(2)\nz = f(3)  # pyrefact: ignore\n",
     "b.py": "y = 1\n",
     "pkg/c.py": "def k(u):\n    if u:\n        x = f(f(u))\n    return f(u) * 2\n",
     "pkg/sub/d.py": "if q:\n    f(1)\n    g(2)\nh()",
     "pkg/notes.txt": "w = f(9)\n",
     "other/e.py": "v = f(7)\n",
     # \r\n line endings: with a match (the untouched line keeps its \r\n) and without (bytes untouched)
     "pkg/crlf_match.py": "v = f(1)\r\nw = 2\r\n",
     "pkg/crlf_nomatch.py": "v = 1\r\nw = 2\r\n"},
]
CLI_CALLS = [
    # pattern, replacement, path arguments (relative to the tree)
    ("f({{x}})", "g({{x}})", ["a.py"]),
    ("f({{x}})", "g({{x}}, {{x}})", ["pkg"]),
    ("f({{x}})", "g({{x}})", ["pkg/notes.txt", "b.py"]),
    ("f({{x}})", "g({{x}})", ["."]),
    ("nomatch({{x}})", "g({{x}})", ["."]),
    ("f({{x}})", "f({{x}})", ["a.py", "pkg"]),
    (IF_FG, IF_F_G, ["pkg", "a.py"]),
    ("x = {{v}}", "x = {{v}}\ny = {{v}}", ["pkg/c.py", "pkg/c.py", "other"]),
]


def cli_reachable(root: Path, paths):
    """The files main() visits: explicit files, and *.py below explicit directories; each once, sorted."""
    out = set()
    for p in paths:
        q = root / p
        if q.is_file():
            out.add(q)
        elif q.is_dir():
            out |= set(q.rglob("*.py"))
    return sorted(out)


def cli_cases(mods, wd: Path, findings):
    """Runs the CLI on scratch trees under the work directory.  Returns (number of runs, problems);
    every problem carries the concrete files / arguments."""
    import os
    import subprocess
    import sys
    pm = mods["pattern_matching"]
    problems, n = [], 0

    def build(i):
        root = wd / f"cli-{i}"
        if root.exists():
            import shutil
            shutil.rmtree(root)
        for rel, content in CLI_TREES[0].items():
            f = root / rel
            f.parent.mkdir(parents=True, exist_ok=True)
            f.write_bytes(content.encode())
        return root

    def snapshot(root):
        return {str(f.relative_to(root)): f.read_bytes() for f in sorted(root.rglob("*")) if f.is_file()}

    def expected_after(root, before, pattern, repl, paths):
        exp = dict(before)
        for f in cli_reachable(root, paths):
            rel = str(f.relative_to(root))
            with common.quiet():
                exp[rel] = pm.sub(pattern, repl, before[rel].decode()).encode()
        return exp

    def run_main(argv, entry="main"):
        out = io.StringIO()
        import contextlib
        with contextlib.redirect_stdout(out), contextlib.redirect_stderr(io.StringIO()):
            try:
                if entry == "main":
                    rc = pm.main(argv)
                else:
                    saved = sys.argv
                    sys.argv = ["prog"] + list(argv)
                    try:
                        rc = getattr(pm, entry)()
                    finally:
                        sys.argv = saved
            except SystemExit as e:
                rc = f"SystemExit({e.code})"
            except Exception as e:
                rc = f"{type(e).__name__}: {e}"
        return rc, out.getvalue()

    for i, (pattern, repl, paths) in enumerate(CLI_CALLS):
        # ---- replace
        root = build(i)
        before = snapshot(root)
        exp = expected_after(root, before, pattern, repl, paths)
        entry = "pyreplace_main" if i % 3 == 2 else "main"
        argv = ([] if entry == "pyreplace_main" else ["replace"]) + [pattern, repl] + [str(root / p) for p in paths]
        rc, out = run_main(argv, entry)
        after = snapshot(root)
        n += 1
        case = {"command": "replace", "entry": entry, "pattern": pattern, "repl": repl, "paths": paths,
                "files": {k: v.decode() for k, v in before.items()}}
        if rc != 0:
            problems.append(dict(case, problem=f"exit status {rc!r}"))
        elif after != exp:
            bad = sorted(k for k in set(after) | set(exp) if after.get(k) != exp.get(k))
            problems.append(dict(case, problem=f"files after the run differ from sub() of their content / untouched "
                                 f"bytes: {bad}", got={k: after.get(k, b'').decode() for k in bad},
                                 expected={k: exp.get(k, b'').decode() for k in bad}))
        else:
            want_out = "".join(f"Parsing {f}...\n" for f in cli_reachable(root, paths))
            if out != want_out:
                problems.append(dict(case, problem=f"output {out!r} instead of {want_out!r}"))
        # the property on the bytes: every rewritten file must satisfy the oracle of sub()
        for f in cli_reachable(root, paths):
            rel = str(f.relative_to(root))
            if after.get(rel) != before[rel]:
                probs, fnd = oracle_on(mods, (pattern, repl, before[rel].decode(), 0), findings)
                if probs and fnd is None and after.get(rel) == exp.get(rel):
                    problems.append(dict(case, problem=f"{rel}: {probs}"))
        # ---- find
        root = build(i)
        before = snapshot(root)
        entry = "pyrefind_main" if i % 3 == 1 else "main"
        argv = ([] if entry == "pyrefind_main" else ["find"]) + [pattern] + [str(root / p) for p in paths]
        rc, out = run_main(argv, entry)
        n += 1
        want = []
        for f in cli_reachable(root, paths):
            src = before[str(f.relative_to(root))].decode()
            for (rng, _, _) in all_matches(mods, pattern, src):
                line_start = src.rfind("\n", 0, rng[0]) + 1
                want.append(f"{f}:{src.count(chr(10), 0, rng[0]) + 1}:{rng[0] - line_start}: "
                            f"{src[rng[0]:rng[1]].splitlines()[0]}\n")
        case = {"command": "find", "entry": entry, "pattern": pattern, "paths": paths,
                "files": {k: v.decode() for k, v in before.items()}}
        if rc != 0:
            problems.append(dict(case, problem=f"exit status {rc!r}"))
        elif out != "".join(want):
            problems.append(dict(case, problem=f"output {out!r} instead of {''.join(want)!r}"))
        elif snapshot(root) != before:
            problems.append(dict(case, problem="find modified a file"))
    # ---- the real command, once: python -m pyrefact.pattern_matching replace ...
    root = build("m")
    before = snapshot(root)
    pattern, repl, paths = CLI_CALLS[1]
    exp = expected_after(root, before, pattern, repl, paths)
    env = dict(os.environ, PYTHONPATH=str(common.REPO), PYTHONHASHSEED="0", PYTHONDONTWRITEBYTECODE="1")
    r = subprocess.run([sys.executable, "-m", "pyrefact.pattern_matching", "replace", pattern, repl] +
                       [str(root / p) for p in paths], capture_output=True, text=True, env=env, timeout=300,
                       cwd=str(wd))
    n += 1
    after = snapshot(root)
    case = {"command": "python -m pyrefact.pattern_matching replace", "pattern": pattern, "repl": repl, "paths": paths,
            "files": {k: v.decode() for k, v in before.items()}}
    if r.returncode != 0:
        problems.append(dict(case, problem=f"exit status {r.returncode}: {r.stderr[-400:]}"))
    elif after != exp:
        bad = sorted(k for k in set(after) | set(exp) if after.get(k) != exp.get(k))
        problems.append(dict(case, problem=f"files after the run differ: {bad}",
                             got={k: after.get(k, b'').decode() for k in bad}))
    return n, problems


def check(run: common.Run):
    wd = common.workdir(PID)
    ps = common.proof_step(run, PID, wd)
    mods = common.import_impl()
    core, processing = mods["core"], mods["processing"]
    rnd = random.Random(run.seed)
    findings = common.load_findings(PID)
    quick = run.tier == "quick"

    # ---------------- K1/K13 text: pattern_matching.subn vs SubstModel ----------------
    corpus = load_corpus()
    cases = [c for (_, c) in corpus]
    n_corpus = len(cases)
    # where the pattern does not occur the result cannot depend on the replacement or the count: one
    # representative per (pattern, source) is kept
    occurs = {}

    def prune(family):
        seen_nomatch = set()
        for c in family:
            key = (c[0], c[2])
            if key not in occurs:
                occurs[key] = bool(all_matches(mods, c[0], c[2]))
            if not occurs[key]:
                if key in seen_nomatch:
                    continue
                seen_nomatch.add(key)
            yield c
    cases += list(prune(fixed_family(with_comments=True)))
    cases += list(prune(dict.fromkeys(hunt_family())))
    # (in the correspondence only the positions with indentation to add: 4 and 8 blanks; tabs are outside the
    # model's text domain; the sweep below runs all four)
    cases += list(dict.fromkeys(binding_family(MATCH_POSITIONS[1:3])))
    n_fixed = len(cases) - n_corpus
    gen = Gen(rnd)
    n_rand = 1500 if quick else 40000
    cases += [gen.case() for _ in range(n_rand)]

    rows, kept, hist = [], [], Counter()
    crashes, outside, minws_cases, restore_bad, tok_missing = [], 0, [], [], []
    distinct = set()
    sources_seen = set()
    for c in cases:
        pat, repl, src, count = c
        if not in_domain(pat, repl, src):
            outside += 1
            continue
        try:
            ms = all_matches(mods, pat, src)
            rec = run_subn(mods, pat, repl, src, count)
        except Exception as e:
            crashes.append((c, f"{type(e).__name__}: {e}"))
            continue
        if rec["error"] and not rec["error"].startswith("ValueError: Unfilled wildcards"):
            crashes.append((c, rec["error"]))
            continue
        if src not in sources_seen:
            sources_seen.add(src)
            with common.quiet():
                try:
                    same = processing._substitute_original_fstrings(
                        src, processing._substitute_original_strings(src, src)) == src
                except Exception:
                    same = False
            if not same:
                restore_bad.append(src)
        if rec["tok_missing"]:
            tok_missing.append((c, rec["tok_missing"]))
        if any(string_literal_lines(f) for f in rec["filled"]):
            hist["instantiated replacement has a line inside a string literal"] += 1
        hist[f"matches={min(len(ms), 6)}{'+' if len(ms) > 6 else ''}"] += 1
        hist[f"applied={min(len(rec['sched']), 6)}"] += 1
        hist["count=%s" % ("0" if count <= 0 else count)] += 1
        if rec["error"]:
            hist["ValueError(unfilled wildcard)"] += 1
        if ignore_line_ranges(src):
            hist["source has ignore comment"] += 1
        if "\n" in repl:
            hist["multi-line replacement"] += 1
        if rec["out"] is not None and rec["out"] == src and rec["sched"]:
            hist["rolled back"] += 1
        if rec["minws_changed"]:
            # minimize_whitespace_line_differences (difflib) altered the candidate: outside the model's
            # text clause; these cases are judged by the property oracle only
            minws_cases.append(c)
            continue
        rows.append(g_subn_case(c, ms, rec, mods))
        kept.append((c, ms, rec))
        if subn_nontrivial(ms, rec):
            distinct.add(hash(c))

    files, shards = [], []
    SH = 200
    for k in range(0, len(rows), SH):
        p = wd / f"subn_{k // SH}.v"
        write_subn_file(p, rows[k:k + SH])
        files.append(p)
        shards.append((k, rows[k:k + SH]))

    # ---------------- K13 grammar: ast.unparse / CPython parser / format_template vs ExprModel ------
    erows, edesc, eproblems, estats, lost = grammar_cases(mods, run.tier, rnd)
    efiles, eshards = [], []
    ESH = 3000
    for k in range(0, len(erows), ESH):
        p = wd / f"expr_{k // ESH}.v"
        write_expr_file(p, erows[k:k + ESH])
        efiles.append(p)
        eshards.append(k)

    results = common.run_case_files(files + efiles)
    disagreements, eval_failed = [], []
    for p, (k, shard) in zip(files, shards):
        rc, out = results[p]
        idx = common.parse_nat_list(out) if rc == 0 else None
        if idx is None:
            eval_failed.append({"file": p.name, "log": out[-1500:]})
            continue
        disagreements += [k + i for i in idx]
    edis = []
    for p, k in zip(efiles, eshards):
        rc, out = results[p]
        idx = common.parse_nat_list(out) if rc == 0 else None
        if idx is None:
            eval_failed.append({"file": p.name, "log": out[-1500:]})
            continue
        edis += [k + i for i in idx]

    # ---------------- deterministic sweep: the property oracle on the fixed family + corpus ---------
    sweep = [c for (_, c) in corpus] + list(dict.fromkeys(binding_family())) + list(prune(fixed_family())) \
        + list(prune(dict.fromkeys(hunt_family()))) + minws_cases
    sweep = list(dict.fromkeys(sweep))
    sweep_fail, by_finding = [], {}
    for c in sweep:
        probs, f = oracle_on(mods, c, findings)
        if not probs:
            continue
        if f is None:
            sweep_fail.append((c, probs))
        else:
            by_finding.setdefault(f.id, []).append(c)

    # ---------------- known findings / fixed witnesses ----------------
    for f in findings:
        if f.kind != "finding":
            continue
        hits = []
        for w in WITNESSES.get(f.id, []):
            probs, g = oracle_on(mods, w, [f])
            if probs and g is not None:
                hits.append(w)
        if hits:
            n = len(by_finding.get(f.id, []))
            with common.quiet():
                out = mods["pattern_matching"].sub(*hits[0][:3])
            run.known_finding(f.id, f"{f.text} [witness sub{hits[0][:3]!r} -> {out!r}; {n} instances in the sweep]")
        else:
            common.log(f"note: known finding {f.id} no longer reproduces")

    # ---------------- the command line ----------------
    try:
        n_cli, cli_problems = cli_cases(mods, wd, findings)
    except Exception as e:
        n_cli, cli_problems = 0, [{"command": "cli", "problem": f"harness could not run the CLI: {type(e).__name__}: {e}"}]

    # ---------------- verdicts ----------------
    for pr in cli_problems[:4]:
        run.violation({"kind": "cli", "case": pr,
                       "explanation": "`python -m pyrefact.pattern_matching` (pattern_matching.main): the files after "
                                      "`replace` are not sub() of their content with every other byte untouched, or "
                                      "`find` does not list the matches"}, True)
    for (c, probs) in sweep_fail[:5]:
        run.violation({"kind": "property-oracle", "case": list(c), "problems": probs,
                       "explanation": "sub()/subn() violates C14 on this input and no listed finding explains it"},
                      True)
    for (c, err) in crashes[:3]:
        run.violation({"kind": "property-oracle", "case": list(c), "problems": [{"clause": "no-crash", "detail": err}],
                       "explanation": "sub()/subn() raised"}, True)
    for src in restore_bad[:2]:
        run.violation({"kind": "assumption", "source": src,
                       "explanation": "_substitute_original_(f)strings(s, s) != s: hypothesis of T14.1 does not "
                                      "hold for this source"}, True)
    need_search = bool(disagreements or edis or eval_failed or eproblems or tok_missing
                       or (ps.get("props") and not ps["props"]["ok"]) or not ps.get("build_ok", True))
    found = None
    if need_search and not sweep_fail and not crashes:
        seeds_cases = [c for (c, _) in tok_missing[:10]] + [kept[i][0] for i in disagreements[:20]]
        found = failing_input_search(mods, run, seeds_cases, findings, budget=1500 if quick else 8000)
        if found:
            run.violation({"kind": "property-oracle", "case": [found["pattern"], found["repl"], found["source"],
                                                               found["count"]],
                           "problems": found["problems"], "found_by": "failing-input search",
                           "explanation": "sub()/subn() violates C14 on this input"}, True)
    has_input = bool(found or sweep_fail or crashes)
    if not has_input:
        for (c, texts) in tok_missing[:2]:
            run.violation({"kind": "correspondence", "kernel": "K13 SubstModel.place_replacement (find_replace)",
                           "case": list(c), "not_asked_about": texts[:3],
                           "explanation": "the instantiated replacement has a line that begins inside a string literal, "
                                          "but find_replace never asked processing._lines_inside_string_literals about "
                                          "that text (the model's splice consults the tokenizer on every instantiated "
                                          "replacement: T14.10); the property oracle found no failing input"}, False)
        for i in disagreements[:4]:
            c, ms, rec = kept[i]
            global PACKED
            PACKED = False
            try:
                detail = decode_texts(model_subn_detail(wd, g_subn_case(c, ms, rec, mods)))
            finally:
                PACKED = True
            run.violation({"kind": "correspondence", "kernel": "K1+K13 SubstModel (subn / find_replace / "
                           "format_template / _do_rewrite)", "case": list(c),
                           "impl": {"items": rec["items"], "sched": rec["sched"], "cand": rec["cand"],
                                    "n": rec["n"], "error": rec["error"]},
                           "model": detail[-3000:],
                           "explanation": "model and implementation disagree (code: 1 ignore lines, 2 yielded "
                                          "items, 3 schedule, 4 text, 5 count, 6 text depends on a validity answer "
                                          "the implementation never produced); the property oracle found no "
                                          "failing input"}, False)
        for i in edis[:4]:
            run.violation({"kind": "correspondence", "kernel": "K13 ExprModel (unparse / parse / inst_text)",
                           "case": edesc[i], "coq_case": erows[i][:1500],
                           "explanation": "ast.unparse / CPython's parser / core.format_template differs from the "
                                          "grammar model on this case"}, False)
        for pr in eproblems[:2]:
            run.violation({"kind": "reference-validation", "case": pr,
                           "explanation": "CPython does not parse its own unparse output back to the tree"}, False)
        for ef in eval_failed[:2]:
            run.violation(dict(ef, kind="model-evaluation-failed",
                               explanation="a correspondence case file could not be evaluated"), False)
    if ps.get("props") and not ps["props"]["ok"]:
        pr = ps["props"]
        run.violation({"kind": "proof", "file": pr["file"], "broken": pr.get("broken"), "log": pr["log"],
                       "explanation": "a property theorem no longer checks"}, has_input)

    g_nontrivial = sum(1 for d in edesc if (d["kind"] == "unparse" and "(" in d["text"].replace("v2(", ""))
                       or (d["kind"] == "parse" and d["cpython"] is not None)
                       or (d["kind"] == "inst" and any(" " in b or "(" in b for b in d["bindings"])))
    run.coverage.update(
        evaluations=len(rows) + len(erows) + len(sweep) + n_cli,
        cli_runs=n_cli,
        distinct_nontrivial=len(distinct) + g_nontrivial,
        rule=("subn correspondence: real pattern_matching.subn (instrumented: yielded items, schedule, text after "
              "the last _do_rewrite(scheduled=True) call of _apply_rewrites, returned count; ignore lines = real "
              "has_ignore_comment per physical line) vs SubstModel on (pattern, replacement, source, count); the "
              "matcher's matches (finditer order, ranges, unparsed bindings) and the observed is_valid_python "
              "answers are inputs of the model. Fixed family = 15 patterns (8 expression, 7 statement / statement "
              "sequence) x 10-14 replacements (wildcards used 0/1/2x, swapped, {{root}}, multi-line, empty, "
              "self-substitution, ignore comment inside the replacement) x 15 fixed sources (nested / adjacent "
              "matches, indented targets, ignore comments incl. last line without newline) x count in {0,1,2}; plus "
              "corpus; plus seeded random programs. Non-trivial = >=2 matches and >=1 applied rewrite, distinct by "
              "case. Grammar correspondence: ast.unparse on ALL trees of depth <=3 (2 atoms, 2 unary, 5 binary "
              "operators, call); CPython's parser on ALL token strings of length <=4 (<=5 thorough) over 11 tokens "
              "plus seeded longer / mutated ones; core.format_template on ALL templates of depth <=2 over 2 holes x "
              "bindings of depth <=2; non-trivial = printed with parentheses / parses / non-atomic binding. CLI: "
              "pattern_matching.main / pyrefind_main / pyreplace_main in-process and `python -m "
              "pyrefact.pattern_matching replace` once, on a scratch tree (explicit files, directories, nested "
              "directories, a non-.py file, duplicates): bytes of every file after the run = sub() of its content for "
              "the visited files and unchanged otherwise; exit status; printed lines; `find` output."),
        samples=[list(kept[0][0]), list(kept[n_corpus + 7][0]), list(kept[len(kept) // 2][0]), list(kept[-1][0]),
                 edesc[100], edesc[-1]],
        exhaustive=False,
        exhaustive_part={"subn_fixed_family": n_fixed, "unparse_depth3": estats["unparse"],
                         "token_strings_len<=%d" % (4 if quick else 5): estats["parse-exhaustive"],
                         "format_template_depth2": estats["inst"]},
        corpus_part=n_corpus, random_part=n_rand, outside_text_domain=outside,
        whitespace_cleanup_cases_oracle_only=len(minws_cases),
        histogram=dict(hist), grammar=dict(estats),
        sweep={"cases": len(sweep), "explained_by_finding": {k: len(v) for k, v in by_finding.items()},
               "unexplained": len(sweep_fail)},
        correspondence_disagreements=len(disagreements) + len(edis) + len(tok_missing),
        trusted_base=common.TRUSTED_BASE_COMMON + [
            "the matcher (core.walk_wildcard / walk_sequence / get_charnos) is NOT part of this property: its "
            "matches are inputs of the model (properties C12 / C13)",
            "tokenisation of the expression fragment (regex tokenizer of harness/c14.py) and the tree <-> ast "
            "converters e_ast / ast_e",
            "core.is_valid_python and processing._sources_equivalent are oracles of the model: their observed answers are "
            "replayed (tables; the text is evaluated under both defaults for questions never asked)",
            "the tokenizer's verdict on ignore comments (lines with a COMMENT token matching the regex) is an input of "
            "the model, computed by the harness with CPython's tokenize; the model's ignore lines are compared with the "
            "real core.has_ignore_comment asked about every physical line",
            "Uint63 primitive integers are used only to read case files (text_of_packed), never in a theorem"],
        unmodelled=[
            "processing.minimize_whitespace_line_differences (difflib): identity unless a whitespace-only line is "
            "added/removed; cases where it acted are judged by the property oracle only",
            "processing._substitute_original_strings/_fstrings: abstract function `restore` (hypothesis restore s s "
            "= s of T14.1 is checked on every source)",
            "callable slots {{f(x)}} of format_template; ast-valued rewrites of _do_rewrite and its unscheduled "
            "(scheduled=False) refusals, which subn never reaches; a range beyond the end of the source; tabs, \\r and "
            "non-ASCII text in the correspondence (oracle only; get_charnos is C13)"],
    )
    run.assumptions += [
        "the theorems are about SubstModel.v / ExprModel.v; the tie to pattern_matching.py / processing.py / "
        "core.py is the exact correspondence above",
        "T14.4/T14.5 need every match range inside the source with start <= end (what get_charnos returns, C13)",
        "the parser of ExprModel answers None outside the fragment (n-ary and/or, chained comparison, `)(` = call of "
        "a callee that is not a bare name); "
        "agreement with CPython is validated, not proved"]


def replay(path: str) -> int:
    data = json.loads(Path(path).read_text())
    mods = common.import_impl()
    wd = common.workdir(PID + "-replay")
    print(json.dumps({k: data[k] for k in data if k in ("kind", "explanation", "kernel", "case")}, indent=1)[:3000])
    kind = data.get("kind")
    if kind in ("property-oracle", "correspondence") and isinstance(data.get("case"), list):
        c = tuple(data["case"])
        rec = run_subn(mods, *c)
        print("output :", repr(rec["out"]), "n =", rec["n"], rec["error"] or "")
        print("yielded:", rec["items"])
        print("applied:", rec["sched"])
        probs, f = oracle_on(mods, c, common.load_findings(PID))
        print("oracle :", probs or "all clauses hold", ("[explained by %s]" % f.id) if f else "")
        if kind == "correspondence" and in_domain(*c[:3]):
            global PACKED
            PACKED = False
            print("model  :", decode_texts(model_subn_detail(wd, g_subn_case(c, all_matches(mods, c[0], c[2]), rec, mods))))
    elif kind == "correspondence":
        p = wd / "replay_expr.v"
        p.write_text(EXPR_HEADER + f"Definition c : expr_case := {data['coq_case']}.\n"
                     "Eval vm_compute in (expr_case_ok c).\n"
                     "Eval vm_compute in (match c with CUnparse e _ => unparse e | CInst t b _ => inst_text (rho_of b) t "
                     "| CParse ts _ => ts end).\n"
                     "Eval vm_compute in (match c with CParse ts _ => parse ts | _ => None end).\n")
        print(common.coqc(p)[1][-3000:])
    elif kind == "cli":
        c = data["case"]
        root = wd / "cli-replay"
        for rel, content in c.get("files", {}).items():
            f = root / rel
            f.parent.mkdir(parents=True, exist_ok=True)
            f.write_bytes(content.encode())
        argv = [c["command"].split()[-1], c["pattern"]] + ([c["repl"]] if "repl" in c else []) + \
               [str(root / p) for p in c.get("paths", [])]
        out = io.StringIO()
        import contextlib
        with contextlib.redirect_stdout(out):
            try:
                rc = mods["pattern_matching"].main(argv)
            except BaseException as e:
                rc = f"{type(e).__name__}: {e}"
        print("argv   :", argv)
        print("status :", rc)
        print("stdout :", out.getvalue())
        for f in sorted(root.rglob("*")):
            if f.is_file():
                rel = str(f.relative_to(root))
                now = f.read_text()
                print(f"{rel}: {'unchanged' if now == c['files'].get(rel) else repr(now)}")
    elif kind == "proof":
        print(common.check_props(PID, wd))
    return 0
