"""C14 -- Pattern substitution rewrites exactly the matches and nothing else
(kernels K1 scheduler + K13 textual instantiation; SubstModel.v, ExprModel.v)."""
from __future__ import annotations

import ast
import copy
import io
import itertools
import json
import random
import re
import tokenize
from collections import Counter
from pathlib import Path

from . import common
from .common import gz, glist, gopt, gbool

PID = "C14"
IGNORE_RE = re.compile(r"#\s*pyrefact\s*:\s*(skip_file|ignore)")
START_COUNT = -100000000
SITE_FORMAT = "core.format_template"


# ------------------------------------------------------------------------------------------------
# instrumented runs of the real code


class Instr:
    """Wraps module attributes of the implementation for the duration of one call."""

    def __init__(self, mods):
        self.mods = mods
        self.saved = []

    def wrap(self, mod, name, make):
        orig = getattr(mod, name)
        self.saved.append((mod, name, orig))
        setattr(mod, name, make(orig))

    def __enter__(self):
        return self

    def __exit__(self, *a):
        for mod, name, orig in reversed(self.saved):
            setattr(mod, name, orig)
        return False


def in_domain(*texts) -> bool:
    """The text domain of the Gallina model: printable ASCII + '\\n' (no tabs, no other separators)."""
    return all(all(c == "\n" or 32 <= ord(c) < 127 for c in t) for t in texts)


def all_matches(mods, pattern, source):
    """Every match of the pattern in yield order: (range, {wildcard: unparsed text}, groups)."""
    core, processing = mods["core"], mods["processing"]
    res = []
    with common.quiet():
        for rng, _, groups in processing.find_replace(source, pattern, "", yield_match=True):
            d = groups._asdict() if hasattr(groups, "_asdict") else {}
            res.append(((rng.start, rng.end), {k: core.unparse(v) for k, v in d.items()}, groups))
    return res


def run_subn(mods, pattern, repl, source, count):
    """pattern_matching.subn with every intermediate product recorded."""
    core, processing, pm = mods["core"], mods["processing"], mods["pattern_matching"]
    rec = {"items": [], "sched": None, "chain": [], "valid": {}, "minws_changed": False, "error": None}

    def recording(func):
        import functools

        @functools.wraps(func)
        def gen(*a, **kw):
            for item in func(*a, **kw):
                rec["items"].append(((item[0].start, item[0].end), item[1]))
                yield item
        return gen

    def mk_schedule(orig):
        def _schedule_rewrites(src, funcs):
            out = orig(src, [(recording(f), a, kw) for (f, a, kw) in funcs])
            rec["sched"] = [(t.group_number, t.transaction_number, rng.start, rng.end, rw.new)
                            for t, (rng, rw) in out]
            return out
        return _schedule_rewrites

    def mk_do_rewrite(orig):
        def _do_rewrite(src, rewrite, **kw):
            out = orig(src, rewrite, **kw)
            rec["chain"].append(out)
            return out
        return _do_rewrite

    def mk_valid(orig):
        def is_valid_python(text):
            r = orig(text)
            rec["valid"][text] = bool(r)
            return r
        return is_valid_python

    def mk_minws(orig):
        def minimize_whitespace_line_differences(src, new):
            out = orig(src, new)
            if out[0] != new:
                rec["minws_changed"] = True
            return out
        return minimize_whitespace_line_differences

    with Instr(mods) as ins, common.quiet():
        ins.wrap(processing, "_schedule_rewrites", mk_schedule)
        ins.wrap(processing, "_do_rewrite", mk_do_rewrite)
        ins.wrap(core, "is_valid_python", mk_valid)
        ins.wrap(processing, "minimize_whitespace_line_differences", mk_minws)
        try:
            out, n = pm.subn(pattern, repl, source, count)
        except ValueError as e:
            rec["error"] = f"ValueError: {e}"
            out, n = None, None
        except Exception as e:  # anything else is a crash of sub()
            rec["error"] = f"{type(e).__name__}: {e}"
            out, n = None, None
    rec["out"], rec["n"] = out, n
    if rec["sched"] is None:
        rec["sched"] = []
    # _substitute_original_strings calls _do_rewrite too: the scheduled rewrites are the first calls
    k = len(rec["sched"])
    rec["cand"] = rec["chain"][k - 1] if k and len(rec["chain"]) >= k else source
    return rec


def ignore_line_ranges(source):
    res, pos = [], 0
    for line in source.split("\n"):
        end = min(len(source), pos + len(line) + 1)
        if pos < end and IGNORE_RE.search(line):
            res.append((pos, end))
        pos = end
    return res


def overlaps(a, b):
    return a[0] < b[1] and b[0] < a[1]


# ------------------------------------------------------------------------------------------------
# the property's own oracle (independent of the Gallina model and of the scheduler's algorithm)

HOLE = "__c14_hole_%s__"


def _template_tree(text, mode):
    """Parse a template whose wildcards were turned into placeholder names."""
    src = re.sub(r"\{\{(\w+)\}\}", lambda m: HOLE % m.group(1), text)
    import textwrap
    tree = ast.parse(textwrap.dedent(src))
    if mode == "expr":
        if len(tree.body) != 1 or not isinstance(tree.body[0], ast.Expr):
            raise ValueError("statement template in expression position")
        return tree.body[0].value
    return tree.body


class _Fill(ast.NodeTransformer):
    def __init__(self, binds):
        self.binds = binds

    def visit_Name(self, node):
        m = re.fullmatch(HOLE % r"(\w+)", node.id)
        if m:
            v = self.binds[m.group(1)]
            if isinstance(v, ast.Expr):
                v = v.value
            if not isinstance(v, ast.expr):
                raise ValueError("non-expression binding in expression position")
            return copy.deepcopy(v)
        return node

    def visit_Expr(self, node):
        # a wildcard that is a whole statement may be bound to a statement
        if isinstance(node.value, ast.Name):
            m = re.fullmatch(HOLE % r"(\w+)", node.value.id)
            if m and isinstance(self.binds[m.group(1)], ast.stmt):
                return copy.deepcopy(self.binds[m.group(1)])
        return self.generic_visit(node)


def _key(node):
    return (type(node).__name__, node.lineno, node.col_offset, node.end_lineno, node.end_col_offset)


def reference_tree(source, repl, applied):
    """ast of the source with the matched nodes of every applied match replaced by the replacement
    template instantiated (at tree level) with that match's bindings.
    applied: list of groups (namedtuples with .root and wildcard fields) of the applied matches."""
    tree = ast.parse(source)
    index = {}
    for node in ast.walk(tree):
        if hasattr(node, "lineno"):
            index.setdefault(_key(node), node)
    plan = {}      # id(node) -> replacement (expr | list of stmts | "delete")
    for groups in applied:
        d = groups._asdict()
        roots = d.get("root")
        binds = {k: v for k, v in d.items() if k != "root"}
        binds["root"] = roots
        roots = roots if isinstance(roots, (list, tuple)) else [roots]
        mine = [index[_key(r)] for r in roots]
        if isinstance(mine[0], ast.expr):
            new = _Fill(binds).visit(_template_tree(repl, "expr"))
            plan[id(mine[0])] = new
        else:
            body = _template_tree(repl, "stmt") if repl.strip() else []
            new = [_Fill(binds).visit(s) for s in body]
            new = [x for s in new for x in (s if isinstance(s, list) else [s])]
            plan[id(mine[0])] = new
            for other in mine[1:]:
                plan[id(other)] = []

    class Apply(ast.NodeTransformer):
        def generic_visit(self, node):
            for field, old in ast.iter_fields(node):
                if isinstance(old, list):
                    out = []
                    for v in old:
                        if isinstance(v, ast.AST):
                            if id(v) in plan:
                                r = plan[id(v)]
                                out.extend(r if isinstance(r, list) else [r])
                            else:
                                out.append(self.generic_visit(v))
                        else:
                            out.append(v)
                    old[:] = out
                elif isinstance(old, ast.AST):
                    if id(old) in plan:
                        r = plan[id(old)]
                        if isinstance(r, list):
                            raise ValueError("statement list in a single-node position")
                        setattr(node, field, r)
                    else:
                        self.generic_visit(old)
            return node

    Apply().generic_visit(tree)
    return ast.fix_missing_locations(tree)


def dump_norm(tree_or_text):
    """Canonical tree: through ast.unparse (which parenthesises from the tree) and back, so that
    expression contexts and positions are those of a parsed program."""
    if isinstance(tree_or_text, str):
        return ast.dump(ast.parse(tree_or_text))
    return ast.dump(ast.parse(ast.unparse(tree_or_text)))


def greedy_reference(items, ilines):
    """Indices of the yielded items that the property says are applied: in yield order, skip what
    touches an ignored line or overlaps something already taken."""
    taken = []
    for i, (rng, _) in enumerate(items):
        if any(overlaps(rng, l) for l in ilines):
            continue
        if any(overlaps(rng, items[j][0]) for j in taken):
            continue
        if any(items[j] == items[i] for j in range(i)):   # the scheduler drops exact duplicates
            continue
        taken.append(i)
    return taken


def untouched_preserved(source, out, ranges):
    """out = source[:s1] + X1 + source[e1:s2] + X2 + ... + source[en:] for some texts Xi."""
    rs = sorted(ranges)
    if not rs:
        return out == source
    if not out.startswith(source[:rs[0][0]]):
        return False
    tail = source[rs[-1][1]:]
    if not out.endswith(tail):
        return False
    pos = rs[0][0]
    limit = len(out) - len(tail)
    for (a, b) in zip(rs, rs[1:]):
        seg = source[a[1]:b[0]]
        k = out.find(seg, pos, limit)
        if k < 0:
            return False
        pos = k + len(seg)
    return pos <= limit


def property_oracle(mods, pattern, repl, source, count, rec=None) -> list[dict]:
    """All clauses of C14 on one input, evaluated on what the real code did."""
    probs = []
    rec = rec or run_subn(mods, pattern, repl, source, count)
    if rec["error"]:
        if rec["error"].startswith("ValueError: Unfilled wildcards"):
            return []   # documented error for a replacement that uses an unknown wildcard
        return [{"clause": "no-crash", "detail": rec["error"]}]
    out = rec["out"]
    ms = all_matches(mods, pattern, source)
    ilines = ignore_line_ranges(source)
    if not ms:
        if out != source:
            probs.append({"clause": "no-match-identity", "detail": f"{out!r}"})
        return probs
    items = rec["items"]
    applied_idx = greedy_reference(items, ilines)
    want = sorted((items[i][0] for i in applied_idx), reverse=True)
    got = [(s, e) for (_, _, s, e, _) in rec["sched"]]
    if sorted(got, reverse=True) != want:
        probs.append({"clause": "applied-set", "detail": f"scheduled {got}, greedy non-overlapping subset {want}"})
    if count > 0 and len(got) > count:
        probs.append({"clause": "count", "detail": f"{len(got)} rewrites for count={count}"})
    if count > 0 and len(items) > count:
        probs.append({"clause": "count", "detail": f"{len(items)} items yielded for count={count}"})
    for r in got:
        if any(overlaps(r, l) for l in ilines):
            probs.append({"clause": "ignore", "detail": f"rewrite {r} touches an ignored line"})
    for (a, b) in ilines:
        if source[a:b] not in out:
            probs.append({"clause": "ignore", "detail": f"ignored line {source[a:b]!r} not in the output"})
    if not untouched_preserved(source, out, got):
        probs.append({"clause": "untouched-text", "detail": f"{out!r}"})
    # tree clause
    applied_groups = []
    by_range = {}
    for (rng, binds, groups) in ms:
        by_range.setdefault(rng, groups)
    for r in got:
        if r in by_range:
            applied_groups.append(by_range[r])
    try:
        ref = reference_tree(source, repl, applied_groups)
        ref_dump = dump_norm(ref)
        compile(ast.parse(ast.unparse(ref)), "<ref>", "exec")
    except (ValueError, SyntaxError, KeyError, TypeError, AttributeError):
        ref_dump = None   # the tree-level substitution is not a program: outside the property
    if ref_dump is not None:
        try:
            out_dump = dump_norm(out)
        except SyntaxError:
            out_dump = "<does not parse>"
        if out_dump != ref_dump:
            probs.append({"clause": "tree", "detail": f"output {out!r} is not the source tree with the matched "
                          f"nodes replaced; expected {ast.unparse(ref)!r}"})
    if pattern == repl and dump_norm(out) != dump_norm(source):
        probs.append({"clause": "self-substitution", "detail": f"{out!r}"})
    return probs


# ---- signature predicates of known findings (keyed by sig=) -------------------------------------


def sig_precedence_lost(mods, case) -> bool:
    """The only thing wrong is a missing pair of parentheses around a non-atomic binding: filling the
    template with every binding parenthesised gives exactly the tree-level result."""
    pattern, repl, source, count = case["pattern"], case["repl"], case["source"], case["count"]
    rec = run_subn(mods, pattern, repl, source, count)
    if rec["error"]:
        return False
    ms = {rng: (binds, groups) for (rng, binds, groups) in all_matches(mods, pattern, source)}
    got = sorted(((s, e) for (_, _, s, e, _) in rec["sched"]), reverse=True)
    if not got or any(r not in ms for r in got):
        return False
    text = source
    lowprec = False
    for r in got:
        binds, groups = ms[r]
        d = groups._asdict()
        for k, v in d.items():
            if k != "root" and isinstance(v, ast.expr) and not isinstance(
                    v, (ast.Name, ast.Constant, ast.Call, ast.Attribute, ast.Subscript, ast.List, ast.Dict,
                        ast.Set, ast.ListComp, ast.SetComp, ast.DictComp, ast.GeneratorExp)) \
                    and ("{{%s}}" % k) in repl:
                lowprec = True
        filled = re.sub(r"\{\{(\w+)\}\}", lambda m: "(" + binds[m.group(1)] + ")", repl)
        new = [x for (rr, x) in rec["items"] if rr == r]
        if not new:
            return False
        # same placement as the real replacement text: only the wildcard fillings differ
        first, nl, rest = filled.partition("\n")
        ind = len(new[0].partition("\n")[2]) - len(new[0].partition("\n")[2].lstrip(" ")) if "\n" in new[0] else 0
        import textwrap
        filled = first + nl + textwrap.indent(rest, " " * ind)
        text = text[:r[0]] + filled + text[r[1]:]
    if not lowprec:
        return False
    try:
        ref = reference_tree(source, repl, [ms[r][1] for r in got])
        return dump_norm(text) == dump_norm(ref)
    except (SyntaxError, ValueError, KeyError):
        return False


SIGS = {"precedence_lost": sig_precedence_lost}


def match_finding(mods, findings, case, probs):
    """A failing case is suppressed only by a listed finding whose site and predicate both hold; only
    the tree / self-substitution clauses can be explained by a textual-instantiation finding."""
    if any(p["clause"] not in ("tree", "self-substitution") for p in probs):
        return None
    for f in findings:
        if f.kind != "finding" or f.fields.get("site") != SITE_FORMAT:
            continue
        pred = SIGS.get(f.fields.get("sig", ""))
        try:
            if pred and pred(mods, case):
                return f
        except Exception:
            continue
    return None


# ------------------------------------------------------------------------------------------------
# generators

EXPR_PATTERNS = [
    ("f({{x}})", ["x"]),
    ("{{a}} + {{b}}", ["a", "b"]),
    ("{{a}} * {{b}}", ["a", "b"]),
    ("f({{x}}, {{y}})", ["x", "y"]),
    ("{{x}} + 1", ["x"]),
    ("not {{x}}", ["x"]),
    ("{{x}}.real", ["x"]),
    ("{{g}}({{x}})", ["g", "x"]),
]
STMT_PATTERNS = [
    ("x = {{v}}", ["v"]),
    ("{{t}} = f({{v}})", ["t", "v"]),
    ("print({{v}})", ["v"]),
    ("return {{v}}", ["v"]),
    ("x = {{a}}\ny = {{b}}", ["a", "b"]),
    ("{{t}} = {{a}}\nprint({{t}})", ["t", "a"]),
    ("if {{c}}:\n    x = {{v}}", ["c", "v"]),
]


def expr_replacements(names):
    a = names[0]
    b = names[-1]
    res = ["g()", "g({{%s}})" % a, "g({{%s}}, {{%s}})" % (a, a), "{{%s}} * 2" % a, "{{%s}}" % a,
           "h({{%s}}, {{%s}})" % (b, a), "{{%s}} - {{%s}}" % (a, b), "g(\n    {{%s}}\n)" % a,
           "-{{%s}}" % b, "{{%s}} < {{%s}}" % (a, b), "k({{root}})", "{{%s}} # pyrefact: ignore" % a]
    return res


def stmt_replacements(names):
    a = names[0]
    b = names[-1]
    return ["x = g({{%s}})" % a, "x = {{%s}}\ny = {{%s}}" % (a, a), "if q:\n    x = {{%s}}" % b, "pass", "",
            "x = {{%s}} * 2" % a, "w = {{%s}}\n\nz = {{%s}}" % (b, a), "    x = h({{%s}})\n    u = 0" % a,
            "{{%s}}" % a, "while {{%s}}:\n    x = 1\n    break" % a]


FIXED_SOURCES = [
    "y = f(1 + 2)\n",
    "y = (1 + 2) * 3\n",
    "x = f(f(1))\n",
    "x = f(1) + f(2)\nz = f(3)  # pyrefact: ignore\n",
    "x = f(1) + f(2)\nz = f(3)  # pyrefact: ignore",
    "if a:\n    x = 1\n",
    "if a:\n    x = 1\n    y = 2\nelse:\n    x = f(2)\n    print(x)\n",
    "def k(u):\n    if u:\n        x = u + 1\n        y = f(x, 2)\n    return f(u) * 2 + 1\n",
    "x = 1\ny = 2\nx = 3\ny = 4\n",
    "t = f(a or b)\nprint(t)\nu = not a + 1\n",
    "x = (a + 1) + 1  # pyrefact: skip_file\nc = d + 1\n\n\nx = f(  #pyrefact :  ignore\n    2)\nx = 5",
    "for i in z:\n    x = i.real\n    print(x)  # comment\n    y = f(i)(2)\n",
    "x = f(\"s\") + f('t')\nprint(-x * 2)\n",
    "z = [f(i) for i in f(q) if not f(i) + 1]\n",
    "x = a if f(b) else c\ny = lambda: f(1)\n",
]


class Gen:
    """Seeded generator of (pattern, replacement, source, count) with nested/adjacent matches, indented
    targets, ignore comments, statement-sequence patterns."""

    def __init__(self, rnd):
        self.rnd = rnd

    def expr(self, d=0):
        r = self.rnd
        if d >= 3 or r.random() < 0.25:
            return r.choice(["a", "b", "1", "2", "u", "x", "'s'"])
        k = r.choice(["call", "call", "call2", "add", "add1", "mul", "not", "attr", "paren", "neg", "lt", "or", "gcall"])
        e = lambda: self.expr(d + 1)
        if k == "call":
            return f"f({e()})"
        if k == "call2":
            return f"f({e()}, {e()})"
        if k == "gcall":
            return f"{r.choice(['g', 'h'])}({e()})"
        if k == "add":
            return f"{e()} + {e()}"
        if k == "add1":
            return f"{e()} + 1"
        if k == "mul":
            return f"{e()} * {e()}"
        if k == "not":
            return f"(not {e()})"
        if k == "attr":
            return f"{r.choice(['a', 'u', 'f(1)'])}.real"
        if k == "paren":
            return f"({e()} + {e()})"
        if k == "neg":
            return f"-{e()}" if r.random() < 0.5 else f"-({e()})"
        if k == "lt":
            return f"({e()} < {e()})"
        return f"({e()} or {e()})"

    def stmts(self, ind, depth, fn):
        r = self.rnd
        out = []
        for _ in range(r.randint(1, 4)):
            k = r.choice(["assign", "assign", "assignx", "xy", "print", "tprint", "if", "ifx", "ret", "for", "blank", "expr"])
            pad = " " * ind
            cm = r.choice(["", "", "", "", "  # pyrefact: ignore", "  # note", "  #pyrefact:skip_file"])
            if k == "assign":
                out.append(f"{pad}{r.choice(['t', 'u', 'x', 'y'])} = {self.expr()}{cm}\n")
            elif k == "assignx":
                out.append(f"{pad}x = {self.expr()}{cm}\n")
            elif k == "xy":
                out.append(f"{pad}x = {self.expr()}{cm}\n")
                out.append(f"{pad}y = {self.expr()}\n")
            elif k == "print":
                out.append(f"{pad}print({self.expr()}){cm}\n")
            elif k == "tprint":
                out.append(f"{pad}t = {self.expr()}\n{pad}print(t){cm}\n")
            elif k == "expr":
                out.append(f"{pad}{self.expr()}{cm}\n")
            elif k == "ret" and fn:
                out.append(f"{pad}return {self.expr()}{cm}\n")
                break
            elif k == "blank" and out:
                out.append("\n")
            elif k in ("if", "ifx", "for") and depth < 2:
                if k == "ifx":
                    out.append(f"{pad}if {self.expr()}:{cm}\n{pad}    x = {self.expr()}\n")
                elif k == "if":
                    out.append(f"{pad}if {self.expr()}:{cm}\n" + self.stmts(ind + 4, depth + 1, fn))
                    if r.random() < 0.3:
                        out.append(f"{pad}else:\n" + self.stmts(ind + 4, depth + 1, fn))
                else:
                    out.append(f"{pad}for i in {self.expr()}:\n" + self.stmts(ind + 4, depth + 1, fn))
            else:
                out.append(f"{pad}u = {self.expr()}\n")
        return "".join(out)

    def source(self):
        r = self.rnd
        if r.random() < 0.3:
            s = "def k(u):\n" + self.stmts(4, 1, True)
            if r.random() < 0.5:
                s += self.stmts(0, 0, False)
        else:
            s = self.stmts(0, 0, False)
        if r.random() < 0.35 and s.endswith("\n"):
            s = s[:-1]
        return s

    def case(self):
        r = self.rnd
        if r.random() < 0.55:
            pat, names = r.choice(EXPR_PATTERNS)
            repl = r.choice(expr_replacements(names) + [pat])
        else:
            pat, names = r.choice(STMT_PATTERNS)
            repl = r.choice(stmt_replacements(names) + [pat])
        if r.random() < 0.03:
            repl = repl + " + {{zz}}" if repl else "{{zz}}"
        count = r.choice([0, 0, 0, 1, 1, 2, 3, -1])
        return (pat, repl, self.source(), count)


def fixed_family():
    """Seed-independent small-scope family: every pattern x every replacement of its kind x the fixed
    sources x count in {0, 1, 2}."""
    for (pat, names) in EXPR_PATTERNS:
        for repl in expr_replacements(names) + [pat]:
            for src in FIXED_SOURCES:
                for count in (0, 1, 2):
                    yield (pat, repl, src, count)
    for (pat, names) in STMT_PATTERNS:
        for repl in stmt_replacements(names) + [pat]:
            for src in FIXED_SOURCES:
                for count in (0, 1, 2):
                    yield (pat, repl, src, count)


# ------------------------------------------------------------------------------------------------
# Coq side


PACKED = True


def gtext(s: str) -> str:
    """A text as packed primitive integers (8 chars of 7 bits each) or, for replays, as a string
    literal; outside printable ASCII + newline as a list of code points."""
    if all(c == "\n" or 32 <= ord(c) < 127 for c in s):
        if PACKED:
            vals = []
            for k in range(0, len(s), 8):
                vals.append(sum(ord(c) << (7 * i) for i, c in enumerate(s[k:k + 8])))
            return "(TP [" + "; ".join(str(v) for v in vals) + "]%uint63)"
        return '(T "' + s.replace('"', '""') + '"%string)'
    return common.gtext(s)


def g_range(r):
    return f"({gz(r[0])}, {gz(r[1])})"


def g_binds(d):
    return glist([f"({gtext(k)}, {gtext(v)})" for k, v in d.items()])


def g_subn_case(case, ms, rec) -> str:
    pat, repl, source, count = case
    matches = glist([f"({g_range(rng)}, {g_binds(b)})" for (rng, b, _) in ms])
    valid = glist([f"({gtext(t)}, {gbool(v)})" for t, v in rec["valid"].items()])
    if rec["error"]:
        items = "None"
    else:
        items = "(Some " + glist([f"({g_range(r)}, {gtext(t)})" for (r, t) in rec["items"]]) + ")"
    sched = glist([f"({gz(g)}, {gz(t)}, {gz(s)}, {gz(e)}, {gtext(n)})" for (g, t, s, e, n) in rec["sched"]])
    il = glist([g_range(r) for r in ignore_line_ranges(source)])
    n = rec["n"] if rec["n"] is not None else -1
    return (f"(mkSubn {gtext(source)} {gtext(repl)} {gz(count)} {matches} {valid} {il} {items} {sched} "
            f"{gtext(rec['cand'])} {gz(n)})")


HEADER = ("From Coq Require Import String List ZArith Uint63.\nImport ListNotations.\nOpen Scope Z_scope.\n"
          "Require Import Pyrefact.Base Pyrefact.SchedModel Pyrefact.SubstModel.\n"
          "Notation T := text_of_string.\nNotation TP := text_of_packed.\n")


def write_subn_file(path: Path, rows) -> None:
    body = ";\n  ".join(rows)
    path.write_text(HEADER + f"Definition cases : list subn_case := [\n  {body}\n].\n"
                    "Eval vm_compute in (bad_idx subn_case_ok cases).\n")


def model_subn_detail(wd: Path, row: str) -> str:
    p = wd / "replay_subn.v"
    p.write_text(HEADER + f"Definition c : subn_case := {row}.\n"
                 "Eval vm_compute in (subn_case_code c).\nEval vm_compute in (model_items c).\n"
                 "Eval vm_compute in (model_sched c).\nEval vm_compute in (model_cand c).\n")
    rc, out = common.coqc(p)
    return out[-6000:]


def decode_texts(s: str) -> str:
    """Render Coq `[104; 105]` lists as Python string literals in a model dump (for replays)."""
    def f(m):
        try:
            return repr("".join(chr(int(x)) for x in re.findall(r"-?\d+", m.group(0))))
        except (ValueError, OverflowError):
            return m.group(0)
    return re.sub(r"\[\s*\d+(?:;\s*\d+)*\s*\]", f, s)
