"""C19 -- Renaming is consistent and capture-free (kernel K9: names)."""
from __future__ import annotations

import itertools
import json
import random
from collections import Counter
from pathlib import Path

from . import common
from .common import glist, gz

PID = "C19"

# ---------------------------------------------------------------------------------------------
# part 1: the string functions of style.py  (NamingModel.v)

ALPHA6 = "abAB1_"
ALPHA7 = "abAB1_é"
TAGS = ["list_words", "snake_lower", "snake_upper", "camel", "var_ff", "var_fp", "var_sf", "var_sp",
        "class_f", "class_p"]
SEP = " "
NAMING_HDR = ("From Coq Require Import List NArith Uint63.\nImport ListNotations.\nOpen Scope N_scope.\n"
              "Require Import Pyrefact.Base Pyrefact.NamingModel Pyrefact.NamingRun.\n")


def impl_naming(style, tag: int, s: str):
    """Run the real function; returns str | None (ValueError) | ('exc', class name)."""
    try:
        if tag == 0:
            return "".join(w + SEP for w in style._list_words(s))
        if tag == 1:
            return style._make_snakecase(s, uppercase=False)
        if tag == 2:
            return style._make_snakecase(s, uppercase=True)
        if tag == 3:
            return style._make_camelcase(s)
        if 4 <= tag <= 7:
            return style.rename_variable(s, static=tag >= 6, private=bool(tag & 1))
        return style.rename_class(s, private=(tag == 9))
    except ValueError:
        return None
    except Exception as e:  # noqa
        return ("exc", type(e).__name__)


def encode(alpha: str, s) -> int:
    """Same injective encoding as NamingModel.encode / encode_opt (0 = ValueError; an unexpected
    exception class is encoded as a value no model output can take)."""
    if s is None:
        return 0
    if isinstance(s, tuple):
        return 2
    acc = 1
    for c in s:
        i = alpha.find(c)
        acc = acc * 16 + ((i if i >= 0 else len(alpha)) + 1)
    return acc


def strings_upto(alpha: str, n: int):
    for k in range(n + 1):
        for t in itertools.product(alpha, repeat=k):
            yield "".join(t)


def naming_blocks(tier: str):
    """(alphabet, prefix, n): all strings prefix+t, |t| <= n."""
    blocks = [(ALPHA6, "", 1)] + [(ALPHA6, a + b, 4) for a in ALPHA6 for b in ALPHA6]   # all |s| <= 6
    if tier == "quick":
        blocks += [(ALPHA7, "", 4)]                                                    # all |s| <= 4 with e-acute
    else:
        blocks += [(ALPHA7, "", 1)] + [(ALPHA7, a + b, 4) for a in ALPHA7 for b in ALPHA7]
    return blocks


def write_naming_block(wd: Path, k: int, style, block):
    alpha, prefix, n = block
    inputs = [prefix + t for t in strings_upto(alpha, n)]
    out = [NAMING_HDR, f"Definition alpha : list N := {glist([ord(c) for c in alpha])}.\n"]
    impl = {}
    for tag in range(len(TAGS)):
        a = alpha + SEP if tag == 0 else alpha
        res = [impl_naming(style, tag, s) for s in inputs]
        impl[tag] = res
        want = glist([f"{encode(a, r)}%uint63" for r in res])
        out.append(f"Eval vm_compute in (check_block alpha {tag} {common.gtext(prefix)} {n} {want}).\n")
    p = wd / f"naming_{k}.v"
    p.write_text("".join(out))
    return p, inputs, impl
