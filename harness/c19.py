"""C19 -- Renaming is consistent and capture-free (kernel K9: names)."""
from __future__ import annotations

import contextlib
import itertools
import json
import random
from collections import Counter
from pathlib import Path

from . import c19_binders as binders
from . import common
from .common import glist, gz

PID = "C19"

# ---------------------------------------------------------------------------------------------
# part 1: the string functions of style.py  (NamingModel.v)

ALPHA6 = "abAB1_"
ALPHA7 = "abAB1_é"
TAGS = ["list_words", "snake_lower", "snake_upper", "camel", "var_ff", "var_fp", "var_sf", "var_sp",
        "class_f", "class_p"]
SEP = " "
NAMING_HDR = ("From Coq Require Import List NArith Uint63.\nImport ListNotations.\nOpen Scope N_scope.\n"
              "Require Import Pyrefact.Base Pyrefact.NamingModel Pyrefact.NamingRun.\n")


def impl_naming(style, tag: int, s: str):
    """Run the real function; returns str | None (ValueError) | ('exc', class name)."""
    try:
        if tag == 0:
            return "".join(w + SEP for w in style._list_words(s))
        if tag == 1:
            return style._make_snakecase(s, uppercase=False)
        if tag == 2:
            return style._make_snakecase(s, uppercase=True)
        if tag == 3:
            return style._make_camelcase(s)
        if 4 <= tag <= 7:
            return style.rename_variable(s, static=tag >= 6, private=bool(tag & 1))
        return style.rename_class(s, private=(tag == 9))
    except ValueError:
        return None
    except Exception as e:  # noqa
        return ("exc", type(e).__name__)


def encode(alpha: str, s) -> int:
    """Same injective encoding as NamingModel.encode / encode_opt (0 = ValueError; an unexpected
    exception class is encoded as a value no model output can take)."""
    if s is None:
        return 0
    if isinstance(s, tuple):
        return 2
    acc = 1
    for c in s:
        i = alpha.find(c)
        acc = acc * 16 + ((i if i >= 0 else len(alpha)) + 1)
    return acc


def strings_upto(alpha: str, n: int):
    for k in range(n + 1):
        for t in itertools.product(alpha, repeat=k):
            yield "".join(t)


def naming_blocks(tier: str):
    """(alphabet, prefix, n): all strings prefix+t, |t| <= n."""
    blocks = [(ALPHA6, "", 1)] + [(ALPHA6, a + b, 4) for a in ALPHA6 for b in ALPHA6]   # all |s| <= 6
    if tier == "quick":
        blocks += [(ALPHA7, "", 4)]                                                    # all |s| <= 4 with e-acute
    else:
        blocks += [(ALPHA7, "", 1)] + [(ALPHA7, a + b, 4) for a in ALPHA7 for b in ALPHA7]
    return blocks


def write_naming_block(wd: Path, k: int, style, block):
    alpha, prefix, n = block
    inputs = [prefix + t for t in strings_upto(alpha, n)]
    out = [NAMING_HDR, f"Definition alpha : list N := {glist([ord(c) for c in alpha])}.\n"]
    impl = {}
    for tag in range(len(TAGS)):
        a = alpha + SEP if tag == 0 else alpha
        res = [impl_naming(style, tag, s) for s in inputs]
        impl[tag] = res
        want = glist([f"{encode(a, r)}%uint63" for r in res])
        out.append(f"Eval vm_compute in (check_block alpha {tag} {common.gtext(prefix)} {n} {want}).\n")
    p = wd / f"naming_{k}.v"
    p.write_text("".join(out))
    return p, inputs, impl


# ---------------------------------------------------------------------------------------------
# part 2: align_variable_names_with_convention / _get_uses_of  (RenameModel.v)

import ast
import io
import tokenize

DEF_BASE = 10000
RENAME_HDR = ("From Coq Require Import List NArith ZArith Bool.\nImport ListNotations.\n"
              "Require Import Pyrefact.Base Pyrefact.NamingModel Pyrefact.RenameModel Pyrefact.RenameRun.\n"
              "Open Scope N_scope.\n")
DEFS = (ast.FunctionDef, ast.AsyncFunctionDef, ast.ClassDef)


def _name_token_positions(source: str):
    """{(row, col of the def/class keyword token or of 'async')} -> absolute (start, end) offsets of the
    name token that follows `def` / `class`.  Independent of fixes._get_func_name_start_end."""
    line_starts = [0]
    for line in source.splitlines(keepends=True):
        line_starts.append(line_starts[-1] + len(line))
    toks = list(tokenize.generate_tokens(io.StringIO(source).readline))
    res = {}
    for i, t in enumerate(toks):
        if t.type == tokenize.NAME and t.string in ("def", "class") and i + 1 < len(toks):
            n = toks[i + 1]
            if n.type == tokenize.NAME:
                first = toks[i - 1] if i and toks[i - 1].type == tokenize.NAME and toks[i - 1].string == "async" else t
                res[(first.start[0], first.start[1])] = (line_starts[n.start[0] - 1] + n.start[1],
                                                          line_starts[n.end[0] - 1] + n.end[1])
    return res


def abstract_module(root: ast.Module, source: str, typevar_nodes=()):
    """AST -> the module abstraction of RenameModel.v (independent re-implementation of the data the
    rule looks at).  Returns (dict for the model, node -> id map)."""
    tokpos = _name_token_positions(source)
    occs, defs, args, others, imported = [], [], [], [], []
    ids = {}
    scope_ids = {}

    def targets_of(body):
        out = []

        def unpack(t):          # parsing._unpack_ast_target: names under tuples, lists and stars
            if isinstance(t, ast.Name):
                out.append(t)
            elif isinstance(t, (ast.Tuple, ast.List)):
                for e in t.elts:
                    unpack(e)
            elif isinstance(t, ast.Starred):
                unpack(t.value)
        for st in body:
            if isinstance(st, (ast.AnnAssign, ast.AugAssign)):
                unpack(st.target)
            if isinstance(st, ast.Assign):
                for t in st.targets:
                    unpack(t)
        return out

    target_nodes = set()

    def visit(node, chain, aug, parent_body):
        if isinstance(node, DEFS):
            sid = len(scope_ids) + 1
            scope_ids[node] = sid
            nid = DEF_BASE + len(defs)
            ids[node] = nid
            key = (node.lineno, node.col_offset)
            st, en = tokpos.get(key, (-1, -1))
            is_func = not isinstance(node, ast.ClassDef)
            params = [a.arg for a in ast.walk(node.args) if isinstance(a, ast.arg)] if is_func else []
            defs.append(dict(id=nid, scope=sid, kind="KFunc" if is_func else "KClass", name=node.name,
                             start=(node.lineno, st), end=(node.lineno, en), scopes=list(chain), params=params,
                             bases=bool(getattr(node, "bases", [])),
                             direct=any(node is s for s in parent_body)))
            for t in targets_of(node.body):
                target_nodes.add(id(t))
            for child in ast.iter_child_nodes(node):
                visit(child, chain + [sid], aug, node.body)
            return
        if isinstance(node, ast.Name):
            nid = len(occs)
            ids[node] = nid
            occs.append(dict(id=nid, name=node.id, ctx=type(node.ctx).__name__, aug=aug,
                             start=(node.lineno, node.col_offset), end=(node.end_lineno, node.end_col_offset),
                             scopes=list(chain), node=node))
        elif isinstance(node, ast.arg):
            args.append(node.arg)
        elif isinstance(node, ast.alias):
            others.append((node.asname or node.name).split(".")[0])
        elif type(node) in binders.IDENT_FIELDS and not isinstance(node, ast.ImportFrom):
            # every other identifier-typed field of the grammar (attributes, keywords, global / nonlocal,
            # handlers, match captures / star captures / **rest / class-pattern keywords, type parameters),
            # taken from the ASDL signatures of the running interpreter, not from a hand-written list
            for field, typ in binders.IDENT_FIELDS[type(node)]:
                v = getattr(node, field)
                if v is not None:
                    others.extend(v if typ.endswith("*") else [v])
        if isinstance(node, (ast.Import, ast.ImportFrom)):
            if not (isinstance(node, ast.ImportFrom) and node.module == "__future__"):
                imported.extend(a.asname or a.name for a in node.names)
        for child in ast.iter_child_nodes(node):
            visit(child, chain, aug or isinstance(node, ast.AugAssign), parent_body)

    for t in targets_of(root.body):
        target_nodes.add(id(t))
    for child in root.body:
        visit(child, [], False, root.body)
    # def/class node ids follow the Name ids (small numbers: the model uses unary nat)
    shift = len(occs) - DEF_BASE
    for d in defs:
        d["id"] += shift
    for node in list(ids):
        if isinstance(node, DEFS):
            ids[node] += shift
    tv = {id(n) for n in typevar_nodes}
    for o in occs:
        o["target"] = id(o["node"]) in target_nodes
        o["typevar"] = id(o["node"]) in tv
        del o["node"]
    return dict(occs=occs, defs=defs, args=args, others=others, imported=imported), ids


def gpos(p):
    return f"({gz(p[0])}, {gz(p[1])})%Z"


class Interner:
    """identifiers are defined once per case file (Coq parses `[109; 121; ...]` slowly)"""

    def __init__(self):
        self.names = {}

    def __call__(self, s: str) -> str:
        if s not in self.names:
            self.names[s] = f"i{len(self.names)}"
        return self.names[s]

    def header(self) -> str:
        return "".join(f"Definition {v} : ident := {common.gtext(k)}.\n" for k, v in self.names.items())


_PLAIN = common.gtext


def gident(s: str) -> str:
    return _CURRENT(s)


_CURRENT = _PLAIN


@contextlib.contextmanager
def interning(it):
    global _CURRENT
    old, _CURRENT = _CURRENT, it
    try:
        yield it
    finally:
        _CURRENT = old


def modl_coq(m) -> str:
    occs = glist(m["occs"], lambda o: (
        f"Occ {o['id']} {gident(o['name'])} {o['ctx']} {common.gbool(o['aug'])} {gpos(o['start'])} {gpos(o['end'])} "
        f"{glist(o['scopes'])}%nat {common.gbool(o['target'])} {common.gbool(o['typevar'])}"))
    defs = glist(m["defs"], lambda d: (
        f"Defn {d['id']} {d['scope']} {d['kind']} {gident(d['name'])} {gpos(d['start'])} {gpos(d['end'])} "
        f"{glist(d['scopes'])}%nat {glist(d['params'], gident)} {common.gbool(d['bases'])} {common.gbool(d['direct'])}"))
    return (f"(Modl {occs} {defs} {glist(m['args'], gident)} {glist(m['others'], gident)} "
            f"{glist(m['imported'], gident)})")


def impl_align(mods, source: str, preserve=frozenset()):
    """One pass of the real rule: {(node id, new name)}, the abstraction, and whether the transactions
    are exactly the groups by new name."""
    core, fixes, parsing = mods["core"], mods["fixes"], mods["parsing"]
    with common.quiet():
        root = core.parse(source)
        tv = []
        for node in parsing.iter_typedefs(root):
            if len(node.targets) == 1 and isinstance(node.targets[0], ast.Name):
                tv.append(node.targets[0])
        m, ids = abstract_module(root, source, tv)
        res, trans = [], {}
        for node, repl, tr in fixes.align_variable_names_with_convention._fix_func(source, preserve=preserve):
            new = repl.id if isinstance(repl, ast.Name) else repl.name
            res.append((ids[node], new))
            trans.setdefault(tr, set()).add(new)
    groups_ok = all(len(v) == 1 for v in trans.values()) and \
        len({next(iter(v)) for v in trans.values()}) == len(trans)
    return m, sorted(res), groups_ok


def align_case_coq(m, preserve, want) -> str:
    w = glist(want, lambda e: f"({e[0]}%nat, {gident(e[1])})")
    return f"({glist(sorted(preserve), gident)}, {modl_coq(m)}, {w})"


# ---------------------------------------------------------------------------------------------
# generated programs with adversarial identifiers

BASES = [("my", "var"), ("some", "value"), ("http", "server"), ("x",), ("a", "b"), ("list",), ("type",),
         ("print",), ("class",), ("id", "of"), ("var", "1"), ("t", "2"), ("is",), ("for", "each")]
FIXED_IDS = ["_", "__x__", "_1x", "x1", "X_1", "a1B2", "var_1", "var_2", "i", "a", "pyrefact_overused_constant_0",
             "PYREFACT_OVERUSED_CONSTANT_1", "T", "ABc", "ABCd", "AB", "self", "cls", "Foo", "foo_", "__foo", "_Bar",
             "setUp", "e", "args", "kwargs"]


def variants(words):
    """camelCase / snake_case / UPPER / Pascal / mixed / private / trailing-underscore variants of one name"""
    w = [x for x in words]
    snake = "_".join(w)
    camel = w[0] + "".join(x.capitalize() for x in w[1:])
    pascal = "".join(x.capitalize() for x in w)
    mixed = w[0] + "".join("_" + x.capitalize() for x in w[1:])
    out = [snake, snake.upper(), camel, pascal, mixed, "_" + camel, "_" + snake, camel + "_", "__" + camel,
           snake + "__", pascal + "2"]
    return [v for v in dict.fromkeys(out) if v.isidentifier() and not __import__("keyword").iskeyword(v)]


class Gen:
    """Random module with every binding form; text is built directly (always re-parsed before use)."""

    def __init__(self, rnd: random.Random, sparse: bool):
        self.r = rnd
        self.sparse = sparse
        pool = []
        for b in rnd.sample(BASES, rnd.randint(2, 3)):
            pool += rnd.sample(variants(b), min(len(variants(b)), rnd.randint(2, 4)))
        pool += rnd.sample(FIXED_IDS, rnd.randint(1, 4))
        self.pool = list(dict.fromkeys(pool))
        self.fresh = 0
        self.recent = []
        self.hist = Counter()

    def name(self):
        """dense: always from the small pool.  sparse: mostly a recently used name (so that bindings
        have references) or a new variant of a new base, sometimes from the adversarial pool."""
        r = self.r
        if not self.sparse:
            return r.choice(self.pool)
        k = r.random()
        if k < 0.55 and self.recent:
            return r.choice(self.recent[-6:])
        if k < 0.85:
            self.fresh += 1
            base = r.choice(BASES)
            n = r.choice(variants(base + (f"v{self.fresh}",)))
            self.recent.append(n)
            return n
        n = r.choice(self.pool)
        self.recent.append(n)
        return n

    def expr(self, depth=0):
        r = self.r
        k = r.random()
        if k < 0.40 or depth > 2:
            return self.name()
        if k < 0.50:
            return str(r.randint(0, 9))
        if k < 0.58:
            return f"{self.expr(depth + 1)} + {self.expr(depth + 1)}"
        if k < 0.66:
            self.hist["call_kw"] += 1
            return f"{self.name()}({self.expr(depth + 1)}, {self.name()}={self.expr(depth + 1)})"
        if k < 0.73:
            self.hist["attribute"] += 1
            return f"{self.name()}.{self.name()}"
        if k < 0.79:
            self.hist["lambda"] += 1
            return f"(lambda {self.name()}: {self.expr(depth + 1)})"
        if k < 0.86:
            self.hist["comprehension"] += 1
            return f"[{self.expr(depth + 1)} for {self.name()} in {self.expr(depth + 1)} if {self.name()}]"
        if k < 0.90:
            self.hist["walrus"] += 1
            return f"({self.name()} := {self.expr(depth + 1)})"
        if k < 0.94:
            self.hist["fstring"] += 1
            return 'f"{' + self.name() + '}"'
        return f"{self.name()}[{self.expr(depth + 1)}]"

    def target(self):
        r = self.r
        k = r.random()
        if k < 0.6:
            return self.name()
        if k < 0.75:
            self.hist["tuple_target"] += 1
            return f"{self.name()}, {self.name()}"
        if k < 0.82:
            self.hist["star_target"] += 1
            return f"{self.name()}, *{self.name()}"
        if k < 0.88:
            return f"[{self.name()}, {self.name()}]"
        if k < 0.94:
            return f"{self.name()}.{self.name()}"
        return f"{self.name()}[0]"

    def block(self, ind, depth, kind):
        n = self.r.randint(1, 3 if depth else 5)
        out = []
        for _ in range(n):
            out += self.stmt(ind, depth, kind)
        return out

    def stmt(self, ind, depth, kind):
        r = self.r
        pad = "    " * ind
        k = r.random()
        deep = depth >= 3
        if k < 0.22:
            self.hist["assign"] += 1
            if r.random() < 0.15:
                return [f"{pad}{self.target()} = {self.target()} = {self.expr()}"]
            return [f"{pad}{self.target()} = {self.expr()}"]
        if k < 0.27:
            self.hist["annassign"] += 1
            return [f"{pad}{self.name()}: {self.name()} = {self.expr()}"]
        if k < 0.33:
            self.hist["augassign"] += 1
            return [f"{pad}{self.name()} += {self.expr()}"]
        if k < 0.37:
            self.hist["typedef"] += 1
            n = self.name()
            return [pad + r.choice([f'{n} = TypeVar("{n}")', f'{n} = collections.namedtuple("{n}", ["f"])',
                                    f"{n} = Mapping[int, {self.name()}]"])]
        if k < 0.43:
            self.hist["print"] += 1
            return [f"{pad}print({self.expr()}, {self.expr()})"]
        if k < 0.47:
            self.hist["del"] += 1
            return [f"{pad}del {self.name()}"]
        if k < 0.52:
            self.hist["import"] += 1
            return [pad + r.choice([f"import os as {self.name()}", f"from os import path as {self.name()}",
                                    "import os.path", f"from collections import {self.name()}",
                                    f"import {self.name()}"])]
        if k < 0.56 and kind == "func":
            self.hist["global_nonlocal"] += 1
            return [pad + r.choice(["global ", "nonlocal "]) + self.name()]
        if deep:
            return [f"{pad}{self.name()} = {self.expr()}"]
        if k < 0.62:
            self.hist["for"] += 1
            out = [f"{pad}for {self.target()} in {self.expr()}:"] + self.block(ind + 1, depth + 1, kind)
            if r.random() < 0.2:
                out += [f"{pad}else:"] + self.block(ind + 1, depth + 1, kind)
            return out
        if k < 0.68:
            self.hist["if_while"] += 1
            out = [f"{pad}{r.choice(['if', 'while'])} {self.expr()}:"] + self.block(ind + 1, depth + 1, kind)
            return out
        if k < 0.72:
            self.hist["with"] += 1
            return [f"{pad}with {self.expr()} as {self.target()}:"] + self.block(ind + 1, depth + 1, kind)
        if k < 0.77:
            self.hist["try"] += 1
            return ([f"{pad}try:"] + self.block(ind + 1, depth + 1, kind)
                    + [f"{pad}except {self.name()} as {self.name()}:"] + self.block(ind + 1, depth + 1, kind))
        if k < 0.80:
            self.hist["match"] += 1
            return [f"{pad}match {self.expr()}:", f"{pad}    case [{self.name()}, *{self.name()}]:",
                    f"{pad}        pass", f"{pad}    case {{'k': {self.name()}, **{self.name()}}}:",
                    f"{pad}        print({self.name()})"]
        if k < 0.92:
            self.hist["def"] += 1
            params = []
            for _ in range(r.randint(0, 3)):
                p = self.name()
                if p not in params:
                    params.append(p)
            ps = list(params)
            if ps and r.random() < 0.3:
                ps[-1] = f"{ps[-1]}={self.expr(2)}"
            # every kind of parameter: positional-only, *args / bare *, keyword-only, **kwargs
            if ps and r.random() < 0.12:
                ps.insert(r.randint(1, len(ps)), "/")
            k2 = r.random()
            if k2 < 0.2:
                ps.append("*" + (self.name() if r.random() < 0.7 else r.choice(["args", "rest"])))
            elif k2 < 0.28:
                ps.append("*")
            if ps and ps[-1].startswith("*") and (ps[-1] != "*" or r.random() < 2) and r.random() < 0.6 or (ps and ps[-1] == "*"):
                ps.append(f"{self.name()}={self.expr(2)}")
            if r.random() < 0.15:
                ps.append("**" + (self.name() if r.random() < 0.7 else "kwargs"))
            seen_p = set()
            ps = [q for q in ps if q in ("/", "*") or (q.lstrip("*").split("=")[0] not in seen_p
                                                      and not seen_p.add(q.lstrip("*").split("=")[0]))]
            if ps and ps[-1] == "*":
                ps.pop()
            self.hist["param_kinds"] += sum(1 for q in ps if q.startswith("*") or q == "/")
            deco = [f"{pad}@{self.name()}"] if r.random() < 0.1 else []
            asy = "async " if r.random() < 0.08 else ""
            first = (["self"] if kind == "class" and r.random() < 0.8 else [])
            head = f"{pad}{asy}def {self.name()}({', '.join(first + [p for p in ps if p.lstrip('*').split('=')[0] != 'self'])}):"
            body = self.block(ind + 1, depth + 1, "func")
            if r.random() < 0.5:
                body.append(f"{pad}    return {self.expr()}")
            return deco + [head] + body
        self.hist["class"] += 1
        bases = r.choice(["", "", "", f"({self.name()})", "(object)"])
        return [f"{pad}class {self.name()}{bases}:"] + self.block(ind + 1, depth + 1, "class")

    def module(self):
        for _ in range(50):
            lines = self.block(0, 0, "module")
            src = "\n".join(lines) + "\n"
            try:
                ast.parse(src)
            except SyntaxError:
                continue
            if len(src) < 1500:
                return src
        return "x = 1\n"


def gen_programs(rnd: random.Random, n: int):
    out, hist = [], Counter()
    for i in range(n):
        g = Gen(rnd, sparse=i % 3 != 0)
        out.append(g.module())
        hist.update(g.hist)
    return out, hist


def impl_uses(mods, source: str, limit=40):
    """Direct runs of the real fixes._get_uses_of: [(scope id, node id, [use ids] | 'exc:<class>')]"""
    core, fixes = mods["core"], mods["fixes"]
    with common.quiet():
        root = core.parse(source)
        m, ids = abstract_module(root, source)
    scope_of = {d["scope"]: None for d in m["defs"]}
    nodes_by_id = {v: k for k, v in ids.items()}
    for d in m["defs"]:
        scope_of[d["scope"]] = nodes_by_id[d["id"]]
    items = []
    for o in m["occs"]:
        if o["ctx"] == "Store":
            items.append((o["id"], o["scopes"]))
    for d in m["defs"]:
        items.append((d["id"], d["scopes"]))
    out = []
    for nid, chain in items[:limit]:
        node = nodes_by_id[nid]
        for sid in [0] + list(chain):
            scope = root if sid == 0 else scope_of[sid]
            try:
                with common.quiet():
                    got = sorted(ids[u] for u in fixes._get_uses_of(node, scope, source))
            except Exception as e:  # noqa
                got = "exc:" + type(e).__name__
            out.append((sid, nid, got))
    return m, out


# ---------------------------------------------------------------------------------------------
# part 3: property oracle (binding structure + execution before/after) on a deterministic family

import contextlib
import symtable

NAME_PAIRS = [("myVar", "my_var"), ("myVar", "MY_VAR"), ("myVar", "my_Var"), ("MyVar", "myVar"), ("_myVar", "myVar"),
              ("Id", "id"), ("Class_", "class_"), ("var_1", "var_2"), ("a", "b"), ("x1", "X1"), ("_1x", "x"),
              ("é", "e"), ("naïve", "na_ve"), ("ABc", "a_bc"), ("a_b", "AB"), ("HTTPServer", "http_server"),
              ("_", "x"), ("__t2", "_t2"), ("__x__", "x"), ("sorted", "srt"), ("len", "n")]

# closed programs; {A} is bound in the way the template's name says, {B} is the adversary
TEMPLATES = {
    "func_assign": "def f():\n    {A} = 1\n    {B} = 2\n    print({A}, {B})\nf()\n",
    "mod_assign": "{A} = 1\n{B} = 2\nprint({A}, {B})\n",
    "mod_assign_only": "{A} = 1\nprint({A})\n",
    "func_assign_only": "def f():\n    {A} = 1\n    print({A})\n    return {A}\nprint(f())\n",
    "nested_store": "import sys\n{A} = 1\nif len(sys.argv) > 50:\n    {A} = 2\nprint({A})\n",
    "for_target": "def f():\n    {A} = 0\n    for {A} in range(3):\n        pass\n    print({A})\nf()\n",
    "for_tuple_target": "def f():\n    {A} = 0\n    for {B}, {A} in [(1, 2)]:\n        pass\n    print({A}, {B})\nf()\n",
    "local_shadow": "{A} = 1\ndef f():\n    {A} = 2\n    print({A})\nf()\nprint({A})\n",
    "param_shadow": "{A} = 1\ndef f({A}):\n    print({A})\nf(5)\nprint({A})\n",
    "lambda_param": "{A} = 1\nf = lambda {A}: {A} + 1\nprint(f(5), {A})\n",
    "comp_target": "def f():\n    {A} = 7\n    print([{A} for {A} in range(3)], {A})\nf()\n",
    "comp_use": "def f():\n    {A} = 7\n    print([{A} + {B} for {B} in range(3)])\nf()\n",
    "closure_before": "def f():\n    def g():\n        return {A}\n    {A} = 1\n    return g()\nprint(f())\n",
    "closure_after": "def f():\n    {A} = 1\n    def g():\n        return {A}\n    return g()\nprint(f())\n",
    "global_decl": "{A} = 1\ndef f():\n    global {A}\n    {A} = 2\nf()\nprint({A})\n",
    "nonlocal_decl": "def f():\n    {A} = 1\n    def g():\n        nonlocal {A}\n        {A} = 2\n    g()\n    print({A})\nf()\n",
    "except_as": "def f():\n    {A} = 1\n    try:\n        raise ValueError(3)\n    except ValueError as {B}:\n        print({B})\n    print({A})\nf()\n",
    "except_as_same": "def f():\n    {A} = 1\n    try:\n        raise ValueError(3)\n    except ValueError as {A}:\n        print({A})\n    return 0\nf()\n",
    "class_attr": "class K:\n    {A} = 1\n    def get(self):\n        return self.{A}\nprint(K().get())\n",
    "class_attr_clash": "class K:\n    {A} = 1\n    def get(self):\n        self.{B} = 2\n        return self.{B}\nprint(K().get(), K.{A})\n",
    "method": "class K:\n    def {A}(self):\n        return 1\n    def other(self):\n        return self.{A}()\nprint(K().other())\n",
    "method_unused": "class K:\n    def {A}(self):\n        return 1\nprint(K is not None)\n",
    "class_body_use": "class K:\n    {A} = 1\n    {B} = {A} + 1\nprint(K.{B})\n",
    "class_body_alias": "def outer():\n    def {A}():\n        return 2\n    class K(object):\n        def {A}(self):\n            return 1\n        alias = {A}\n    return K().alias(), {A}()\nprint(outer())\n",
    "method_and_function": "def outer():\n    class K(object):\n        def {A}(self):\n            return {A}() + 1\n    def {A}():\n        return 2\n    return K().{A}()\nprint(outer())\n",
    "vararg_shadow": "{A} = [7, 8, 9]\ndef total(*{A}):\n    return sum({A})\ndef g():\n    return len({A})\nprint(total(1, 2), g(), {A})\n",
    "kwarg_shadow": "{A} = {{'a': 1}}\ndef show(**{A}):\n    return sorted({A})\ndef g():\n    return sorted({A})\nprint(show(b=2, c=3), g(), {A})\n",
    "kwonly_shadow": "{A} = 10\ndef f(*, {A}=3):\n    return {A} + 1\ndef g():\n    return {A} * 2\nprint(f({A}=1), f(), g())\n",
    "posonly_shadow": "{A} = 10\ndef f({A}, /):\n    return {A} + 1\ndef g():\n    return {A} * 2\nprint(f(1), g())\n",
    "vararg_shadow_func": "def {A}():\n    return [1, 2, 3]\ndef count(*{A}):\n    return len({A})\nprint(count(), count(4, 5))\nprint({A}())\n",
    "kwarg_shadow_local": "def outer():\n    {A} = {{'k': 1}}\n    def inner(**{A}):\n        return sorted({A})\n    return inner(z=1), sorted({A})\nprint(outer())\n",
    "lambda_vararg_shadow": "{A} = 5\nf = lambda *{A}: len({A})\nprint(f(1, 2), {A})\n",
    "ignore_on_use": "def scale(v):\n    {A} = 10\n    y = v * {A}  # pyrefact: ignore\n    return y + {A}\nprint(scale(2))\n",
    "ignore_on_aug": "def compute(values):\n    {A} = 1\n    if values:\n        {A} *= len(values)  # pyrefact: ignore\n    return {A}\nprint(compute([1, 2, 3]))\n",
    "ignore_on_global_use": "{A} = 3\ndef attempts():\n    return list(range({A}))  # pyrefact: ignore\nprint(attempts(), {A})\n",
    "ignore_in_renamed_func": "def {A}(values):\n    return sum(values) + 1  # pyrefact: ignore\ndef report():\n    return {A}([1, 2, 3]) * 2\nprint(report(), {A}([4]))\n",
    "ignore_on_class_use": "class {A}:\n    size = 4\ndef make():\n    return {A}()  # pyrefact: ignore\nprint(make().size, {A}.size)\n",
    "ignore_on_binding": "def scale(v):\n    {A} = 10  # pyrefact: ignore\n    y = v * {A}\n    return y + {A}\nprint(scale(2))\n",
    "read_before_def": "{B}_ = {A}\ndef {A}(v):\n    return 'mine'\nprint({A}([2, 1]), {B}_ is {A})\n",
    "read_before_def_func": "import builtins\ndef early():\n    return {A}([2, 1])\nfirst = early() if hasattr(builtins, '{A}') else None\ndef {A}(v):\n    return 'mine'\nprint(first, early())\n",
    "keyword_arg": "def f({A}=1):\n    return {A}\nprint(f({A}=2))\n",
    "func_name": "def {A}(v):\n    return v\nprint({A}(2))\n",
    "func_name_kw": "def {A}(v):\n    return v\n{B} = 3\nprint({A}(v={B}))\n",
    "func_recursive": "def {A}(n):\n    return 1 if n < 1 else n * {A}(n - 1)\nprint({A}(4))\n",
    "cond_def": "import sys\ndef {A}():\n    return 1\nif len(sys.argv) < 50:\n    def {A}():\n        return 2\nprint({A}())\n",
    "class_name": "class {A}:\n    v = 1\nprint({A}.v, {A}().v)\n",
    "class_in_func": "def f():\n    class {A}:\n        v = 1\n    return {A}().v\nprint(f())\n",
    "with_target": "import contextlib\ndef f():\n    {A} = 0\n    with contextlib.nullcontext(5) as {A}:\n        pass\n    print({A})\nf()\n",
    "import_rebind": "def f():\n    {A} = 0\n    import os as {A}\n    print({A}.sep)\nf()\n",
    "import_as_clash": "import os as {B}\ndef f():\n    {A} = 1\n    return {A}, {B}.sep\nprint(f())\n",
    "import_dotted": "import os.path\ndef f():\n    Os = 1\n    {A} = 2\n    return Os, {A}, os.sep\nprint(f())\n",
    "aug": "def f():\n    {A} = 1\n    {A} += 2\n    print({A})\nf()\n",
    "aug_module": "{A} = 1\n{A} += 2\nprint({A})\n",
    "del_": "def f():\n    {A} = 1\n    print({A})\n    del {A}\nf()\n",
    "walrus": "def f():\n    {A} = 1\n    if ({A} := 5) > 2:\n        print({A})\nf()\n",
    "star_target": "def f():\n    {A}, *{B} = [1, 2, 3]\n    print({A}, {B})\nf()\n",
    "chain_assign": "def f():\n    {A} = {B} = 4\n    print({A}, {B})\nf()\n",
    "tuple_assign": "{A}, {B} = 1, 2\nprint({A}, {B})\n",
    "match_capture": "def f(p):\n    {A} = 1\n    match p:\n        case [{A}, 2]:\n            pass\n    print({A})\nf([5, 2])\n",
    "load_before_def_module": "def g():\n    return {A}\n{A} = 3\nprint(g())\n",
    "default_arg": "{A} = 4\ndef f(v={A}):\n    return v\nprint(f())\n",
    "decorator": "def {A}(fn):\n    return fn\n@{A}\ndef g():\n    return 1\nprint(g())\n",
    "fstring": "def f():\n    {A} = 1\n    return f'{{{A}}}!'\nprint(f())\n",
    "annotation": "def f():\n    {A}: int = 1\n    return {A}\nprint(f())\n",
    "typevar": "from typing import TypeVar\n{A} = TypeVar('{A}')\ndef f(v: {A}) -> {A}:\n    return v\nprint(f(1))\n",
    "two_funcs_same_local": "def f():\n    {A} = 1\n    return {A}\ndef g():\n    {A} = 2\n    return {A}\nprint(f(), g())\n",
    "attr_unrelated": "import types\no = types.SimpleNamespace({B}=5)\ndef f():\n    {A} = 1\n    return {A} + o.{B}\nprint(f())\n",
    "unused_store": "def f():\n    {A} = 1\n    {B} = 2\n    return {B}\nprint(f())\n",
    "unused_loop_var": "def f():\n    n = 0\n    for {A} in range(3):\n        n += 1\n    return n\nprint(f())\n",
    "unused_then_used": "def f():\n    {A} = 1\n    {A} = 2\n    return {A}\nprint(f())\n",
    "unused_closure": "def f():\n    {A} = 1\n    def g():\n        return {A}\n    {A} = 2\n    return g()\nprint(f())\n",
    "unused_global": "{A} = 0\ndef f():\n    global {A}\n    {A} = 1\nf()\nprint({A})\n",
    "dup_funcs": "def {A}():\n    return 1\ndef {B}():\n    return 1\nprint({A}(), {B}())\n",
    "dup_funcs_local_clash": "def {A}():\n    return 1\ndef {B}():\n    return 1\ndef g():\n    {B} = 5\n    return {B} + {A}()\nprint(g(), {B}())\n",
    "dup_funcs_param_clash": "def {A}():\n    return 1\ndef {B}():\n    return 1\ndef g({B}):\n    return {B} + {A}()\nprint(g(5), {B}())\n",
}


def run_program(src: str):
    """(stdout, exception class | None) of a closed program"""
    out = io.StringIO()
    try:
        code = compile(src, "<prog>", "exec")
    except SyntaxError as e:
        return ("", "SyntaxError")
    import signal

    def on_alarm(signum, frame):
        raise TimeoutError("program runs too long")

    old = signal.signal(signal.SIGALRM, on_alarm)
    signal.setitimer(signal.ITIMER_REAL, 3.0)
    try:
        with contextlib.redirect_stdout(out), contextlib.redirect_stderr(io.StringIO()):
            exec(code, {"__name__": "__main__"})
        return (out.getvalue(), None)
    except BaseException as e:  # noqa
        return (out.getvalue(), type(e).__name__)
    finally:
        signal.setitimer(signal.ITIMER_REAL, 0)
        signal.signal(signal.SIGALRM, old)


def _unmangle(name: str, cls) -> str:
    """class-private names appear mangled (_K__x) in the symbol tables of a class and of what it contains"""
    if cls:
        prefix = "_" + cls.lstrip("_") + "__"
        if name.startswith(prefix) and not name.endswith("__"):
            return "__" + name[len(prefix):]
    return name


def _sym_rows(table, cls=None):
    rows = []
    for s in table.get_symbols():
        # is_namespace() is not compared: symtable does not find the child namespace of a class-private
        # (mangled) name; nested scopes are compared structurally instead
        rows.append((_unmangle(s.get_name(), cls), (s.is_local(), s.is_global(), s.is_parameter(), s.is_free(), s.is_imported(),
                                     s.is_assigned(), s.is_referenced(), s.is_nonlocal(), s.is_declared_global())))
    return rows


def binding_structure_diff(before: str, after: str):
    """None when `after` is `before` up to a capture-free renaming: same tree of scopes; in every scope
    the symbols correspond one to one, in order, with the same binding flags; a free variable is renamed
    like the local of the enclosing function it resolves to; all global references of one name are
    renamed alike and different globals stay different.  Otherwise a description."""
    try:
        ta = symtable.symtable(before, "<a>", "exec")
    except SyntaxError:
        return None            # the input is not a compilable program: nothing to compare
    try:
        tb = symtable.symtable(after, "<b>", "exec")
    except SyntaxError as e:
        return f"the output does not compile: {e}"
    gmap, ginv = {}, {}

    def bind(m, inv, x, y, where):
        if m.setdefault(x, y) != y:
            return f"{where}: identifier {x!r} becomes both {m[x]!r} and {y!r}"
        if inv.setdefault(y, x) != x:
            return f"{where}: identifiers {inv[y]!r} and {x!r} both become {y!r}"
        return None

    def walk(a, b, stack, ca=None, cb=None):
        if a.get_type() != b.get_type():
            return f"scope kinds differ: {a.get_type()} / {b.get_type()}"
        is_class = str(a.get_type()).endswith("class")
        is_top = a.get_name() == "top" and not stack
        if is_class:
            ca, cb = a.get_name(), b.get_name()
        ra, rb = _sym_rows(a, ca), _sym_rows(b, cb)
        if len(ra) != len(rb):
            return (f"scope {a.get_name()!r}: {len(ra)} symbols before, {len(rb)} after "
                    f"({[r[0] for r in ra]} / {[r[0] for r in rb]})")
        local, linv = {}, {}
        where = f"scope {a.get_name()!r}"
        for (na, fa), (nb, fb) in zip(ra, rb):
            if fa != fb:
                return f"{where}: symbol {na!r}->{nb!r} changes its binding flags"
            d = bind(local, linv, na, nb, where)
            if d:
                return d
            is_local, is_global, _p, is_free = fa[0], fa[1], fa[2], fa[3]
            if is_top or is_global:
                d = bind(gmap, ginv, na, nb, "global names")
                if d:
                    return d
            elif is_free:
                for outer in reversed(stack):
                    if na in outer:
                        if outer[na] != nb:
                            return f"{where}: free variable {na!r} becomes {nb!r} but its binding becomes {outer[na]!r}"
                        break
        ka, kb = a.get_children(), b.get_children()
        if len(ka) != len(kb):
            return f"{where}: number of nested scopes differs"
        for x, y in zip(ka, kb):
            # the name of a nested scope is a symbol of this scope
            nx, ny = _unmangle(x.get_name(), ca), _unmangle(y.get_name(), cb)
            if nx in local and local[nx] != ny and x.get_type() == y.get_type() and str(x.get_type()).endswith(("function", "class")) \
                    and nx not in ("lambda", "listcomp", "setcomp", "dictcomp", "genexpr"):
                return f"{where}: nested scope {nx!r} becomes {ny!r} but the symbol becomes {local[nx]!r}"
            # class scopes are invisible to the scopes nested in them
            d = walk(x, y, stack if is_class else stack + [local], ca, cb)
            if d:
                return d
        return None

    return walk(ta, tb, [])


ORACLE_SELFTEST = [
    # (before, after, must be accepted)
    ("x = 1\ny = 2\nprint(x, y)\n", "X = 1\nY = 2\nprint(X, Y)\n", True),
    ("x = 1\ny = 2\nprint(x, y)\n", "x = 1\nx = 2\nprint(x, x)\n", False),                     # two names merged
    ("def f():\n    a = 1\n    def g():\n        return a\n    return g()\n",
     "def f():\n    b = 1\n    def g():\n        return a\n    return g()\n", False),           # reference left behind
    ("def f():\n    a = 1\n    def g():\n        return a\n    return g()\n",
     "def _f():\n    b = 1\n    def g():\n        return b\n    return g()\n", True),
    ("b = 1\ndef f():\n    a = 2\n    def g():\n        return b\n    return g() + a\n",
     "b = 1\ndef f():\n    b = 2\n    def g():\n        return b\n    return g() + b\n", False),   # global captured
    ("class K:\n    def m(self):\n        return 1\nclass L:\n    def m(self):\n        return 2\n",
     "class K:\n    def m(self):\n        return 1\nclass L:\n    def n(self):\n        return 2\n", True),
    ("x = 1\ndef f():\n    global x\n    x = 2\n", "X = 1\ndef f():\n    global x\n    x = 2\n", False),
    ("def f(p):\n    return p\n", "def f(p):\n    return q\n", False),
]


def oracle_selftest():
    for before, after, ok in ORACLE_SELFTEST:
        d = binding_structure_diff(before, after)
        if (d is None) != ok:
            raise RuntimeError(f"binding-structure oracle self-test failed: {before!r} / {after!r}: {d!r}")


def oracle(mods, rule: str, src: str, structure: bool, execute: bool = True):
    """run one renaming rule on a closed program; None or a failure description
    (execute=False: generated modules are not closed programs and may not terminate; only the binding
    structure is compared)"""
    fixes = mods["fixes"]
    mods["core"].parse.cache_clear()
    try:
        with common.quiet():
            if rule == "align":
                new = fixes.align_variable_names_with_convention(src, preserve=frozenset())
            elif rule == "undefine":
                new = fixes.undefine_unused_variables(src, preserve=frozenset())
            elif rule == "dup":
                new = fixes.remove_duplicate_functions(src, preserve=frozenset())
            elif rule == "format_code":
                new = mods["main"].format_code(src)
            else:
                raise KeyError(rule)
    except Exception as e:  # noqa
        return dict(problem=f"{rule} raised {type(e).__name__}: {e}", output=None)
    if new == src:
        return None
    if execute:
        a, b = run_program(src), run_program(new)
        if a != b:
            return dict(problem=f"behaviour differs: {a!r} -> {b!r}", output=new)
    if structure:
        d = binding_structure_diff(src, new)
        if d:
            return dict(problem="binding structure differs: " + d, output=new)
    return None


def sweep_cases():
    for tname, tpl in TEMPLATES.items():
        for a, b in NAME_PAIRS:
            yield tname, a, b, tpl.format(A=a, B=b)


# ---------------------------------------------------------------------------------------------
# part 4: generated names (RenameModel.v part C)

IF_TEMPLATE = """import random
def do_stuff(v):
    return v
{pre}
x = 11
y = 12
z = random.random()
if z > 2:
    do_stuff(x)
    do_stuff(y - x ** 2)
    print(do_stuff(x) - do_stuff(y ** y))
else:
    do_stuff(y)
    do_stuff(x - y ** 2)
    print(do_stuff(y) - do_stuff(x ** x))
print({post})
"""
CONST_A = "(1, 2, 3, 4, 5, 6, 7, 8, 9, 10)"
CONST_B = "(21, 22, 23, 24, 25, 26, 27, 28, 29)"


GENERATED_CRASHES = []


def generated_name_cases(mods, rnd, tier):
    """[(kind, coq term of the model's answer check, description, source)]: the names the real rules
    generate, next to the module's names in use"""
    fixes, abstractions, core = mods["fixes"], mods["abstractions"], mods["core"]
    cases = []
    # _unused_loop_variable_names: direct call
    letters = "abcdefghijklmnopqrstuvwxyz"
    all1 = list(letters)
    all2 = [a + b for a in letters for b in letters]
    used_sets = [[], ["a"], all1, all1 + all2[:18], all1 + all2[:19], ["b", "aa", "zz", "x_1", "i"]]
    for _ in range(6 if tier == "quick" else 40):
        used_sets.append(rnd.sample(all1 + all2[:60], rnd.randint(1, 50)))
    import keyword
    for used in used_sets:
        used[:] = [u for u in used if not keyword.iskeyword(u)]
        src = "\n".join(f"{u} = 0" for u in used) + "\n" if used else "pass\n"
        try:
            with common.quiet():
                got = list(itertools.islice(fixes._unused_loop_variable_names(core.parse(src)), 30))
        except Exception as e:  # noqa
            GENERATED_CRASHES.append((src, f"_unused_loop_variable_names raised {type(e).__name__}: {e}"))
            continue
        cases.append(("loop", used, got, src))
    # var_n through simplify_if_control_flow
    var_sets = [[], ["var_1"], ["var_2"], ["var_1", "var_2"], ["var_1", "var_3"], ["var_2", "var_3", "var_4"],
                ["var_10"], ["Var_1"], ["var_1", "var_2", "var_3", "var_4", "var_5"]]
    for used in var_sets:
        pre = "\n".join(f"{u} = 100" for u in used)
        src = IF_TEMPLATE.format(pre=pre, post=", ".join(used) or "0")
        core.parse.cache_clear()
        try:
            with common.quiet():
                new = abstractions.simplify_if_control_flow(src)
        except Exception as e:  # noqa
            GENERATED_CRASHES.append((src, f"simplify_if_control_flow raised {type(e).__name__}: {e}"))
            continue
        got = list(dict.fromkeys(re.findall(r"^\s+(var_\d+) = [xy]$", new, flags=re.M)))
        cases.append(("var", used, got, src))
    # {value}_{target} through implicit_dict_keys_values_items
    for used in ([], ["d_k"], ["D_k"], ["d_K"], ["dk"], ["d__k"]):
        for form in ("comp", "for"):
            pre = "\n".join(f"{u} = 1000" for u in used)
            if form == "comp":
                src = f"d = {{1: 10, 2: 20}}\n{pre}\nprint([d[k] for k in d.keys()], {', '.join(used) or 0})\n"
            else:
                src = f"d = {{1: 10, 2: 20}}\n{pre}\nfor k in d.keys():\n    print(d[k])\nprint({', '.join(used) or 0})\n"
            core.parse.cache_clear()
            try:
                with common.quiet():
                    new = fixes.implicit_dict_keys_values_items(src)
            except Exception as e:  # noqa
                GENERATED_CRASHES.append((src, f"implicit_dict_keys_values_items raised {type(e).__name__}: {e}"))
                continue
            got = sorted(set(re.findall(r"\b(d_+k)\b", new)) - set(used)) if ".items()" in new else []
            cases.append(("keys", used + ["d", "k", "print"], got, src))
    # overused constants
    oc = "pyrefact_overused_constant_"
    oc_sets = [[], [oc + "0"], [oc + "1"], [oc + "0", oc + "1"], [oc + "0", oc + "2"], [(oc + "1").upper()],
               [oc + str(i) for i in range(11)], [oc + str(i) for i in range(10)], [oc + "1", oc + "2", oc + "3"]]
    for used in oc_sets:
        pre = "\n".join(f"{u} = 7" for u in used)
        fns = "\n".join(f"def f{i}(): return {CONST_A}" for i in range(5)) + "\n" + \
              "\n".join(f"def g{i}(): return {CONST_B}" for i in range(5))
        src = f"{pre}\n{fns}\nprint(f0()[0], g0()[0], {', '.join(used) or 0})\n"
        core.parse.cache_clear()
        try:
            with common.quiet():
                new = abstractions.overused_constant(src, root_is_static=True)
        except Exception as e:  # noqa
            GENERATED_CRASHES.append((src, f"overused_constant raised {type(e).__name__}: {e}"))
            continue
        got = [m.lower() for m in re.findall(r"^(\w+) = \(", new, flags=re.M)]
        cases.append(("overused", used, got, src))
    return cases


import re  # noqa: E402


def generated_case_coq(kind, used, got) -> str:
    g = glist(got, gident)
    if kind == "loop":
        return f"(list_eqb (firstn 30 (loop_names {glist(used, gident)})) {g})"
    if kind == "var":
        return f"(list_eqb (var_names {glist(used, gident)} {len(got)}) {g} && Nat.eqb {len(got)} 2)"
    if kind == "keys":
        want = f"(match keys_items_decision {glist(used, gident)} {common.gtext('d')} {common.gtext('k')} with Some n => [n] | None => [] end)"
        return f"(list_eqb {want} {g})"
    # overused: the blacklist holds the lower and upper case variants of every name
    bl = sorted({u.lower() for u in used} | {u.upper() for u in used} | set(used))
    return f"(list_eqb (overused_names {glist(bl, gident)} 2) {g})"


# ---------------------------------------------------------------------------------------------
# known findings (signatures keyed by the `sig=` field of KNOWN_FINDINGS.txt)

def _sig_non_ascii_columns(case) -> bool:
    """the program contains a non-ascii character (ast columns are utf-8 bytes, used as characters)"""
    return not case["source"].isascii()


def _sig_underscore_is_read(case) -> bool:
    """the program reads a variable called `_` (which the tool treats as 'never used' by convention)"""
    return any((isinstance(n, ast.Name) and n.id == "_" and isinstance(n.ctx, ast.Load))
               or (isinstance(n, ast.Attribute) and n.attr == "_")
               for n in ast.walk(ast.parse(case["source"])))


SIGS = {"non_ascii_columns": _sig_non_ascii_columns, "underscore_is_read": _sig_underscore_is_read}
# call sites per rule: every rule rewrites through processing / _fix_variable_names, which call
# core.get_charnos; the rule itself is the second site
SITES_OF_RULE = {"align": ("core.get_charnos", "fixes.align_variable_names_with_convention"),
                 "undefine": ("core.get_charnos", "fixes.undefine_unused_variables"),
                 "dup": ("core.get_charnos", "fixes.remove_duplicate_functions"),
                 "format_code": ("core.get_charnos", "fixes.undefine_unused_variables")}


def match_finding(findings, rule, case):
    for f in findings:
        if f.kind != "finding":
            continue
        pred = SIGS.get(f.fields.get("sig", ""))
        if pred is None or f.fields.get("site") not in SITES_OF_RULE.get(rule, ()):
            continue
        try:
            if pred(case):
                return f
        except Exception:  # noqa
            continue
    return None


EXTRA_RULES = {
    "keys": lambda mods, s: mods["fixes"].implicit_dict_keys_values_items(s),
    "if_flow": lambda mods, s: mods["abstractions"].simplify_if_control_flow(s),
    "overused": lambda mods, s: mods["abstractions"].overused_constant(s, root_is_static=True),
}


def oracle_any(mods, rule, src, execute=True):
    if rule in EXTRA_RULES:
        mods["core"].parse.cache_clear()
        try:
            with common.quiet():
                new = EXTRA_RULES[rule](mods, src)
        except Exception as e:  # noqa
            return dict(problem=f"{rule} raised {type(e).__name__}: {e}", output=None)
        if new == src:
            return None
        a, b = run_program(src), run_program(new)
        return None if a == b else dict(problem=f"behaviour differs: {a!r} -> {b!r}", output=new)
    if not execute:
        mods["core"].parse.cache_clear()
        try:
            with common.quiet():
                mods["fixes"].align_variable_names_with_convention(src, preserve=frozenset())
        except Exception as e:  # noqa
            return dict(problem=f"{rule} raised {type(e).__name__}: {e}", output=None)
        return None
    return oracle(mods, rule, src, structure=(rule == "align"))


_FORMAT_CODE_BUDGET = [12]


def naming_property_fails(mods, tag: int, s: str):
    """the property's own oracle on the real string functions + one end-to-end program"""
    style = mods["style"]
    if tag < 4:
        return None
    r = impl_naming(style, tag, s)
    if isinstance(r, tuple):
        return dict(function=TAGS[tag], input=s, problem=f"raised {r[1]}")
    if r is None:
        return None if s == "" else dict(function=TAGS[tag], input=s, problem="ValueError for a non-empty name")
    if not (r.isidentifier() or r == s):
        return dict(function=TAGS[tag], input=s, output=r, problem="result is neither an identifier nor the name itself")
    if tag <= 7:
        r2 = impl_naming(style, tag, r)
        if r2 != r:
            return dict(function=TAGS[tag], input=s, output=r, again=r2, problem="rename_variable is not idempotent on its output")
    if s.isidentifier() and not __import__("keyword").iskeyword(s) and s.isascii():
        for tpl in ("func_assign_only", "mod_assign_only", "class_in_func", "func_name"):
            src = TEMPLATES[tpl].format(A=s, B="other_name")
            rules = ["align"]
            if tpl == "func_assign_only" and _FORMAT_CODE_BUDGET[0] > 0:     # the whole pipeline is slow
                _FORMAT_CODE_BUDGET[0] -= 1
                rules.append("format_code")
            for rule in rules:
                f = oracle(mods, rule, src, structure=False) if rule == "format_code" else oracle(mods, rule, src, True)
                if f and rule == "format_code" and "raised" not in f["problem"]:
                    continue     # other stages of format_code are not the subject here; crashes are
                if f:
                    return dict(function=TAGS[tag], input=s, rule=rule, source=src, **f)
    return None


# ---------------------------------------------------------------------------------------------


EXTRA_ALIGN_PROGRAMS = [
    # the examples of the repository's own script for this rule
    "some_variable = collections.namedtuple(\"some_variable\", [\"field\", \"foo\", \"bar\"])\nvariable = TypeVar(\"variable\")\n"
    "T = Mapping[Tuple[int, int], Collection[str]]\nsomething_else = 1\n\n\ndef foo() -> Tuple[some_variable, T]:\n    _ax = 4\n"
    "    print(_ax)\n    R = 3\n    print(R)\n    s = 2\n    print(s)\n    return some_variable(1, 2, 3)\n\n"
    "moose = namedtuple(\"moose\", [\"field\", \"foo\", \"bar\"])\n\nax = 22\nprint(ax)\n\n\ndef main() -> None:\n"
    "    bar: some_variable = foo()\n    print(bar)\n    return 0\n",
    "def foo():\n    with_ = 1\n    name_ = 1\n    __def = 3\n",
    "import unittest\n\nclass TestFoo(unittest.TestCase):\n    def setUp(self):\n        pass\n\nclass Foo(object):\n"
    "    def setUp(self):\n        pass\n\nclass Spam:\n    def setUp(self):\n        pass\n",
    "def func():\n    list_ = [1, 2, 3]\n    a = list_ + [4, 5, 6]\n\n    Type = 4\n    Match = 5\n    Batch = 6\n    def__ = 2\n\n"
    "    foo_ = 1\n    bar_ = 2\n",
    "def _foo() -> int:\n    return 1\ndef foo() -> int:\n    return 2\n",
    # members of classes: same identifier in several classes / as a function / as a plain name
    "class A:\n    def myMethod(self):\n        return 1\nclass B(A):\n    def myMethod(self):\n        return 2\n",
    "class A:\n    def myMethod(self):\n        return 1\n    myAttr = 2\nclass B:\n    def myMethod(self):\n        return 2\n    myAttr = 3\n",
    "def myThing():\n    return 1\nclass A:\n    def myThing(self):\n        return 2\n",
    "def myThing():\n    return 1\nclass A(object):\n    def myThing(self):\n        return 2\nprint(myThing())\n",
    "class A(object):\n    class myInner:\n        pass\n    def myInner2(self):\n        return myInner2\n",
    "class myClass:\n    pass\nclass _otherClass(myClass):\n    def __init__(self):\n        self.helperValue = 1\n    helperValue = 0\n",
    "def f(**kw):\n    return g(**kw)\nmyVar = f(a=1)\n",
]


def deterministic_align_cases():
    """seed-independent part of the rule correspondence: the sweep templates with three name pairs and the
    programs above, each without and with the interesting names preserved"""
    out = []
    for tname, tpl in TEMPLATES.items():
        for a, b in (("myVar", "my_var"), ("MyVar", "myVar"), ("sorted", "srt")):
            src = tpl.format(A=a, B=b)
            try:
                ast.parse(src)
            except SyntaxError:
                continue
            out.append((src, frozenset()))
            out.append((src, frozenset([a])))
    for src in EXTRA_ALIGN_PROGRAMS:
        names = sorted({n.name for n in ast.walk(ast.parse(src)) if isinstance(n, DEFS)})
        out.append((src, frozenset()))
        out.append((src, frozenset(names)))
        if names:
            out.append((src, frozenset(names[:1])))
    return out


# ---------------------------------------------------------------------------------------------
# round 5: binder kinds (harness/c19_binders.py)

def binder_cases(tier: str):
    """binder kind x role x scope shape x kind of the renamed binding; the quick tier keeps every kind, role
    and shape for an assigned variable and the function / module shapes for a renamed def / class"""
    for label, src in binders.binder_family():
        if tier == "quick" and label["flavour"] != "assign" and label["shape"] not in ("function", "module"):
            continue
        yield label, src


def binder_align_cases():
    """the part of the family that also goes through the Gallina model of the rule, node by node"""
    out = []
    for label, src in binders.binder_family(["assign"]):
        if (label["shape"], label["role"]) in (("function", "same"), ("function", "new_snake"), ("class", "same"),
                                               ("module", "new_upper")):
            out.append((src, frozenset()))
    return out


# generated names x binder kinds: the identifier under test is the name the rule would generate, bound or
# mentioned in every way next to the code that triggers the rule (one function, so the name is visible there)
GENERATED_TRIGGERS = {     # rule, generated name, set-up, the code that the rule rewrites
    "comprehension": ("keys", "d_k", "d = {1: 10, 2: 20}", "print([d[k] for k in d.keys()])"),
    "for": ("keys", "d_k", "d = {1: 10, 2: 20}", "for k in d.keys():\n    print(d[k])"),
}


# the observer reads the variable without writing its identifier (a written identifier stops the rule, rightly)
GENERATED_TAIL = "print(_show0(locals().get('d' + '_k', 'unbound')))"


def generated_binder_cases():
    for form, (rule, name, setup, use) in GENERATED_TRIGGERS.items():
        for kname, place, lines in binders.KINDS:
            # the kind's own print of the identifier would be a second, plain mention: observe through GENERATED_TAIL
            snippet = re.sub(r"(?m)^(\s*)print\(.*\b%s\b.*\)$" % name, r"\1pass", lines.format(X=name))
            for order in ("before", "after"):      # the binder before / after the rewritten code
                body = "\n".join(([setup, snippet, use] if order == "before" else [setup, use, snippet]) + [GENERATED_TAIL])
                src = binders.PRELUDE + "def _f0():\n" + binders._ind(body) + "\nf0()\n"
                try:
                    compile(src, "<generated-binder>", "exec")
                except SyntaxError:
                    continue
                # the observer is dynamic: it is only meaningful for an identifier that IS a variable of _f0 before
                # the rewrite (an attribute / keyword / comprehension-scoped mention has nothing to clobber)
                _f0 = [t for t in symtable.symtable(src, "<generated-binder>", "exec").get_children()
                      if t.get_name() == "_f0"][0]
                if name not in _f0.get_identifiers() or not (_f0.lookup(name).is_local() or _f0.lookup(name).is_global()
                                                            and _f0.lookup(name).is_declared_global()):
                    continue
                yield dict(family="generated-name x binder-kinds", rule=rule, form=form, kind=kname, place=place,
                           order=order, names=[name, name]), src


def mention_programs(progs):
    """every program of the deterministic families + the generated modules of this run"""
    seen = set()
    for _, _, _, src in sweep_cases():
        if src not in seen:
            seen.add(src)
            yield src
    for _, src in binders.binder_family():
        if src not in seen:
            seen.add(src)
            yield src
    for src in list(EXTRA_ALIGN_PROGRAMS) + list(progs):
        if src not in seen:
            seen.add(src)
            yield src


def random_identifier(rnd: random.Random, non_ascii: bool) -> str:
    alpha = "abcxyzABCXYZ019__"
    extra = "éüλ名ßÉ"
    n = rnd.randint(1, 14)
    s = "".join(rnd.choice(alpha + (extra if non_ascii else "")) for _ in range(n))
    return s


def check(run: common.Run):
    wd = common.workdir(PID)
    ps = common.proof_step(run, PID, wd)
    mods = common.import_impl()
    style = mods["style"]
    rnd = random.Random(run.seed)
    hist = Counter()
    files, meta = [], []          # meta[i] = (kind, payload) to decode the bad indices of files[i]
    distinct = set()
    evaluations = 0

    # ---- A. string functions: exhaustive blocks
    blocks = naming_blocks(run.tier)
    n_exh = 0
    for k, b in enumerate(blocks):
        p, inputs, impl = write_naming_block(wd, k, style, b)
        files.append(p)
        meta.append(("naming-block", (inputs, impl)))
        n_exh += len(inputs)
        evaluations += len(inputs) * len(TAGS)
        for tag in (4, 8):
            for s, r in zip(inputs, impl[tag]):
                if isinstance(r, str) and r != s:
                    distinct.add(("naming", r))
        for tag in range(len(TAGS)):
            for r in impl[tag]:
                hist["naming:" + ("ValueError" if r is None else "exception" if isinstance(r, tuple) else "ok")] += 1
    # ---- A'. random identifiers (ascii) and the non-ascii stream, explicit cases
    n_rand = 1500 if run.tier == "quick" else 20000
    rcases = []
    for i in range(n_rand):
        s = random_identifier(rnd, non_ascii=(i % 3 == 0))
        tag = rnd.randrange(len(TAGS))
        r = impl_naming(style, tag, s)
        rcases.append((tag, s, r))
        hist["naming-random:" + ("non-ascii" if not s.isascii() else "ascii")] += 1
        if isinstance(r, str) and r != s and tag >= 4:
            distinct.add(("naming", r))
    for k in range(0, len(rcases), 500):
        shard = rcases[k:k + 500]
        body = ";\n ".join(
            f"({tag}%nat, {common.gtext(s)}, "
            f"{'None' if (r is None or isinstance(r, tuple)) else '(Some ' + common.gtext(r) + ')'})"
            for tag, s, r in shard)
        p = wd / f"naming_rand_{k // 500}.v"
        p.write_text(NAMING_HDR + f"Definition cases : list (nat * text * option text) := [\n {body}\n].\n"
                     "Eval vm_compute in (bad_idx case_ok cases).\n")
        files.append(p)
        meta.append(("naming-random", shard))
    evaluations += len(rcases)
    unexpected_exc = [(TAGS[t], s, r[1]) for t, s, r in rcases if isinstance(r, tuple)]

    # ---- B. the renaming rule and _get_uses_of on generated programs
    n_prog = 240 if run.tier == "quick" else 3000
    progs, ghist = gen_programs(rnd, n_prog)
    hist.update({"program:" + k: v for k, v in ghist.items()})
    acases, crashes = [], []
    det = deterministic_align_cases() + binder_align_cases()
    hist["align:deterministic-programs"] = len(det)
    jobs = [(src, pres) for src, pres in det]
    for i, src in enumerate(progs):
        if i % 3 == 2:      # preserve: one to three of the identifiers that name something in the module
            idents = sorted({n.id for n in ast.walk(ast.parse(src)) if isinstance(n, ast.Name)}
                            | {n.name for n in ast.walk(ast.parse(src)) if isinstance(n, DEFS)}) or ["x"]
            preserve = frozenset(rnd.sample(idents, min(len(idents), rnd.randint(1, 3))))
        else:
            preserve = frozenset()
        jobs.append((src, preserve))
    for src, preserve in jobs:
        mods["core"].parse.cache_clear()
        try:
            m, want, gok = impl_align(mods, src, preserve)
        except Exception as e:  # noqa
            crashes.append((src, f"{type(e).__name__}: {e}"))
            continue
        acases.append((src, preserve, m, want, gok))
        if want:
            distinct.add(("align", src))
        hist["align:renamed-nodes"] += len(want)
    SH = 20
    for k in range(0, len(acases), SH):
        shard = acases[k:k + SH]
        it = Interner()
        with interning(it):
            body = ";\n ".join(align_case_coq(m, pres, want) for (_, pres, m, want, _) in shard)
        p = wd / f"align_{k // SH}.v"
        p.write_text(RENAME_HDR + it.header() +
                     f"Definition cases : list (list ident * modl * list (nat * ident)) := [\n {body}\n].\n"
                     "Eval vm_compute in (bad_idx align_case_ok cases).\n")
        files.append(p)
        meta.append(("align", shard))
    evaluations += len(acases)
    n_uses = 0
    uprogs = progs[: (60 if run.tier == "quick" else 600)]
    UB = 10
    for k in range(0, len(uprogs), UB):
        it = Interner()
        defs_txt, case_txt, shard = [], [], []
        with interning(it):
            for j, src in enumerate(uprogs[k:k + UB]):
                mods["core"].parse.cache_clear()
                m, out = impl_uses(mods, src, limit=25)
                defs_txt.append(f"Definition m{j} : modl := {modl_coq(m)}.\n")
                for sid, nid, got in out:
                    if isinstance(got, str):
                        crashes.append((src, f"_get_uses_of: {got}"))
                        continue
                    case_txt.append(f"({sid}%nat, {nid}%nat, m{j}, {glist(got)}%nat)")
                    shard.append((src, sid, nid, got))
                    if got:
                        distinct.add(("uses", src, sid, nid))
        p = wd / f"uses_{k // UB}.v"
        p.write_text(RENAME_HDR + it.header() + "".join(defs_txt) +
                     "Definition cases : list (nat * nat * modl * list nat) := [\n " + ";\n ".join(case_txt) +
                     "\n].\nEval vm_compute in (bad_idx uses_case_ok cases).\n")
        files.append(p)
        meta.append(("uses", shard))
        n_uses += len(shard)
    evaluations += n_uses

    # ---- C. generated names
    del GENERATED_CRASHES[:]
    gcases = generated_name_cases(mods, rnd, run.tier)
    it = Interner()
    with interning(it):
        body = ";\n ".join(generated_case_coq(k, u, g) for k, u, g, _ in gcases)
    p = wd / "generated.v"
    p.write_text(RENAME_HDR + it.header() + f"Definition cases : list bool := [\n {body}\n].\n"
                 "Eval vm_compute in (bad_idx (fun b => b) cases).\n")
    files.append(p)
    meta.append(("generated", gcases))
    evaluations += len(gcases)
    for k, u, g, _ in gcases:
        hist["generated:" + k] += 1
        if g:
            distinct.add(("generated", k, tuple(u)))

    # ---- C'. fixes._iter_identifier_mentions against the enumeration derived from the ASDL
    mention_bad, n_mention = [], 0
    place_hist = Counter()
    for src in mention_programs(progs):
        try:
            root = ast.parse(src)
        except SyntaxError:
            continue
        n_mention += 1
        for node, field, _ in binders.asdl_mentions(root):
            place_hist[type(node).__name__ + "." + field] += 1
        try:
            d = binders.mentions_diff(mods["fixes"], root)
        except Exception as e:  # noqa
            d = dict(problem=f"_iter_identifier_mentions raised {type(e).__name__}: {e}")
        if d:
            mention_bad.append(dict(source=src, **d))
    evaluations += n_mention
    hist.update({"mention-place:" + k: v for k, v in place_hist.items()})
    missing_places = sorted(set(c.__name__ + "." + f for c, fs in binders.IDENT_FIELDS.items() for f, _ in fs)
                            - set(place_hist))

    # ---- run the model
    results = common.run_case_files(files)
    disagreements = []
    for p, (kind, payload) in zip(files, meta):
        rc, out = results[p]
        if kind == "naming-block":
            lists = re.findall(r"=\s*(\[[^\]]*\]|nil)\s*:\s*list N", out)
            if rc != 0 or len(lists) != len(TAGS):
                disagreements.append(("eval-failed", p.name, out[-1500:]))
                continue
            inputs, impl = payload
            for tag, l in enumerate(lists):
                for i in [int(x) for x in re.findall(r"\d+", l)]:
                    if i < len(inputs):
                        disagreements.append(("naming", dict(function=TAGS[tag], input=inputs[i], impl=impl[tag][i])))
                    else:
                        disagreements.append(("eval-failed", p.name, "length mismatch"))
            continue
        idx = common.parse_nat_list(out) if rc == 0 else None
        if idx is None:
            disagreements.append(("eval-failed", p.name, out[-1500:]))
            continue
        for i in idx:
            c = payload[i]
            if kind == "naming-random":
                disagreements.append(("naming", dict(function=TAGS[c[0]], input=c[1], impl=c[2])))
            elif kind == "align":
                disagreements.append(("align", dict(source=c[0], preserve=sorted(c[1]), impl=c[3])))
            elif kind == "uses":
                disagreements.append(("uses", dict(source=c[0], scope=c[1], node=c[2], impl=c[3])))
            else:
                disagreements.append(("generated", dict(kind=c[0], used=c[1], impl=c[2], source=c[3])))
    for src, pres, m, want, gok in acases:
        if not gok:
            disagreements.append(("align", dict(source=src, problem="transactions are not the groups by new name")))
    for m in mention_bad[:8]:
        disagreements.append(("mentions", m))
    if missing_places:
        disagreements.append(("mentions", dict(problem="identifier fields of the grammar that no family program contains "
                                                        "(new interpreter?): " + ", ".join(missing_places))))

    # ---- D. deterministic sweep of the property oracle + fixed witnesses + known findings
    oracle_selftest()
    kf = common.load_findings(PID)
    failures, known_hits = [], {}
    n_sweep = 0
    for tname, a, b, src in sweep_cases():
        for rule in ("align", "undefine", "dup"):
            n_sweep += 1
            f = oracle(mods, rule, src, structure=(rule == "align"))
            if f:
                case = dict(rule=rule, template=tname, names=[a, b], source=src, **f)
                hit = match_finding(kf, rule, case)
                if hit:
                    known_hits.setdefault(hit.id, []).append(case)
                else:
                    failures.append(case)
    n_binder = 0
    for label, src in binder_cases(run.tier):
        n_sweep += 1
        n_binder += 1
        f = oracle(mods, "align", src, structure=True)
        if f:
            case = dict(rule="align", template="binder-kinds:" + label["kind"], names=label["names"], source=src,
                        label=label, **f)
            hit = match_finding(kf, "align", case)
            if hit:
                known_hits.setdefault(hit.id, []).append(case)
            else:
                failures.append(case)
        elif label["kind"].startswith("match_star") or label["place"].startswith(("MatchClass", "TypeVar")):
            distinct.add(("binder", label["kind"], label["role"], label["shape"], label["flavour"]))
    hist["sweep:binder-kinds"] = n_binder
    n_gbinder = 0
    for label, src in generated_binder_cases():
        n_sweep += 1
        n_gbinder += 1
        f = oracle_any(mods, label["rule"], src)
        if f:
            failures.append(dict(rule=label["rule"], template="generated-name x binder-kinds:" + label["kind"],
                                 names=label["names"], source=src, label=label, **f))
    hist["sweep:generated-binder-kinds"] = n_gbinder
    hist["sweep:programs"] = n_sweep
    corpus = json.loads((common.VERIF / "corpus" / "c19" / "fixed.json").read_text())
    regressions = []
    for w in corpus:
        if w["kind"] == "naming":
            f = naming_property_fails(mods, w["tag"], w["input"])
        else:
            f = oracle_any(mods, w["rule"], w["source"], execute=w.get("exec", True))
            if f and w["rule"] == "format_code" and "raised" not in f["problem"]:
                f = None
        if f:
            regressions.append({"fixed_id": w["id"], "what": w["what"],
                                **{k: v for k, v in w.items() if k in ("rule", "source", "input")}, **f})
    for f in kf:
        if f.kind == "finding":
            hits = known_hits.get(f.id, [])
            if hits:
                h = hits[0]
                run.known_finding(f.id, f"{f.text} [{len(hits)} sweep programs, e.g. {h['rule']} on template "
                                        f"{h['template']} with {h['names'][0]!r}: {h['problem']}]")
            else:
                common.log(f"note: known finding {f.id} no longer reproduces")

    # ---- failing-input search (only when something above no longer agrees)
    found = []
    if disagreements or (ps.get("props") and not ps["props"]["ok"]) or not ps.get("build_ok", True):
        seen = set()
        for d in disagreements:
            if d[0] == "naming":
                key = (d[1]["function"], d[1]["input"])
                if key in seen or len(seen) >= 40:
                    continue
                seen.add(key)
                f = naming_property_fails(mods, TAGS.index(d[1]["function"]), d[1]["input"])
                if f:
                    found.append({"kind": "property-oracle", "site": "style." + d[1]["function"], **f})
            elif d[0] in ("align", "uses", "mentions") and "source" in d[1]:
                f = oracle(mods, "align", d[1]["source"], structure=True, execute=False)
                if f:
                    found.append({"kind": "property-oracle", "site": "fixes.align_variable_names_with_convention",
                                  "source": d[1]["source"], **f})
            elif d[0] == "generated":
                rule = {"var": "if_flow", "keys": "keys", "overused": "overused"}.get(d[1]["kind"])
                if rule:
                    f = oracle_any(mods, rule, d[1]["source"])
                    if f:
                        found.append({"kind": "property-oracle", "site": rule, "source": d[1]["source"], **f})
            if len(found) >= 3:
                break
        if not found:
            # seeded search: the sweep templates with random adversarial identifier pairs
            srnd = random.Random(run.seed + 1)
            pool = [v for b in BASES for v in variants(b)] + [x for x in FIXED_IDS if x.isidentifier()]
            for _ in range(400 if run.tier == "quick" else 4000):
                a, b = srnd.sample(pool, 2)
                tname = srnd.choice(sorted(TEMPLATES))
                src = TEMPLATES[tname].format(A=a, B=b)
                try:
                    compile(src, "<p>", "exec")
                except SyntaxError:
                    continue
                for rule in ("align", "undefine", "dup"):
                    f = oracle(mods, rule, src, structure=(rule == "align"))
                    if f and not match_finding(kf, rule, dict(source=src)):
                        found.append({"kind": "property-oracle", "site": rule, "template": tname, "names": [a, b],
                                      "source": src, **f})
                        break
                if found:
                    break

    # ---- verdicts
    for c in failures[:5]:
        run.violation({"kind": "property-oracle", "site": c["rule"],
                       "explanation": "a renaming rule changed the behaviour or the binding structure of a closed "
                                      "program and no listed finding matches", **c}, True)
    for r in regressions[:5]:
        run.violation({"kind": "fixed-witness-regressed",
                       "explanation": "the witness of a repaired defect fails again", **r}, True)
    for src, err in GENERATED_CRASHES[:3]:
        run.violation(dict(kind="property-oracle", site="generated-name rule", source=src, problem=err,
                           explanation="a rule that generates names crashed on a valid module"), True)
    for src, err in crashes[:3]:
        run.violation(dict(kind="property-oracle", site="fixes.align_variable_names_with_convention", source=src,
                           problem="the rule raised " + err, explanation="renaming rule crashed on a valid module"), True)
    for fn, s, cls in unexpected_exc[:3]:
        run.violation(dict(kind="property-oracle", site="style." + fn, input=s, problem=f"raised {cls}",
                           explanation="a naming function raised on a name"), True)
    for f in found[:3]:
        run.violation({"explanation": "found by the failing-input search after a proof/correspondence broke", **f}, True)
    if not found and not failures and not regressions:
        for d in disagreements[:5]:
            run.violation(dict(kind="correspondence", kernel="K9", part=d[0], detail=d[1:],
                               explanation="model and implementation disagree; the property oracle found no failing "
                                           "program (executed + symtable-compared the sweep family and a seeded search)"),
                          False)
    if ps.get("props") and not ps["props"]["ok"]:
        pr = ps["props"]
        run.violation(dict(kind="proof", file=pr["file"], broken=pr.get("broken"), log=pr["log"],
                           explanation="a property theorem no longer checks (regenerated BUILTIN_FUNCTIONS / "
                                       "PYTHON_KEYWORDS tables or changed models)"), bool(found))

    run.coverage.update(
        evaluations=evaluations + n_sweep,
        distinct_nontrivial=len(distinct),
        rule=("string functions: ALL strings of length <= 6 over {a,b,A,B,1,_} (exhaustive, 10 observed functions: "
              "_list_words, _make_snakecase x2, _make_camelcase, rename_variable x4, rename_class x2) and all strings "
              f"of length <= {4 if run.tier == 'quick' else 6} over that alphabet + e-acute; seeded random identifiers "
              "(1/3 with non-ascii letters). Rule: generated modules (every binding form, adversarial identifier "
              "variants), one pass of align_variable_names_with_convention compared node by node with the model; "
              "direct _get_uses_of calls for every stored name / def / class and every enclosing scope. Generated "
              "names through the real rules. Non-trivial = the output differs from the input name (string functions, "
              "counted by distinct output), at least one node renamed (programs, by source text), a non-empty use "
              "set (by program, scope, node), a generated name (by kind and names in use)."),
        samples=[blocks[5][1] + "aB1_", rcases[0][1], rcases[1][1], progs[1][:300], progs[2][:300], (gcases[-1][3][:200] if gcases else "")],
        exhaustive=False, exhaustive_strings=n_exh, programs=len(acases), uses_cases=n_uses,
        sweep=dict(programs=n_sweep, templates=len(TEMPLATES), name_pairs=len(NAME_PAIRS),
                   rules=["align_variable_names_with_convention", "undefine_unused_variables",
                          "remove_duplicate_functions"], oracle="exec before/after + symtable bijection",
                   binder_kinds=dict(programs=n_binder, kinds=len(binders.KINDS), shapes=binders.SHAPES,
                                     flavours=[f[0] for f in binders.FLAVOURS],
                                     places=sorted(binders.family_places()),
                                     generated_name_programs=n_gbinder),
                   mention_enumeration=dict(programs=n_mention, disagreements=len(mention_bad),
                                            identifier_fields=sorted(c.__name__ + "." + f for c, fs in
                                                                     binders.IDENT_FIELDS.items() for f, _ in fs)),
                   failures_unmatched=len(failures), failures_known=sum(len(v) for v in known_hits.values())),
        fixed_witnesses=len(corpus), histogram=dict(hist),
        correspondence_disagreements=len(disagreements),
        unmodelled=["parsing.iter_typedefs (type-definition detection, taken as data)",
                    "processing scheduling of the yielded transactions (property C10)",
                    "fixes._fix_variable_names text splice of remove_duplicate_functions",
                    "fixes._iter_unused_names (flow analysis of undefine_unused_variables; oracle sweep only)",
                    "object_oriented static-method extraction names (oracle sweep not extended to them)",
                    "abstractions.hash_node alpha-invariant hash"],
        trusted_base=common.TRUSTED_BASE_COMMON + [
            "harness/c19.py abstract_module: ast -> (Name occurrences, def/class nodes, other identifier mentions)",
            "the injective encodings of NamingRun.v / harness encode() and primitive 63-bit integer literals",
            "identifier mentions: fixes._iter_identifier_mentions is compared with the enumeration of every "
            "identifier-typed field that the ast docstrings (ASDL) of the running interpreter declare "
            "(harness/c19_binders.py; three documented deviations); RenameModel.mentions gets its `others` from the "
            "same enumeration (premise mentions_complete of T19.8)",
            "symtable + exec of CPython 3.12 as the binding-structure / behaviour oracle",
            "atomic application of one transaction per new name (C10 theorems) for the end-to-end reading of T19.5/T19.6"],
    )
    run.assumptions += [
        "Unicode decimal digits other than 0-9 in identifiers are outside NamingModel (\\d is modelled as [0-9])",
        "dynamic access to names (globals()[...], getattr strings, __all__, other modules importing this one) is outside the property",
        "the rule correspondence uses ascii sources; non-ascii sources are exercised by the string functions and the sweep",
        "T19.6 reads 'all mentions or none' per identifier; bindings of the same identifier in different scopes are renamed together or not at all",
    ]


def replay(path: str) -> int:
    data = json.loads(Path(path).read_text())
    mods = common.import_impl()
    keys = ("kind", "explanation", "site", "rule", "source", "input", "function", "problem", "output", "part", "detail")
    print(json.dumps({k: data[k] for k in keys if k in data}, indent=1, ensure_ascii=False))
    if data.get("source") and data.get("kind") in ("property-oracle", "fixed-witness-regressed"):
        rule = data.get("rule") or {"fixes.align_variable_names_with_convention": "align"}.get(data.get("site"), data.get("site"))
        rule = rule if rule in ("align", "undefine", "dup", "format_code") or rule in EXTRA_RULES else "align"
        print("now:", json.dumps(oracle_any(mods, rule, data["source"]), ensure_ascii=False))
    elif data.get("function") and data.get("input") is not None:
        tag = TAGS.index(data["function"])
        print("now: impl =", impl_naming(mods["style"], tag, data["input"]), "; property:",
              naming_property_fails(mods, tag, data["input"]))
    return 0
