"""C16 second half -- has_side_effect / delete_pointless_statements (EffectModel.v)."""


def check(run, mods, wd, rnd):
    run.coverage["effects"] = "not yet built"
