"""C16 second half -- has_side_effect / safe_callable_names / delete_pointless_statements (EffectModel.v).

  1. correspondence core.has_side_effect  vs  EffectModel.hse / hse_s  (exhaustive contexts x sub-terms, random)
  2. correspondence parsing.safe_callable_names + the deletion decision of delete_pointless_statements
     vs EffectModel.safe_callable_names / pointless on generated modules
  3. validation of the reference semantics EffectModel.eval / exec against CPython (logging stubs, every script
     of the unknown truth values / iteration counts)
  4. end-to-end property oracle: statement + observable call, through delete_pointless_statements, executed
     before / after under every script; failures must match a listed finding's predicate
"""
from __future__ import annotations

import ast
import hashlib
import itertools
import random
from collections import Counter

from . import common
from . import c16_terms as T
from .common import glist


def gbool(b) -> str:
    return "true" if b else "false"

PID = "C16"

# ---------------------------------------------------------------------------------------------
# term pools

X = ("name", "x")
Y = ("name", "y")
US = ("name", "_")
ONE = ("const", False, "1")
STR = ("const", True, "'s'")


def call(f, *args, kw=()):
    return ("call", ("name", f) if isinstance(f, str) else f, list(args), list(kw))


G1 = [(("name", "x"), Y, [])]

INTERESTING = [
    X, US, ONE, STR,
    call("f"), call("len", X), call("g", X), call("_"), call("print", X),
    ("attr", X, "a"), ("attr", X, "g"), call(("attr", STR, "join"), X), call(("attr", STR, "g"), call("f")),
    call(("attr", STR, "join"), call("join", X)),
    ("named", "y", ONE), ("named", "_", ONE),
    ("lambda", [], None, [], call("f")), ("lambda", ["p"], None, [], ONE), ("lambda", [], "a", [], ONE),
    ("comp", "list", call("f"), G1), ("comp", "list", X, G1), ("comp", "gen", call("f"), G1),
    ("dictcomp", call("f"), ONE, G1), ("dictcomp", ONE, call("f"), G1),
    ("comp", "list", X, [(("tuple", ["x", "z"]), Y, [])]),
    ("other", "yield", []),
    ("fstr", [("fmt", call("f"), None)]), ("fstr", [("const", True, "'t'", "t"), ("fmt", X, ("fstr", [("fmt", call("f"), None)]))]),
    ("fstr", [("fmt", X, None)]),
    ("sub", X, ("slice", call("f"), None, None)), ("sub", X, ("slice", None, None, call("f"))), ("sub", X, ("slice", ONE, ONE, ONE)),
    call("len", ("attr", X, "a")), call("len", ("attr", X, "g")), call(("attr", US, "g")), call(("attr", X, "g")),
    call(call("len", X)), call("map", ("name", "f"), X), call("sorted", X, kw=[("key", ("name", "f"))]),
    call(("attr", call("g"), "g")), call("len", ("star", X)), call("len", kw=[(None, X)]),
    ("ifexp", X, call("f"), ONE), ("bool", "and", [X, call("f")]),
]


def contexts():
    """single-hole expression contexts: functions term -> term"""
    C = []
    A = C.append
    A(lambda h: ("unary", "not", h))
    A(lambda h: ("bin", "+", h, X)); A(lambda h: ("bin", "+", X, h))
    A(lambda h: ("cmp", h, [("<", X)])); A(lambda h: ("cmp", X, [("<", h)])); A(lambda h: ("cmp", X, [("<", Y), ("<", h)]))
    A(lambda h: ("bool", "and", [h, X])); A(lambda h: ("bool", "or", [X, h]))
    A(lambda h: ("ifexp", h, X, X)); A(lambda h: ("ifexp", X, h, X)); A(lambda h: ("ifexp", X, X, h))
    A(lambda h: ("seq", "list", [h])); A(lambda h: ("seq", "tuple", [X, h])); A(lambda h: ("seq", "set", [h]))
    A(lambda h: ("seq", "list", [("star", h)]))
    A(lambda h: ("dict", [(h, X)])); A(lambda h: ("dict", [(X, h)])); A(lambda h: ("dict", [(None, h)]))
    A(lambda h: ("attr", h, "a")); A(lambda h: ("attr", h, "g"))
    A(lambda h: ("sub", h, X)); A(lambda h: ("sub", X, h))
    A(lambda h: ("sub", X, ("slice", h, None, None))); A(lambda h: ("sub", X, ("slice", None, h, None)))
    A(lambda h: ("sub", X, ("slice", None, None, h)))
    A(lambda h: call(h)); A(lambda h: call("len", h)); A(lambda h: call("g", h)); A(lambda h: call("f", h))
    A(lambda h: call("len", kw=[("k", h)])); A(lambda h: call("len", kw=[(None, h)])); A(lambda h: call("len", ("star", h)))
    A(lambda h: call(("attr", h, "g"))); A(lambda h: call(("attr", h, "a")))
    A(lambda h: call(("attr", STR, "join"), h)); A(lambda h: call(("attr", X, "g"), h))
    A(lambda h: call("map", h, X))
    A(lambda h: ("comp", "list", h, G1)); A(lambda h: ("comp", "set", h, G1)); A(lambda h: ("comp", "gen", h, G1))
    A(lambda h: ("comp", "list", X, [(("name", "x"), h, [])])); A(lambda h: ("comp", "list", X, [(("name", "x"), Y, [h])]))
    A(lambda h: ("comp", "list", X, [(("name", "x"), Y, [X, h])]))
    A(lambda h: ("comp", "list", X, [(("name", "x"), Y, []), (("name", "z"), h, [])]))
    A(lambda h: ("comp", "list", h, [(("tuple", ["x", "z"]), Y, [])]))
    A(lambda h: ("dictcomp", h, X, G1)); A(lambda h: ("dictcomp", X, h, G1))
    A(lambda h: ("fstr", [("fmt", h, None)])); A(lambda h: ("fstr", [("fmt", X, ("fstr", [("fmt", h, None)]))]))
    A(lambda h: ("lambda", [], None, [], h)); A(lambda h: ("lambda", ["p"], None, [h], X))
    A(lambda h: ("named", "y", h)); A(lambda h: ("named", "_", h))
    A(lambda h: ("other", "yield", [h]))
    return C


def stmt_contexts():
    C = []
    A = C.append
    A(lambda h: ("expr", h))
    A(lambda h: ("assign", [("tname", "x")], h)); A(lambda h: ("assign", [("tname", "_")], h))
    A(lambda h: ("assign", [("tname", "_"), ("tname", "_")], h))
    A(lambda h: ("assign", [("tsub", US, h)], ONE)); A(lambda h: ("assign", [("tsub", X, h)], ONE))
    A(lambda h: ("assign", [("tsub", h, ONE)], ONE))
    A(lambda h: ("assign", [("tattr", h, "a")], ONE))
    A(lambda h: ("assign", [("tseq", [("tname", "_"), ("tstar", ("tname", "_"))])], h))
    A(lambda h: ("assign", [("tseq", [("tname", "_"), ("tname", "x")])], h))
    A(lambda h: ("aug", ("tname", "_"), h)); A(lambda h: ("aug", ("tname", "x"), h))
    A(lambda h: ("aug", ("tsub", US, h), ONE))
    A(lambda h: ("if", h, [("pass",)], [])); A(lambda h: ("if", X, [("expr", h)], []))
    A(lambda h: ("if", X, [("pass",)], [("expr", h)]))
    A(lambda h: ("for", ("tname", "_"), h, [("pass",)], [])); A(lambda h: ("for", ("tname", "_"), X, [("expr", h)], []))
    A(lambda h: ("for", ("tname", "_"), X, [("pass",)], [("expr", h)]))
    A(lambda h: ("for", ("tname", "x"), Y, [("expr", h)], []))
    A(lambda h: ("for", ("tsub", US, h), X, [("pass",)], []))
    A(lambda h: ("for", ("tseq", [("tname", "_"), ("tname", "_")]), X, [("expr", h)], []))
    A(lambda h: ("for", ("tname", "_"), X, [("if", Y, [("expr", h)], [("pass",)])], []))
    A(lambda h: ("while", X, [("expr", h)], [])); A(lambda h: ("with", h, [("pass",)]))
    A(lambda h: ("def", "def", "_", [], [h], [])); A(lambda h: ("def", "def", "_", [h], [], []))
    A(lambda h: ("def", "def", "k", [], [h], []))
    A(lambda h: ("def", "class", "_", [], [h], [("pass",)])); A(lambda h: ("def", "class", "_", [], [], [("expr", h)]))
    A(lambda h: ("def", "class", "_", [], [], [("expr", STR), ("expr", h)]))
    A(lambda h: ("if", X, [("ctl", "return")], [("expr", h)]))
    A(lambda h: ("if", X, [("otherstmt", "import os")], [("expr", h)]))
    return C


def stable_hash(s: str) -> int:
    return int(hashlib.sha1(s.encode()).hexdigest()[:8], 16)


NAMES_CALL = ["f", "g", "len", "_", "map", "print", "sorted"]
NAMES_DATA = ["x", "y", "_"]
ATTRS = ["a", "g", "join", "format"]


def rand_expr(rnd, d):
    if d <= 0 or rnd.random() < 0.25:
        return rnd.choice([X, Y, US, ONE, STR, call("f"), call("len", X), ("attr", X, "a")])
    R = lambda: rand_expr(rnd, d - 1)  # noqa
    k = rnd.choice(["unary", "bin", "cmp", "bool", "ifexp", "seq", "dict", "attr", "sub", "slice", "call", "call",
                    "call", "mcall", "comp", "comp", "dictcomp", "fstr", "lambda", "named", "star", "other"])
    if k == "unary":
        return ("unary", rnd.choice(["not", "-"]), R())
    if k == "bin":
        return ("bin", "+", R(), R())
    if k == "cmp":
        return ("cmp", R(), [("<", R()) for _ in range(rnd.randint(1, 2))])
    if k == "bool":
        return ("bool", rnd.choice(["and", "or"]), [R() for _ in range(rnd.randint(2, 3))])
    if k == "ifexp":
        return ("ifexp", R(), R(), R())
    if k == "seq":
        return ("seq", rnd.choice(["list", "tuple"]), [R() for _ in range(rnd.randint(0, 2))])
    if k == "dict":
        return ("dict", [(R() if rnd.random() < 0.8 else None, R()) for _ in range(rnd.randint(0, 2))])
    if k == "attr":
        return ("attr", R(), rnd.choice(ATTRS))
    if k == "sub":
        return ("sub", R(), R())
    if k == "slice":
        return ("sub", R(), ("slice",) + tuple(R() if rnd.random() < 0.5 else None for _ in range(3)))
    if k == "call":
        f = ("name", rnd.choice(NAMES_CALL)) if rnd.random() < 0.8 else R()
        args = [R() if rnd.random() < 0.9 else ("star", R()) for _ in range(rnd.randint(0, 2))]
        kws = [(rnd.choice(["k", "key", None]), R()) for _ in range(rnd.randint(0, 1))]
        return ("call", f, args, kws)
    if k == "mcall":
        recv = rnd.choice([STR, X, US, call("g")]) if rnd.random() < 0.8 else R()
        return ("call", ("attr", recv, rnd.choice(ATTRS)), [R() for _ in range(rnd.randint(0, 1))], [])
    if k in ("comp", "dictcomp"):
        gens = []
        for _ in range(rnd.randint(1, 2)):
            tgt = ("name", rnd.choice(["x", "z"])) if rnd.random() < 0.85 else ("tuple", ["x", "z"])
            gens.append((tgt, R(), [R() for _ in range(rnd.randint(0, 1))]))
        if k == "comp":
            return ("comp", rnd.choice(["list", "set", "gen"]), R(), gens)
        return ("dictcomp", R(), R(), gens)
    if k == "fstr":
        return ("fstr", [("fmt", R(), None if rnd.random() < 0.6 else ("fstr", [("fmt", R(), None)]))
                         for _ in range(rnd.randint(1, 2))])
    if k == "lambda":
        ps = rnd.choice([[], [], ["p"]])
        return ("lambda", ps, None, [R()] if ps and rnd.random() < 0.5 else [], R())
    if k == "named":
        return ("named", rnd.choice(["y", "_"]), R())
    if k == "star":
        return ("seq", "list", [("star", R())])
    return ("other", "yield", [R()])


def rand_target(rnd, d):
    r = rnd.random()
    if r < 0.5:
        return ("tname", rnd.choice(["x", "_", "_"]))
    if r < 0.6:
        return ("tattr", rand_expr(rnd, d), "a")
    if r < 0.85:
        return ("tsub", rnd.choice([US, X, rand_expr(rnd, d)]), rand_expr(rnd, d))
    return ("tseq", [rand_target(rnd, d - 1) for _ in range(rnd.randint(1, 2))])


def rand_stmt(rnd, d):
    E = lambda: rand_expr(rnd, 2)  # noqa
    if d <= 0 or rnd.random() < 0.35:
        k = rnd.choice(["expr", "expr", "assign", "aug", "pass", "ctl", "def", "other"])
        if k == "expr":
            return ("expr", E())
        if k == "assign":
            return ("assign", [rand_target(rnd, 1) for _ in range(rnd.randint(1, 2))], E())
        if k == "aug":
            t = rand_target(rnd, 1)
            return ("aug", t if t[0] in ("tname", "tattr", "tsub") else ("tname", "_"), E())
        if k == "pass":
            return ("pass",)
        if k == "ctl":
            return ("ctl", rnd.choice(["return", "raise", "break", "continue"]))
        if k == "def":
            kind = rnd.choice(["def", "class"])
            return ("def", kind, rnd.choice(["_", "_", "k"]), [E()] if rnd.random() < 0.2 else [],
                    [E() for _ in range(rnd.randint(0, 1))],
                    [] if kind == "def" else [rand_stmt(rnd, 0)] if rnd.random() < 0.7 else [("pass",)])
        return ("otherstmt", "import os")
    B = lambda lo=1: [rand_stmt(rnd, d - 1) for _ in range(rnd.randint(lo, 2))]  # noqa
    k = rnd.choice(["if", "if", "for", "for", "while", "with"])
    if k == "if":
        return ("if", E(), B(), B(0))
    if k == "for":
        return ("for", rand_target(rnd, 1), E(), B(), B(0))
    if k == "while":
        return ("while", E(), B(), B(0))
    return ("with", E(), B())


# ---------------------------------------------------------------------------------------------
# 1. has_side_effect correspondence

PRELUDE = ("From Coq Require Import List Bool String.\nImport ListNotations.\n"
           "Require Import Pyrefact.EffectModel.\n"
           "Definition bit (b : bool) : nat := if b then 1 else 0.\n")


def intern_names(body: str) -> str:
    """Coq parses string literals slowly: name every distinct literal once and refer to it by identifier"""
    import re
    names = sorted(set(re.findall(r'"([^"]*)"%string', body)))
    idx = {n: f"nm{i}" for i, n in enumerate(names)}
    defs = "".join(f'Definition {idx[n]} : name := "{n}"%string.\n' for n in names)
    return defs + re.sub(r'"([^"]*)"%string', lambda m: idx[m.group(1)], body)


def run_model_bits(wd, tag, typ, fn, cases, per=400):
    """cases: list of (coq term text, whitelist names); returns for each (bit under the whitelist, bit under [])"""
    files, shards = [], []
    for k in range(0, len(cases), per):
        shard = cases[k:k + per]
        p = wd / f"{tag}_{k // per}.v"
        body = ";\n ".join(f"({t}, {glist(wl, T.q)})" for t, wl in shard)
        p.write_text(PRELUDE + intern_names(f"Definition cases : list ({typ} * list name) := [\n {body}\n].\n")
                     + f"Eval vm_compute in (flat_map (fun c => [bit ({fn} (fst c) (snd c)); bit ({fn} (fst c) [])]) cases).\n")
        files.append(p); shards.append(shard)
    results = common.run_case_files(files)
    out = []
    for p, shard in zip(files, shards):
        rc, txt = results[p]
        bits = common.parse_nat_list(txt) if rc == 0 else None
        if bits is None or len(bits) != 2 * len(shard):
            raise RuntimeError(f"model evaluation failed for {p.name}: {txt[-1500:]}")
        out += [(bool(bits[2 * i]), bool(bits[2 * i + 1])) for i in range(len(shard))]
    return out


def hse_cases(run, rnd):
    ctx, sctx = contexts(), stmt_contexts()
    exprs, stmts = [], []
    for h in INTERESTING:
        exprs.append(h)
    for c in ctx:
        for h in INTERESTING:
            exprs.append(c(h))
    n_full = len(exprs)
    shard_k = 60 if run.tier == "quick" else 1
    for c1 in ctx:
        for c2 in ctx:
            for h in INTERESTING:
                e = c1(c2(h))
                if shard_k == 1 or stable_hash(repr(e)) % shard_k == run.seed % shard_k:
                    exprs.append(e)
    for c in sctx:
        for h in INTERESTING:
            stmts.append(c(h))
        for c2 in (ctx[::7] if run.tier == "quick" else ctx):
            for h in (INTERESTING[4::4] if run.tier == "quick" else INTERESTING):
                stmts.append(c(c2(h)))
    n_exh_e, n_exh_s = len(exprs), len(stmts)
    for _ in range(1200 if run.tier == "quick" else 20000):
        exprs.append(rand_expr(rnd, rnd.choice([2, 3, 3, 4])))
    for _ in range(500 if run.tier == "quick" else 8000):
        stmts.append(rand_stmt(rnd, rnd.choice([1, 2, 2])))
    return exprs, stmts, n_full, n_exh_e, n_exh_s


def check_hse(run, mods, wd, rnd, cov):
    core, constants = mods["core"], mods["constants"]
    SAFE = frozenset(constants.SAFE_CALLABLES)
    exprs, stmts, n_full, n_exh_e, n_exh_s = hse_cases(run, rnd)
    wl_big = SAFE | {"g"}
    disagreements = []
    hist = Counter()
    distinct = set()
    rt_bad = 0

    def one(kind, terms, to_src, to_coq, typ, fn):
        nonlocal rt_bad
        impl, cases, srcs = [], [], []
        for t in terms:
            src = to_src(t)
            try:
                node = ast.parse(src).body[0]
            except SyntaxError as exc:  # the printer is wrong
                raise RuntimeError(f"printer produced invalid Python: {src!r}: {exc}")
            back = T.s_of(node)
            want = t if kind == "stmt" else ("expr", t)
            if T.strip_text(back) != T.strip_text(want):
                rt_bad += 1
                disagreements.append({"case": src, "problem": "printer/converter round trip", "term": repr(t)[:300],
                                      "back": repr(back)[:300]})
                continue
            target = node if kind == "stmt" else node.value
            names = T.names_in(t)
            with common.quiet():
                r = (bool(core.has_side_effect(target, wl_big)), bool(core.has_side_effect(target, frozenset())))
            impl.append(r)
            cases.append((to_coq(t), sorted(names & wl_big)))
            srcs.append(src)
            hist[t[0]] += 1
        model = run_model_bits(wd, f"hse_{kind}", typ, fn, cases)
        for src, a, b in zip(srcs, impl, model):
            for wln, x, y in (("SAFE+g", a[0], b[0]), ("empty", a[1], b[1])):
                if x != y:
                    disagreements.append({"case": src, "whitelist": wln, "impl": x, "model": y, "fn": fn})
            if not a[0]:
                distinct.add(src)
        return 2 * len(cases)

    n1 = one("expr", exprs, lambda e: "(" + T.e_src(e) + ")\n", T.e_coq, "expr", "hse")
    n2 = one("stmt", stmts, T.s_src, T.s_coq, "stmt", "hse_s")
    cov.update(hse_evaluations=n1 + n2, hse_exhaustive_exprs=n_exh_e, hse_full_scope=n_full,
               hse_exhaustive_stmts=n_exh_s, hse_random=len(exprs) - n_exh_e + len(stmts) - n_exh_s,
               hse_no_side_effect_cases=len(distinct), hse_histogram=dict(hist), hse_disagreements=len(disagreements))
    return disagreements, [T.e_src(exprs[5]), T.e_src(exprs[n_full + 3]), T.s_src(stmts[-1])]


# ---------------------------------------------------------------------------------------------
# 2. safe_callable_names + pointless decision on modules

FUNC_TEXTS = [
    "    return 1\n",
    "    return {h}()\n",
    "    {h}()\n    return 1\n",
    "    print(1)\n    return 1\n",
    "    x\n    return len(x)\n",
    "    y = 1\n    return y\n",
    "    _ = 1\n    return _\n",
    "    for _ in x:\n        pass\n    else:\n        print(1)\n    return 1\n",
    "    raise E\n",
    "    raise E\n    print(1)\n",
    "    while True:\n        print(1)\n",
    "    while True:\n        pass\n",
    "    if x:\n        return 1\n    return 2\n",
    "    if x:\n        y\n    else:\n        {h}()\n",
    "    return [{h}(x) for x in y]\n",
    "    return 1\n    print(2)\n",
    "    pass\n",
    "    'doc'\n    return x.a\n",
    "    assert False\n",
    "    return print(1)\n",
]
MOD_TAILS = ["", "f = 1\n", "h = f\n", "f = g\n", "class A:\n    def __init__(self):\n        {b}\n",
             "class A:\n    def __init__(self):\n        {b}\n    def m(self):\n        return f()\n",
             "class B:\n    pass\n", "class C:\n    def __new__(cls):\n        return f()\n    def __init__(self):\n        print(1)\n"]
STMT_TAILS = ["f()\n", "h()\n", "A()\n", "x\n", "'s'\n", "print(1)\n", "_ = f()\n", "[f() for x in y]\n",
              "for _ in x:\n    f()\nelse:\n    h()\n", "if x:\n    f()\n", "while x:\n    f()\n    y = 1\n"]


# ---- classes whose constructors differ in effect (quiet / loud x __init__ / __new__ / __post_init__,
# dataclass style, two constructors, constructor calling another definition, inherited constructor)
CLASS_KINDS = {
    "bare": "class {n}:\n    kind = 1\n",
    "quiet_init": "class {n}:\n    def __init__(self):\n        pass\n",
    "loud_init": "class {n}:\n    def __init__(self):\n        print(1)\n",
    "quiet_new": "class {n}:\n    def __new__(cls):\n        return 1\n",
    "loud_new": "class {n}:\n    def __new__(cls):\n        print(1)\n        return 1\n",
    "quiet_post": "class {n}:\n    def __post_init__(self):\n        pass\n",
    "loud_post": "class {n}:\n    def __post_init__(self):\n        print(1)\n",
    "setter_init": "class {n}:\n    def __init__(self):\n        registry.append(1)\n",
    "thrower_init": "class {n}:\n    def __init__(self):\n        raise E\n",
    "indirect_loud": "class {n}:\n    def __init__(self):\n        loud()\n",
    "indirect_quiet": "class {n}:\n    def __init__(self):\n        quiet()\n",
    "quiet_init_loud_new": "class {n}:\n    def __new__(cls):\n        print(1)\n        return object.__new__(cls)\n"
                           "    def __init__(self):\n        pass\n",
    "quiet_init_other_method": "class {n}:\n    def __init__(self):\n        pass\n    def m(self):\n        print(1)\n",
    "data_quiet_post": "@dataclass\nclass {n}:\n    v: int = 0\n    def __post_init__(self):\n        pass\n",
    "data_loud_post": "@dataclass\nclass {n}:\n    v: int = 0\n    def __post_init__(self):\n        print(1)\n",
    "child": "class {n}({o}):\n    pass\n",
    "child_quiet_init": "class {n}({o}):\n    def __init__(self):\n        pass\n",
}
CLASS_PRELUDE = ("from dataclasses import dataclass\n"
                 "def quiet():\n    return 1\n"
                 "def loud():\n    print(2)\n    return 1\n")
# instantiation in statement / comprehension / conditional-expression / tuple / boolean / f-string position
CLASS_USES = ["{a}()\n", "{b}()\n", "[{b}() for _ in xs]\n", "[1 for _ in xs if {b}()]\n", "{{1: {b}() for _ in xs}}\n",
              "{a}() if {b}() else {a}()\n", "({a}(), {b}())\n", "{a}() and {b}()\n", "f\"{{{b}()}}\"\n",
              "-len([{b}()])\n"]


def class_family(run):
    """modules with two (or three) classes; every ordered pair of kinds"""
    kinds = list(CLASS_KINDS)
    out = []
    for ka in kinds:
        if ka.startswith("child"):
            continue
        for kb in kinds:
            src = CLASS_PRELUDE + CLASS_KINDS[ka].format(n="A", o="object") + CLASS_KINDS[kb].format(n="B", o="A")
            src += "".join(u.format(a="A", b="B") for u in CLASS_USES)
            out.append(src)
    # three classes: a quiet one in front of / behind a loud pair
    for kq in ("quiet_init", "quiet_new", "data_quiet_post"):
        for kb in ("loud_init", "loud_new", "setter_init", "thrower_init", "indirect_loud", "data_loud_post"):
            src = (CLASS_PRELUDE + CLASS_KINDS[kb].format(n="B", o="object") + CLASS_KINDS[kq].format(n="Q", o="object")
                   + CLASS_KINDS["child"].format(n="C", o="Q") + "B()\n[B() for _ in xs]\nQ() if B() else Q()\nC()\n")
            out.append(src)
    return out


class Hang(Exception):
    pass


import contextlib  # noqa: E402
import signal  # noqa: E402


@contextlib.contextmanager
def watchdog(seconds, what):
    """the implementation must answer: a call that does not return within [seconds] is reported"""
    def handler(signum, frame):
        raise Hang(f"no answer within {seconds} s: {what}")
    old = signal.signal(signal.SIGALRM, handler)
    signal.alarm(seconds)
    try:
        yield
    finally:
        signal.alarm(0)
        signal.signal(signal.SIGALRM, old)


def gen_modules(run, rnd):
    mods = []
    names = ["f", "h"]
    # exhaustive: two functions f, h over all pairs of bodies (h referenced from f's body)
    for i, bf in enumerate(FUNC_TEXTS):
        for j, bh in enumerate(FUNC_TEXTS):
            if run.tier == "quick" and (i * 31 + j * 17) % 4 != run.seed % 4 and i != j:
                continue
            src = "def f():\n" + bf.format(h="h") + "def h():\n" + bh.format(h="f")
            src += "f()\nh()\nx\n"
            mods.append(src)
    # duplicates, shadowing, classes, async, nesting
    for i, bf in enumerate(FUNC_TEXTS):
        for tail in MOD_TAILS:
            src = "def f():\n" + bf.format(h="f") + tail.format(b="self.x = 1" if i % 2 else "pass") + "f()\nA()\n"
            mods.append(src)
        mods.append("def f():\n    return 1\ndef f():\n" + bf.format(h="f") + "f()\n")
        mods.append("def f():\n" + bf.format(h="f") + "def f():\n    return 1\nf()\n")
        mods.append("def k():\n    def f():\n    " + bf.format(h="f").replace("\n    ", "\n        ") + "    return f()\nk()\nf()\n")
        mods.append("async def f():\n" + bf.format(h="f") + "f()\n")
        mods.append("'doc'\ndef f():\n    'doc'\n    'more'\n" + bf.format(h="f") + "'s'\nf()\n")
    mods += class_family(run)
    # the repaired guards: names bound by something else than one def (parameter, import, loop / with / except target,
    # a second definition), decorated definitions, classes with bases / keywords / decorators, try bodies, `_` that is
    # read, iteration over unknown objects
    mods += [src for _, _, src, _, _ in hunt_family()]
    for i, bf in enumerate(FUNC_TEXTS[:8]):
        body = bf.format(h="f")
        for binder in ("def g(f):\n    return f()\n", "def g(*f):\n    pass\n", "def g(**f):\n    pass\n", "g = lambda f: 1\n",
                       "import f\n", "import f.sub\n", "import m as f\n", "from m import f\n", "from m import n as f\n",
                       "for f in x:\n    pass\n", "with x as f:\n    pass\n", "try:\n    pass\nexcept E as f:\n    pass\n",
                       "[f for f in x]\n", "(f := 1)\n", "class f:\n    pass\n", "class K:\n    def f(self):\n        return 1\n",
                       "global f\n", "del f\n", "x.f = 1\n"):
            mods.append("def f():\n" + body + binder + "f()\n")
        for deco in ("@d\n", "@d(1)\n", "@staticmethod\n"):
            mods.append(deco + "def f():\n" + body + "f()\nh()\n")
            mods.append("def h():\n    return f()\n" + deco + "def f():\n" + body + "f()\nh()\n")
        for head in ("class A(Base):\n", "class A(metaclass=M):\n", "@d\nclass A:\n", "class A(object):\n", "class A():\n"):
            mods.append("def f():\n" + body + head + "    def __init__(self):\n        f()\nA()\nf()\n")
    for st in STMT_TAILS + ["'s'\n1\n", "pass\n", "_ = 1\n", "x[0]\n", "len(x)\n", "[*x]\n", "[a for a in x]\n",
                            "[a for a in [1]]\n", "for _ in x:\n    pass\n", "for _ in range(3):\n    pass\n",
                            "def _():\n    pass\n", "class _:\n    pass\n", "class _(B):\n    pass\n"]:
        ind = "    " + st.rstrip("\n").replace("\n", "\n    ") + "\n"
        for pre in ("def f():\n    return 1\n", "def f():\n    print(1)\n"):
            mods.append(pre + "try:\n" + ind + "except E:\n    pass\n")
            mods.append(pre + "try:\n    'doc'\n" + ind + "    y\nexcept E:\n" + ind + "else:\n" + ind + "finally:\n" + ind)
            mods.append(pre + "try:\n" + ind + "finally:\n    pass\n")
            mods.append(pre + st + "print(_)\n")
            mods.append(pre + st + "def k():\n    global _\n")
            mods.append(pre + st + "_ = 2\n")
    for _ in range(150 if run.tier == "quick" else 3000):
        fs = rnd.sample(["f", "h", "k", "f"], rnd.randint(1, 3))
        src = ""
        for nm in fs:
            src += f"def {nm}():\n" + rnd.choice(FUNC_TEXTS).format(h=rnd.choice(names + ["k"]))
        src += rnd.choice(MOD_TAILS).format(b=rnd.choice(["pass", "self.x = 1", "f()", "return h()"]))
        for _ in range(rnd.randint(1, 3)):
            src += rnd.choice(STMT_TAILS)
        mods.append(src)
    out, seen = [], set()
    for m in mods:
        try:
            ast.parse(m)
        except SyntaxError:
            continue
        if m not in seen:
            seen.add(m)
            out.append(m)
    return out


def module_model_input(mods, root):
    """What EffectModel.safe_callable_names takes: the definitions in the order of core.walk, for each the
    statements handed to has_side_effect (split by core.is_blocking), the return values and whether it is decorated;
    the names bound by anything but a def / class statement; the names that several definitions share; the classes
    without bases / keywords / decorators with the indices of their constructors."""
    core = mods["core"]
    fdefs = list(core.walk(root, (ast.FunctionDef, ast.AsyncFunctionDef)))
    shadowed = set()
    counts = {}
    for n in ast.walk(root):
        if isinstance(n, ast.Name) and isinstance(n.ctx, ast.Store):
            shadowed.add(n.id)
        elif isinstance(n, ast.arg):
            shadowed.add(n.arg)
        elif isinstance(n, (ast.Import, ast.ImportFrom)):
            shadowed.update((a.asname or a.name).split(".")[0] for a in n.names)
        elif isinstance(n, ast.ExceptHandler) and n.name:
            shadowed.add(n.name)
        elif isinstance(n, (ast.FunctionDef, ast.AsyncFunctionDef, ast.ClassDef)):
            counts[n.name] = counts.get(n.name, 0) + 1
    dups = sorted(x for x, c in counts.items() if c > 1)
    defs = []
    for node in fdefs:
        checked = []
        for child in node.body:
            if core.is_blocking(child):
                if not isinstance(child, ast.Return):
                    checked.append(child)
                break
            checked.append(child)
        rets = [n.value for n in ast.walk(node) if isinstance(n, ast.Return)]
        defs.append((node.name, bool(node.decorator_list), [T.s_of(c) for c in checked],
                     [T.CONST0 if v is None else T.e_of(v) for v in rets]))
    classes = []
    for node in ast.walk(root):
        if isinstance(node, ast.ClassDef) and not (node.bases or node.keywords or node.decorator_list):
            ctors = [fdefs.index(c) for c in node.body
                     if isinstance(c, ast.FunctionDef) and c.name in ("__init__", "__post_init__", "__new__")]
            classes.append((node.name, ctors))
    return defs, sorted(shadowed), dups, classes


def underscore_is_read(root) -> bool:
    """`_` is loaded, or declared global / nonlocal, somewhere in the module"""
    for n in ast.walk(root):
        if isinstance(n, ast.Name) and n.id == "_" and isinstance(n.ctx, ast.Load):
            return True
        if isinstance(n, (ast.Global, ast.Nonlocal)) and "_" in n.names:
            return True
    return False


def def_body_hidden_from_model(stmts) -> bool:
    """The term of a `def` does not carry the function body (it is not executed by the statement), but the iteration
    guard of delete_pointless_statements walks into it: a harmless `def _` whose body iterates is out of the domain."""
    for st in stmts:
        for n in ast.walk(st):
            if isinstance(n, (ast.FunctionDef, ast.AsyncFunctionDef)) and n.name == "_":
                if any(isinstance(m, (ast.For, ast.AsyncFor, ast.comprehension, ast.Starred)) for m in ast.walk(n)):
                    return True
    return False


CASE_T = "list name * list name * list name * list fdef * list (name * list nat) * bool * bool * stmts"


def check_modules(run, mods, wd, rnd, cov):
    core, parsing, fixes, constants = mods["core"], mods["parsing"], mods["fixes"], mods["constants"]
    SAFE = frozenset(constants.SAFE_CALLABLES)
    sources = gen_modules(run, rnd)
    disagreements = []
    cases, keep = [], []
    n_try = 0
    for src in sources:
        core.parse.cache_clear()
        root = core.parse(src)
        try:
            defs, shadowed, dups, classes = module_model_input(mods, root)
            # the bodies whose decision is compared: the module body, and the body of every top-level try statement
            # with handlers (there the statement must also be unable to raise)
            bodies = [(False, root.body)]
            bodies += [(True, st.body) for st in root.body if isinstance(st, ast.Try) and st.handlers]
            if def_body_hidden_from_model(root.body):
                continue
            body_terms = [[T.s_of(c) for c in b] for _, b in bodies]
        except T.Unsupported:
            continue
        with common.quiet(), watchdog(20, f"parsing.safe_callable_names / delete_pointless_statements on {src!r}"):
            real = set(parsing.safe_callable_names(root)) - SAFE
            deleted = {id(n) for n, _ in fixes.delete_pointless_statements._fix_func(src)}
        assert core.parse(src) is root
        us_used = underscore_is_read(root)
        names = set()
        for bt in body_terms:
            names |= T.names_in(bt)
        for _, _, ch, rets in defs:
            names |= T.names_in(ch) | T.names_in(rets)
        names |= {d[0] for d in defs} | {c[0] for c in classes}
        base = sorted(names & SAFE)
        dtxt = glist(defs, lambda d: f"(mkF {T.q(d[0])} {gbool(d[1])} {T.slist(d[2])} {T.elist(d[3], T.e_coq)})")
        ctxt = glist(classes, lambda c: f"({T.q(c[0])}, {glist(c[1], str)})")
        for (in_try, b), bt in zip(bodies, body_terms):
            real_flags = [id(c) in deleted for c in b]
            cases.append(f"({glist(base, T.q)}, {glist(shadowed, T.q)}, {glist(dups, T.q)}, {dtxt}, {ctxt}, "
                         f"{gbool(in_try)}, {gbool(us_used)}, {T.slist(bt)})")
            keep.append((src, sorted(real), real_flags, sorted(names - SAFE), in_try))
            n_try += in_try
    # model: for each case, the safe names among the candidate names and the deletion flags of the body
    files, shards = [], []
    per = 150
    for k in range(0, len(cases), per):
        p = wd / f"mods_{k // per}.v"
        body = ";\n ".join(cases[k:k + per])
        cand = ";\n ".join(glist(kk[3], T.q) for kk in keep[k:k + per])
        p.write_text(PRELUDE + intern_names(
                     f"Definition cases : list ({CASE_T}) := [\n "
                     + body + "\n].\nDefinition cands : list (list name) := [\n " + cand + "\n].\n") +
                     f"Definition run1 (c : {CASE_T}) (cs : list name) : list nat :=\n"
                     "  let '(base, sh, dups, defs, cls, in_try, us_used, body) := c in\n"
                     "  let safe := safe_callable_names base sh dups defs cls in\n"
                     "  [List.length cs] ++ map (fun x => bit (mem x safe)) cs\n"
                     "  ++ map bit (pointless_ctx in_try us_used body safe) ++ [7].\n"
                     "Eval vm_compute in (List.concat (map (fun p => run1 (fst p) (snd p)) (combine cases cands))).\n")
        files.append(p); shards.append(keep[k:k + per])
    results = common.run_case_files(files)
    n_del = 0
    for p, shard in zip(files, shards):
        rc, txt = results[p]
        nums = common.parse_nat_list(txt) if rc == 0 else None
        if nums is None:
            raise RuntimeError(f"model evaluation failed for {p.name}: {txt[-1500:]}")
        pos = 0
        for src, real, real_flags, cand, in_try in shard:
            n = nums[pos]; pos += 1
            assert n == len(cand), (n, cand)
            msafe = sorted(c for c, b in zip(cand, nums[pos:pos + n]) if b); pos += n
            mflags = [bool(b) for b in nums[pos:pos + len(real_flags)]]; pos += len(real_flags)
            assert nums[pos] == 7, "desynchronised model output"; pos += 1
            if msafe != real and not in_try:
                disagreements.append({"case": src, "fn": "safe_callable_names", "impl": real, "model": msafe})
            if mflags != real_flags:
                disagreements.append({"case": src, "fn": "delete_pointless_statements "
                                      + ("(decision in a try body)" if in_try else "(top-level decision)"),
                                      "impl": real_flags, "model": mflags})
            n_del += sum(real_flags)
    cov.update(module_cases=len(keep), module_try_bodies=n_try, module_statements_deleted=n_del,
               module_disagreements=len(disagreements))
    return disagreements, [keep[0][0], keep[len(keep) // 2][0]]


# ---------------------------------------------------------------------------------------------
# 3./4. execution with logging stubs


class _Exhausted(BaseException):
    pass


class _Diverge(BaseException):
    pass


def _step_limit(limit):
    n = [0]

    def tr(frame, event, arg):
        if event == "line":
            n[0] += 1
            if n[0] > limit:
                raise _Diverge()
        return tr
    return tr


class _Stop(Exception):
    """raised by `raise E` in generated statements"""


L_DRAWS = 5


class World:
    """One run: a script of draws, a log of events."""

    def __init__(self, script, ho=(), real=False, raisers=(), unbound=()):
        self.script, self.pos, self.log, self.ho = script, 0, [], frozenset(ho)
        # real: defined functions / classes and the builtins really run, call arguments are logged;
        # raisers: names of unknown objects whose operations may raise E; unbound: names whose lookup may raise E
        self.real, self.raisers, self.unbound = real, frozenset(raisers), frozenset(unbound)

    def draw(self):
        if self.pos < len(self.script):
            v = self.script[self.pos]
            self.pos += 1
            return v
        if len(self.script) < L_DRAWS:
            raise _Exhausted()
        self.pos += 1
        return 0


REAL_BUILTINS = {"str", "repr", "len", "hash", "getattr", "hasattr", "int", "float", "bool", "format", "type", "iter",
                 "list", "tuple", "dict", "set", "frozenset", "sorted", "sum", "range", "object", "isinstance",
                 "property", "super", "enumerate", "zip", "reversed", "any", "all", "min", "max", "abs", "dir", "vars",
                 "staticmethod", "classmethod", "Exception", "NotImplementedError", "next", "callable", "id"}


def summary(x):
    """what an observer sees of a call argument"""
    if x is None or isinstance(x, (bool, int, str)):
        return repr(x)
    if isinstance(x, (tuple, list)):
        return type(x).__name__ + "(" + ",".join(summary(i) for i in x) + ")"
    name = getattr(type(x), "__name__", "?")
    if name == "Stub":
        return "stub:" + object.__getattribute__(x, "_name")
    if isinstance(x, type) or callable(x) and hasattr(x, "__name__"):
        return "def:" + getattr(x, "__name__", "?")
    return "obj:" + name


def make_world_classes(w: World):
    def may_raise(obj):
        if w.raisers and type(obj).__name__ == "Stub" and object.__getattribute__(obj, "_name") in w.raisers:
            if w.draw():
                raise _Stop()

    class U:
        def __bool__(self):
            return bool(w.draw())

        def __iter__(self):
            may_raise(self)
            return iter([U() for _ in range(w.draw())])

        def __getattr__(self, a):
            if a.startswith("__") and a.endswith("__"):
                raise AttributeError(a)
            may_raise(self)
            return M(a)

        def __setattr__(self, a, v):
            w.log.append(("storeattr",))

        def __getitem__(self, i):
            may_raise(self)
            return U()

        def __setitem__(self, i, v):
            w.log.append(("storesub", isinstance(self, Stub) and self._name == "_"))

        def __call__(self, *a, **k):
            w.log.append(("call", "dyn"))
            return U()

        def __enter__(self):
            w.log.append(("meth", False, "__enter__"))
            return self

        def __exit__(self, *a):
            w.log.append(("meth", False, "__exit__"))
            return False

        def __format__(self, spec):
            may_raise(self)
            return "u"

        def keys(self):
            return []

        __hash__ = object.__hash__

    def _op(self, *a):
        may_raise(self)
        return U()

    for nm in ("add", "radd", "iadd", "sub", "rsub", "lt", "gt", "le", "ge", "eq", "ne", "neg", "pos", "invert",
               "mul", "rmul"):
        setattr(U, f"__{nm}__", _op)

    class M(U):
        def __init__(self, a):
            object.__setattr__(self, "_attr", a)

        def __call__(self, *a, **k):
            w.log.append(("meth", False, self._attr))
            return U()

    class Stub(U):
        def __init__(self, name):
            object.__setattr__(self, "_name", name)

        def __call__(self, *a, **k):
            if w.real:
                w.log.append(("call", self._name, tuple(summary(x) for x in a)))
            else:
                w.log.append(("call", self._name))
            may_raise(self)
            if self._name in w.ho:
                for x in list(a) + list(k.values()):
                    if isinstance(x, Stub):
                        w.log.append(("call", x._name))
            return U()

    class Env(dict):
        """module namespace: every lookup gives the stub of that name (so that a callee is always identified
        by its name); in `real` mode stored values are kept, so that defined functions really run"""

        def __init__(self, stubs, g=None, real=False):
            super().__init__()
            self.stubs, self.g, self.real, self.vals = stubs, g, real, {}

        def __getitem__(self, k):
            if k == "E":
                return _Stop
            if self.real and k in self.vals:
                return self.vals[k]
            if k in w.unbound and w.draw():
                raise _Stop()            # stands for the NameError of a name that may be unbound
            if self.real and k in REAL_BUILTINS:
                import builtins
                return getattr(builtins, k)
            return self.stubs[k] if k in self.stubs else Stub(k)

        def __setitem__(self, k, v):
            if k != "__doc__":
                w.log.append(("bind", k))
            if self.real:
                self.vals[k] = v
                if self.g is not None:
                    self.g[k] = v

    return U, Stub, Env


def explore_src(src, names, ho, real=False, raisers=(), unbound=()):
    """all behaviours (trace, outcome) over every script of draws in {0,1,2} of length <= L_DRAWS"""
    import warnings
    try:
        with warnings.catch_warnings():
            warnings.simplefilter("ignore")
            code = compile(src, "<stmt>", "exec")
    except SyntaxError:
        return None
    w = World([], ho, real, raisers, unbound)
    U, Stub, Env = make_world_classes(w)
    stubs = {n: Stub(n) for n in names if not (real and n in REAL_BUILTINS)}
    seen, stack, runs, partial, errors = set(), [[]], 0, False, 0
    while stack:
        script = stack.pop()
        w.script, w.pos, w.log = script, 0, []
        g = dict(stubs)
        g["E"] = _Stop
        out = "N"
        runs += 1
        import sys
        try:
            if real:
                sys.settrace(_step_limit(3000))     # defined functions really run: `while True: pass`
            try:
                exec(code, g, Env(stubs, g, real))
            finally:
                if real:
                    sys.settrace(None)
        except _Diverge:
            partial = True
            continue
        except _Exhausted:
            for v in (0, 1, 2):
                stack.append(script + [v])
            continue
        except _Stop:
            out = "raise"
        except (TypeError, AttributeError, ValueError, KeyError, IndexError, NameError, RecursionError,
                AssertionError, ZeroDivisionError, ImportError):
            partial = True
            errors += 1
            continue
        if w.pos > L_DRAWS:
            partial = True
            continue
        seen.add((tuple(w.log), out))
        if runs > 3000:
            partial = True
            break
    return seen, runs, partial, errors


EV_CODES = """
Definition enc_name (x : name) (tbl : list name) : nat :=
  (fix go (l : list name) (i : nat) : nat :=
     match l with [] => 0 | y :: tl => if String.eqb x y then i else go tl (S i) end) tbl 1.
Definition enc_ev (tbl : list name) (e : event) : list nat :=
  match e with
  | EvCall (CName f) => [1; enc_name f tbl]
  | EvCall (CMeth true a) => [2; enc_name a tbl]
  | EvCall (CMeth false a) => [3; enc_name a tbl]
  | EvCall CDyn => [4; 0]
  | EvBind x => [5; enc_name x tbl]
  | EvStoreAttr => [6; 0]
  | EvStoreSub b => [7; bit b]
  | EvOther => [8; 0]
  end.
Definition enc_out (o : outcome) : nat :=
  match o with ONormal => 0 | OAbrupt CReturn => 1 | OAbrupt CRaise => 2 | OAbrupt CBreak => 3 | OAbrupt CContinue => 4 end.
Fixpoint oracles (n : nat) : list (list nat) :=
  match n with 0 => [[]] | S m => flat_map (fun o => [0 :: o; 1 :: o; 2 :: o]) (oracles m) end.
Definition behaviours (tbl : list name) (s : stmt) : list (list nat) :=
  nodup (list_eq_dec PeanoNat.Nat.eq_dec)
    (map (fun o => let '(t, out, _) := exec s o in enc_out out :: List.concat (map (enc_ev tbl) t)) (oracles NDRAWS)).
Definition sep (ls : list (list nat)) : list nat := List.concat (map (fun l => 9 :: l) ls) ++ [10].
"""


def model_behaviours(wd, tag, items, per=120, ndraws=None):
    """items: list of (stmt term, name table); returns for each the set of (trace, outcome)"""
    ndraws = L_DRAWS if ndraws is None else ndraws
    files, shards = [], []
    for k in range(0, len(items), per):
        shard = items[k:k + per]
        p = wd / f"{tag}_{k // per}.v"
        body = ";\n ".join(f"({T.s_coq(s)}, {glist(tbl, T.q)})" for s, tbl in shard)
        p.write_text(PRELUDE + EV_CODES.replace("NDRAWS", str(ndraws)) + intern_names(f"Definition cases : list (stmt * list name) := [\n {body}\n].\n") +
                     "Eval vm_compute in (List.concat (map (fun c => sep (behaviours (snd c) (fst c))) cases)).\n")
        files.append(p); shards.append(shard)
    results = common.run_case_files(files)
    out = []
    for p, shard in zip(files, shards):
        rc, txt = results[p]
        nums = common.parse_nat_list(txt) if rc == 0 else None
        if nums is None:
            raise RuntimeError(f"model evaluation failed for {p.name}: {txt[-1500:]}")
        pos = 0
        for s, tbl in shard:
            beh = set()
            while nums[pos] == 9:
                pos += 1
                outc = nums[pos]; pos += 1
                tr = []
                while nums[pos] not in (9, 10):
                    tr.append((nums[pos], nums[pos + 1])); pos += 2
                beh.add((outc, tuple(tr)))
            assert nums[pos] == 10
            pos += 1
            out.append(beh)
        assert pos == len(nums)
    return out


def encode_py(beh, tbl):
    idx = {n: i + 1 for i, n in enumerate(tbl)}
    out = set()
    for trace, outc in beh:
        tr = []
        for ev in trace:
            if ev[0] == "call":
                tr.append((4, 0) if ev[1] == "dyn" else (1, idx.get(ev[1], 0)))
            elif ev[0] == "meth":
                tr.append((3, idx.get(ev[2], 0)))
            elif ev[0] == "bind":
                tr.append((5, idx.get(ev[1], 0)))
            elif ev[0] == "storeattr":
                tr.append((6, 0))
            elif ev[0] == "storesub":
                tr.append((7, int(ev[1])))
        out.add(({"N": 0, "raise": 2}[outc], tuple(tr)))
    return out


def drop_lit_methods(beh):
    """calls of methods of literals cannot be observed from outside (real str/int methods)"""
    return {(o, tuple(e for e in tr if e[0] != 2)) for o, tr in beh}


def sem_ok(term) -> bool:
    """terms whose execution with stubs is meaningful: no yield/await, no walrus inside a comprehension,
    no literal receivers of attribute / subscript / call, callee names disjoint from locally bound names"""
    arg_ids = set()
    for n in T.walk(term):
        if n and n[0] == "call":
            arg_ids |= {id(a) for a in n[2]}
    for n in T.walk(term):
        if not n or not isinstance(n[0], str):
            continue
        if n[0] == "other" or n[0] == "otherstmt":
            return False
        if n[0] == "comp" and n[1] == "gen" and id(n) not in arg_ids:
            return False      # consumed lazily: the model evaluates a generator expression where it is created
        if n[0] == "seq" and any(x[0] == "star" for x in n[2]):
            return False      # a display with more than two items (iteration counts explored: 0..2)
        if n[0] in ("comp", "dictcomp"):
            for m in T.walk(n[1:]):
                if m and m[0] == "named":
                    return False
            bound = set()
            for tgt, _, _ in n[-1]:
                bound |= {tgt[1]} if tgt[0] == "name" else set(tgt[1])
            for m in T.walk(n[1:]):
                if m and m[0] == "call" and m[1][0] == "name" and m[1][1] in bound:
                    return False
                if m and m[0] == "call" and m[1][0] != "name":
                    for mm in T.walk(m[1]):
                        if mm and mm[0] == "name" and isinstance(mm[1], str) and mm[1] in bound:
                            return False
                if m and m[0] == "call" and any(a[0] == "name" and a[1] in bound for a in m[2]):
                    return False
        if n[0] in ("attr", "sub", "tattr", "tsub") and n[1][0] in ("const", "seq", "dict", "fstr", "comp", "dictcomp", "lambda"):
            return False
        if n[0] == "call" and n[1][0] in ("const", "seq", "dict", "fstr", "comp", "dictcomp", "lambda"):
            return False
        if n[0] == "call" and n[1][0] == "attr" and n[1][1][0] == "const":
            return False
        if n[0] == "def" and n[1] == "class" and (n[4] or any(s[0] in ("assign", "aug", "for", "def") for s in n[5])):
            return False
        if n[0] == "ctl" and n[1] != "raise":
            return False
        if n[0] == "def" and any(d[0] not in ("name", "attr", "call", "sub") for d in n[3]):
            return False      # which object such a decorator evaluates to depends on values
        if n[0] == "call" and n[1][0] not in ("name", "attr", "call", "sub"):
            return False      # which object such a callee evaluates to depends on values
        if n[0] == "call" and n[1][0] == "name" and n[1][1] in HO and any(
                a[0] in ("bool", "ifexp", "named", "star") for a in list(n[2]) + [v for _, v in n[3]]):
            return False      # which object reaches the higher-order builtin depends on values
        if n[0] in ("fstr", "fmt") and any(m and m[0] == "lambda" for m in T.walk(n)):
            return False      # the text of a formatted lambda contains an address
        if n[0] == "for" and n[2][0] == "fstr":
            return False      # iterating over the characters of a formatted string: more than two items
        if n[0] in ("comp", "dictcomp") and any(it[0] == "fstr" for _, it, _ in n[-1]):
            return False
        if n[0] in ("tsub", "tattr") and n[1][0] not in ("name", "attr", "call", "sub"):
            return False      # which object such a receiver evaluates to depends on values
        if n[0] == "def" and n[1] == "class" and any(m and m[0] == "named" for m in T.walk(n[5])):
            return False      # binds in the class namespace
        if n[0] == "while" and n[1][0] not in ("name", "call", "attr", "sub"):
            return False      # a test with a fixed truth value would not terminate
        if n[0] == "lambda" and n[1]:
            return False
        if n[0] == "seq" and n[1] == "set":
            return False
        if n[0] == "dict" and any(k is not None for k, _ in n[1]):
            pass
    return True


def model_draws(t, lpy) -> int:
    """upper bound on the number of oracle draws EffectModel.exec makes for the term when every iterable has
    at most two items (while loops: at most lpy iterations, each costs CPython a draw too)"""
    D = lambda x: model_draws(x, lpy)  # noqa
    k = t[0]
    if k in ("const", "name", "pass", "ctl", "otherstmt", "tname"):
        return 0
    if k in ("unary",):
        return D(t[2])
    if k == "bin":
        return D(t[2]) + D(t[3])
    if k == "cmp":
        return D(t[1]) + sum(D(r) for _, r in t[2]) + len(t[2]) - 1
    if k == "bool":
        return sum(D(v) for v in t[2]) + len(t[2]) - 1
    if k == "ifexp":
        return D(t[1]) + 1 + max(D(t[2]), D(t[3]))
    if k == "seq":
        return sum(D(x) for x in t[2])
    if k == "dict":
        return sum((0 if kk is None else D(kk)) + D(v) for kk, v in t[1])
    if k in ("attr", "tattr", "star", "tstar"):
        return D(t[1])
    if k in ("sub", "tsub"):
        return D(t[1]) + D(t[2])
    if k == "slice":
        return sum(D(x) for x in t[1:4] if x is not None)
    if k == "call":
        ho = 0
        if t[1][0] == "name" and t[1][1] in HO:
            ho = sum(1 for a in t[2] if a[0] == "name") + sum(1 for _, v in t[3] if v[0] == "name")
        return D(t[1]) + sum(D(a) for a in t[2]) + sum(D(v) for _, v in t[3]) + ho
    if k in ("comp", "dictcomp"):
        inner = D(t[2]) if k == "comp" else D(t[1]) + D(t[2])
        for _, it, ifs in reversed(t[-1]):
            inner = D(it) + 1 + 2 * (sum(D(c) + 1 for c in ifs) + inner)
        return inner
    if k == "fstr":
        return sum(D(p) for p in t[1])
    if k == "fmt":
        return D(t[1]) + (0 if t[2] is None else D(t[2]))
    if k == "lambda":
        return sum(D(d) for d in t[3])
    if k == "named":
        return D(t[2])
    if k == "other":
        return sum(D(x) for x in t[2])
    if k == "tseq":
        return sum(D(x) for x in t[1])
    B = lambda b: sum(D(s) for s in b)  # noqa
    if k == "expr":
        return D(t[1])
    if k == "assign":
        return D(t[2]) + sum(D(x) for x in t[1])
    if k == "aug":
        return D(t[1]) + D(t[2])
    if k == "if":
        return D(t[1]) + 1 + max(B(t[2]), B(t[3]))
    if k == "for":
        return D(t[2]) + 1 + 2 * (D(t[1]) + B(t[3])) + B(t[4])
    if k == "while":
        return (lpy + 1) * (D(t[1]) + 1 + B(t[2])) + B(t[3])
    if k == "with":
        return D(t[1]) + B(t[2])
    if k == "def":
        return sum(D(x) for x in t[3]) + sum(D(x) for x in t[4]) + B(t[5])
    raise ValueError(t)


HO = ["map", "filter", "sorted", "min", "max", "iter", "__build_class__"]
# whitelisted builtins that run an iterator they are handed (F16-15 / F01-51)
CONSUMERS = ["list", "tuple", "set", "frozenset", "dict", "sorted", "sum", "min", "max", "any", "all", "bytes",
             "bytearray", "enumerate", "zip", "reversed", "len", "str", "repr"]


def check_semantics(run, mods, wd, rnd, cov):
    global L_DRAWS
    L_DRAWS = 4 if run.tier == "quick" else 5
    sctx = stmt_contexts()
    ctx = contexts()
    terms = []
    for c in sctx:
        for h in INTERESTING:
            terms.append(c(h))
    for c in ctx:
        for h in (INTERESTING[::4] if run.tier == "quick" else INTERESTING):
            terms.append(("expr", c(h)))
    n_exh = len(terms)
    # CPython does not change with the repository: the random part is a fixed corpus (seed-independent)
    rnd = random.Random(16016)
    for _ in range(300 if run.tier == "quick" else 6000):
        terms.append(rand_stmt(rnd, rnd.choice([1, 1, 2])))
    items, pys = [], []
    skipped, over_budget = 0, 0
    for t in terms:
        if not sem_ok(t):
            skipped += 1
            continue
        need = model_draws(t, L_DRAWS)
        if need > L_DRAWS + 2:
            over_budget += 1      # the model's behaviours cannot be enumerated completely within the budget
            continue
        src = T.s_src(t)
        names = sorted(T.names_in(t) | {"x", "y"})
        r = explore_src(src, names, HO)
        if r is None or not r[0]:
            skipped += 1
            continue
        beh, runs, partial, _ = r
        items.append((t, names, need))
        pys.append((src, encode_py(beh, names), runs, partial))
    # CPython does not draw for a test / iterable whose value is a literal, the model always does: the model is
    # given enough draws for every path of the term (static bound), in two budget classes
    small = [i for i, it in enumerate(items) if it[2] <= L_DRAWS]
    large = [i for i, it in enumerate(items) if it[2] > L_DRAWS]
    model = [None] * len(items)
    for idxs, nd, tag, per in ((small, L_DRAWS, "sem", 120), (large, L_DRAWS + 2, "semL", 12)):
        res = model_behaviours(wd, tag, [(items[i][0], items[i][1]) for i in idxs], per=per, ndraws=nd)
        for i, r in zip(idxs, res):
            model[i] = r
    bad, imprecise, n_runs = [], 0, 0
    for (t, names, need), (src, pbeh, runs, partial), mbeh in zip(items, pys, model):
        n_runs += runs
        mbeh2 = drop_lit_methods(mbeh)
        extra = pbeh - mbeh2
        if extra:
            bad.append({"case": src, "observed_not_in_model": sorted(extra)[:3], "model": sorted(mbeh2)[:6]})
        if not partial and mbeh2 - pbeh:
            imprecise += 1
    cov.update(semantics_cases=len(items), semantics_skipped=skipped, semantics_exhaustive_part=n_exh,
               semantics_cpython_runs=n_runs, semantics_violations=len(bad), semantics_model_only_behaviours=imprecise,
               semantics_over_budget=over_budget, semantics_large_budget_cases=len(large))
    return bad


# ---------------------------------------------------------------------------------------------
# 4. end-to-end oracle through delete_pointless_statements


def observable(beh, safe):
    """what an observer sees: calls of callables that are not declared safe, bindings other than `_`,
    stores, and how the program ended"""
    out = set()
    for trace, outc in beh:
        tr = tuple(e for e in trace
                   if not (e[0] == "call" and e[1] in safe) and not (e[0] == "bind" and e[1] == "_")
                   and not (e[0] == "storesub" and e[1]))
        out.add((tr, outc))
    return out


def call_sigs(node) -> set:
    """the syntactic ways in which EffectModel.plain can fail, in one tree"""
    sigs = set()
    for n in ast.walk(node):
        if isinstance(n, ast.Call):
            f = n.func
            if isinstance(f, ast.Name) and f.id == "_":
                sigs.add("callee_by_name")
            if isinstance(f, ast.Attribute) and not isinstance(f.value, ast.Constant):
                sigs.add("callee_by_name")
            if not isinstance(f, (ast.Name, ast.Attribute)):
                sigs.add("callee_by_name")
            if isinstance(f, ast.Name) and f.id in HO and any(
                    isinstance(a, ast.Name) for a in list(n.args) + [k.value for k in n.keywords]):
                sigs.add("higher_order_builtin")
            if isinstance(f, ast.Name) and f.id in CONSUMERS and any(isinstance(a, ast.Name) for a in n.args):
                sigs.add("drains_lazy_iterator")
    return sigs


NONLIT = (ast.Name, ast.Attribute, ast.Subscript)   # an operand whose type the tool cannot know
DISPATCHING = {"str", "repr", "len", "hash", "getattr", "hasattr", "int", "float", "bool", "format", "type", "iter",
               "abs", "dir", "vars", "callable", "isinstance", "id", "bytes", "complex", "round", "divmod", "pow",
               "ascii", "bin", "hex", "oct", "issubclass", "reversed", "enumerate", "zip", "range", "slice"}


def dispatch_sigs(roots) -> set:
    """F16-16 / F16-17: the deleted statements call nothing but builtins, and apply an operator / attribute read /
    subscript / formatting / truth test (operator_dispatch) or a builtin that dispatches to a dunder method
    (builtin_dispatch) to an operand that is a name / attribute / subscript.  A deleted statement that calls anything
    else is never covered by these two."""
    import builtins
    nodes = [n for r in roots for n in ast.walk(r)]
    for n in nodes:
        if isinstance(n, ast.Call) and not (isinstance(n.func, ast.Name) and hasattr(builtins, n.func.id)):
            return set()
    sigs = set()
    for n in nodes:
        ops = []
        if isinstance(n, ast.BinOp):
            ops = [n.left, n.right]
        elif isinstance(n, ast.UnaryOp):
            ops = [n.operand]
        elif isinstance(n, ast.Compare):
            ops = [n.left, *n.comparators]
        elif isinstance(n, (ast.Attribute, ast.Subscript, ast.Starred)) and isinstance(n.ctx, ast.Load):
            ops = [n.value]
        elif isinstance(n, ast.FormattedValue):
            ops = [n.value]
        elif isinstance(n, ast.BoolOp):
            ops = n.values[:-1]
        elif isinstance(n, (ast.IfExp, ast.If)):
            ops = [n.test]
        elif isinstance(n, ast.Dict):
            ops = [v for k, v in zip(n.keys, n.values) if k is None]
        if any(isinstance(o, NONLIT) for o in ops):
            sigs.add("operator_dispatch")
        if (isinstance(n, ast.Call) and isinstance(n.func, ast.Name) and n.func.id in DISPATCHING
                and any(isinstance(a, NONLIT) for a in n.args)):
            sigs.add("builtin_dispatch")
    return sigs


def finding_sig(src_before, deleted=None):
    """structural predicates of the listed findings.  F16-12 (callee_by_name) also covers callees that cannot be
    resolved by their bare name: a name with several definitions, an imported name, a decorated definition, a
    class with base classes / keywords.  Evaluated on the statements under test ([deleted], default: all) and on
    the definitions they reach through plain-name calls."""
    tree = ast.parse(src_before)
    defs = {}
    imported = set()
    for n in ast.walk(tree):
        if isinstance(n, (ast.FunctionDef, ast.AsyncFunctionDef, ast.ClassDef)):
            defs.setdefault(n.name, []).append(n)
        elif isinstance(n, (ast.Import, ast.ImportFrom)):
            imported |= {(a.asname or a.name).split(".")[0] for a in n.names}
    suspect = set(imported)
    for name, ds in defs.items():
        if len(ds) > 1:
            suspect.add(name)
        for d in ds:
            if d.decorator_list or (isinstance(d, ast.ClassDef) and (d.bases or d.keywords)):
                suspect.add(name)
    roots = list(tree.body) if deleted is None else list(deleted)
    # F16-21 / F16-22 never cover a statement under the protection of an except clause (there the raise is the point:
    # repaired defect F16-16) nor one that touches `_` while `_` is read (repaired defect F16-17)
    guarded = set()
    for t in ast.walk(tree):
        if isinstance(t, ast.Try) and t.handlers:
            for b in t.body:
                guarded |= {(n.lineno, n.col_offset) for n in ast.walk(b) if isinstance(n, ast.stmt)}
    us_read = underscore_is_read(tree)

    def dispatch_root(r):
        if (getattr(r, "lineno", None), getattr(r, "col_offset", None)) in guarded:
            return False
        return not (us_read and any(isinstance(n, ast.Name) and n.id == "_" for n in ast.walk(r)))
    sigs, seen, todo = dispatch_sigs([r for r in roots if dispatch_root(r)]), set(), list(roots)
    while todo:
        node = todo.pop()
        sigs |= call_sigs(node)
        for n in ast.walk(node):
            if isinstance(n, ast.Call) and isinstance(n.func, ast.Name):
                nm = n.func.id
                if nm in suspect:
                    sigs.add("callee_by_name")
                if nm in defs and nm not in seen:
                    seen.add(nm)
                    todo += defs[nm]
    return sigs


def check_end_to_end(run, mods, wd, rnd, cov):
    fixes, constants, core = mods["fixes"], mods["constants"], mods["core"]
    SAFE = frozenset(constants.SAFE_CALLABLES)
    sctx = stmt_contexts()
    terms = []
    for c in sctx:
        for h in INTERESTING:
            terms.append(c(h))
    step = 1 if run.tier == "thorough" else 2
    terms = [t for i, t in enumerate(terms) if sem_ok(t)][::step]
    fails, known, n_changed, n_cases, n_error = [], Counter(), 0, 0, 0
    for t in terms:
        src = T.s_src(t) + "after()\n"
        core.parse.cache_clear()
        with common.quiet():
            try:
                out = fixes.delete_pointless_statements(src)
            except Exception as exc:  # noqa
                fails.append({"case": src, "problem": f"delete_pointless_statements raised {type(exc).__name__}: {exc}"})
                continue
        n_cases += 1
        if out == src:
            continue
        n_changed += 1
        names = sorted(T.names_in(t) | {"x", "y", "after"})
        b1 = explore_src(src, names, HO)
        b2 = explore_src(out, names, HO)
        if b1 is None or b2 is None:
            fails.append({"case": src, "after": out, "problem": "output does not compile"})
            continue
        if b1[3] or not b1[0]:
            n_error += 1      # evaluating the statement raises (TypeError ...): outside the property
            continue
        o1, o2 = observable(b1[0], SAFE), observable(b2[0], SAFE)
        if o1 != o2:
            sigs = finding_sig(T.s_src(t))
            rec = {"case": src, "after": out, "only_before": sorted(map(repr, o1 - o2))[:3],
                   "only_after": sorted(map(repr, o2 - o1))[:3], "sigs": sorted(sigs)}
            if sigs:
                for s in sigs:
                    known[s] += 1
                rec["matched"] = True
            fails.append(rec)
    cov.update(e2e_cases=n_cases, e2e_rewritten=n_changed, e2e_failures=len([f for f in fails if not f.get("matched")]),
               e2e_known=dict(known), e2e_skipped_evaluation_error=n_error)
    return fails


def search_failing_input(mods, src, raisers=(), unbound=()):
    """the property's own oracle on one source text: run delete_pointless_statements, execute before / after
    (defined functions really run) under every script; returns a record when the observable behaviours differ"""
    fixes, constants, core = mods["fixes"], mods["constants"], mods["core"]
    SAFE = frozenset(constants.SAFE_CALLABLES)
    if not src.endswith("\n"):
        src += "\n"
    src = src + "after()\n"
    core.parse.cache_clear()
    with common.quiet():
        try:
            out = fixes.delete_pointless_statements(src)
            deleted = [n for n, _ in fixes.delete_pointless_statements._fix_func(src)]
        except Exception:  # noqa
            return None
    if out == src:
        return None
    try:
        names = sorted({n.id for n in ast.walk(ast.parse(src)) if isinstance(n, ast.Name)} | {"after"})
    except SyntaxError:
        return None
    global L_DRAWS
    saved, L_DRAWS = L_DRAWS, 4
    try:
        b1 = explore_src(src, names, HO, real=True, raisers=raisers, unbound=unbound)
        b2 = explore_src(out, names, HO, real=True, raisers=raisers, unbound=unbound)
    finally:
        L_DRAWS = saved
    if b1 is None or b2 is None or not b1[0]:
        return None
    o1, o2 = observable(b1[0], SAFE), observable(b2[0], SAFE)
    if o1 != o2:
        return {"case": src, "after": out, "only_before": sorted(map(repr, o1 - o2))[:3],
                "only_after": sorted(map(repr, o2 - o1))[:3], "sigs": sorted(finding_sig(src, deleted))}
    return None


def check_class_family(run, mods, cov):
    """deterministic sweep: every module of the class family through delete_pointless_statements, executed
    before / after (the classes and functions really run)"""
    fails, known, n, n_del = [], Counter(), 0, 0
    for src in class_family(run):
        n += 1
        r = search_failing_input(mods, src)
        if r is None:
            continue
        n_del += 1
        if r["sigs"]:
            for s in r["sigs"]:
                known[s] += 1
            r["matched"] = True
        fails.append(r)
    cov.update(class_family_modules=n, class_family_behaviour_changed=n_del, class_family_known=dict(known),
               class_family_failures=len([f for f in fails if not f.get("matched")]))
    return fails


# ---------------------------------------------------------------------------------------------
# hunt families (round 4): programs in which the statement under test matters for a reason the single-statement
# contexts above cannot show -- it may raise inside a `try` body, it binds `_` and `_` is read later, its operands
# are user objects with dunder methods, it iterates an unknown iterable, it instantiates a class with bases, its
# callee name is shadowed.  Every program goes through delete_pointless_statements and is executed before / after.

TRY_PROBES = ["unicode", "d[k]", "d.attr", "int(s)", "a + b", "-a", "a < b", "f'{a}'", "d[k][j]", "len(d)",
              "(d[k], 1)", "d[k] if c else 1", "[x for x in d]", "d[k]\n{i}d.attr", "1", "'text'", "pass", "None",
              "if c:\n{i}    d[k]", "for _ in d:\n{i}    pass", "if c:\n{i}    1\n{i}else:\n{i}    int(s)"]
TRY_SHAPES = [
    ("handlers", "try:\n    {p}\nexcept E:\n    handled()\n", "    "),
    ("handlers_else", "try:\n    {p}\nexcept E:\n    handled()\nelse:\n    fine()\n", "    "),
    ("handlers_finally", "try:\n    {p}\nexcept E:\n    handled()\nfinally:\n    cleanup()\n", "    "),
    ("in_function", "def f():\n    try:\n        {p}\n    except E:\n        return handled()\n    return fine()\nf()\n", "        "),
    ("nested_with", "try:\n    with cm:\n        {p}\nexcept E:\n    handled()\n", "        "),
    ("nested_try", "try:\n    try:\n        {p}\n    finally:\n        cleanup()\nexcept E:\n    handled()\n", "        "),
    ("second_statement", "try:\n    start()\n    {p}\nexcept E:\n    handled()\n", "    "),
    ("loop_in_try", "try:\n    for i in [1, 2]:\n        {p}\nexcept E:\n    handled()\n", "        "),
]
TRY_RAISERS = ("d", "s", "a", "b", "int")
TRY_UNBOUND = ("unicode",)

UNDERSCORE_PROGRAMS = [
    "_ = gettext.gettext\nuse(_('hi'))\n", "_ = 5\nuse(_)\n", "def _(s):\n    return s\nuse(_('hi'))\n",
    "for _ in [1, 2]:\n    pass\nuse(_)\n", "_ = {}\n_['a'] = 1\nuse(_['a'])\n", "class _:\n    v = 3\nuse(_.v)\n",
    "(_ := 7)\nuse(_)\n", "_ = 1\n_ += 1\nuse(_)\n", "def f():\n    global _\n    _ = 1\nf()\nuse(_)\n",
    "if c:\n    _ = 1\nelse:\n    _ = 2\nuse(_)\n", "_, x = 1, 2\nuse(_, x)\n",
    "def g():\n    _ = 3\n    return _\nuse(g())\n",
    # controls: `_` never read
    "_ = 5\nuse(1)\n", "for _ in [1, 2]:\n    pass\nuse(1)\n", "def _(s):\n    return s\nuse(1)\n",
]
CLASS_US_PROGRAMS = [
    "class Base:\n    def __init_subclass__(cls):\n        print('reg')\nclass _(Base):\n    pass\n",
    "class Base:\n    def __init_subclass__(cls, **kw):\n        print('reg')\nclass _(Base, flag=True):\n    pass\n",
    "class Meta(type):\n    def __new__(m, n, b, ns):\n        print('meta')\n        return type.__new__(m, n, b, ns)\nclass _(metaclass=Meta):\n    pass\n",
    "class _(object):\n    pass\n", "class _:\n    pass\n",
]
DUNDER_PRELUDE = ("class T:\n    def __rshift__(self, o):\n        print('rshift')\n    def __neg__(self):\n        print('neg')\n"
                  "    def __lt__(self, o):\n        print('lt')\n        return True\n    def __getitem__(self, i):\n        print('getitem')\n"
                  "    def __format__(self, s):\n        print('format')\n        return ''\n    def __bool__(self):\n        print('bool')\n        return True\n"
                  "    def __str__(self):\n        print('str')\n        return ''\n    def __len__(self):\n        print('len')\n        return 0\n"
                  "    def __hash__(self):\n        print('hash')\n        return 0\n    def __getattr__(self, n):\n        print('getattr')\n"
                  "    def __iter__(self):\n        print('iter')\n        return iter(())\n    def keys(self):\n        print('keys')\n        return []\n"
                  "    @property\n    def p(self):\n        print('prop')\nt = T()\nu = T()\n")
DUNDER_STATEMENTS = ["t >> u", "-t", "t < u", "t[0]", "f'{t}'", "if t:\n    pass", "t.p", "t.zz", "{**t}", "t and 1", "1 if t else 2",
                     "not t", "[*t]", "t >> 1", "(t, -t)"]
BUILTIN_DUNDER_STATEMENTS = ["str(t)", "getattr(t, 'zz')", "len(t)", "hash(t)", "bool(t)", "repr(t)", "format(t)", "hasattr(t, 'q')",
                             "list(t)", "sorted(t)"]
ITER_PRELUDE = "def gen():\n    print('advanced')\n    yield 1\nit = gen()\n"
ITER_STATEMENTS = ["for _ in it:\n    pass", "[x for x in it]", "[*it]", "{x for x in it}", "{x: 1 for x in it}",
                   "[0 for _ in [1] for y in it]", "[x for x in [1, 2]]", "for _ in range(3):\n    pass", "for _ in [1, 2]:\n    pass",
                   "[x for x in enumerate(it)]", "for _ in zip(it, [1]):\n    pass", "len([x for x in it])"]
SHADOW_PROGRAMS = [
    "class A:\n    def __init__(self):\n        print('hi')\nclass B(A):\n    pass\nB()\n",
    "class Meta(type):\n    def __call__(cls):\n        print('call')\nclass C(metaclass=Meta):\n    pass\nC()\n",
    "def cb():\n    return 1\ndef run(cb):\n    cb()\nrun(lambda: print('hi'))\n",
    "class A:\n    def show(self):\n        return 1\ndef show():\n    print('shown')\nshow()\n",
    "def f():\n    return 1\ndef g(f=print):\n    f()\ng()\n",
    "def f():\n    return 1\nwith cm as f:\n    f()\n",
    "def f():\n    return 1\ntry:\n    pass\nexcept E as f:\n    f()\n",
    "def f():\n    return 1\nfor f in [print]:\n    f()\n",
    "def f():\n    return 1\nimport os as f\nf.getcwd()\n",
    "def f():\n    return 1\nf()\n",
]


def hunt_family():
    """(tag, hunt item, source, raisers, unbound)"""
    out = []
    for tag, shape, ind in TRY_SHAPES:
        for p in TRY_PROBES:
            out.append((f"try/{tag}", "C16-3", shape.replace("{p}", p.replace("{i}", ind)), TRY_RAISERS, TRY_UNBOUND))
    # the same probes where no handler can see the exception: else / finally / handler bodies, plain function
    for p in TRY_PROBES[:8]:
        out.append(("try/else_clause", "C16-3", f"try:\n    start()\nexcept E:\n    handled()\nelse:\n    {p}\n", (), ()))
        out.append(("try/no_handlers", "C16-3", f"try:\n    {p}\nfinally:\n    cleanup()\n", (), ()))
    for src in UNDERSCORE_PROGRAMS:
        out.append(("underscore", "C16-4", src, (), ()))
    for src in CLASS_US_PROGRAMS:
        out.append(("class_underscore", "C16-5", src, (), ()))
    for s in DUNDER_STATEMENTS:
        out.append(("dunder", "C16-6", DUNDER_PRELUDE + s + "\n", (), ()))
    for s in BUILTIN_DUNDER_STATEMENTS:
        out.append(("builtin_dunder", "C16-7", DUNDER_PRELUDE + s + "\n", (), ()))
    for s in ITER_STATEMENTS:
        out.append(("iteration", "C16-8", ITER_PRELUDE + s + "\n", (), ()))
    for src in SHADOW_PROGRAMS:
        out.append(("shadowed", "C01-a-6/7", src, (), ()))
    return out


def check_hunt_family(run, mods, cov):
    fails, known, n, n_changed = [], Counter(), 0, 0
    per_tag = Counter()
    for tag, item, src, raisers, unbound in hunt_family():
        n += 1
        r = search_failing_input(mods, src, raisers, unbound)
        if r is None:
            continue
        n_changed += 1
        per_tag[tag.split("/")[0]] += 1
        r["family"], r["hunt"] = tag, item
        if r["sigs"]:
            for s in r["sigs"]:
                known[s] += 1
            r["matched"] = True
        fails.append(r)
    cov.update(hunt_family_programs=n, hunt_family_behaviour_changed=n_changed, hunt_family_known=dict(known),
               hunt_family_changed_by_family=dict(per_tag),
               hunt_family_failures=len([f for f in fails if not f.get("matched")]))
    return fails


# ---------------------------------------------------------------------------------------------
# witnesses of the repaired defects (must pass) and of the listed findings (must still fail)

FIXED_WITNESSES = {
    "F16-5": ["[print(x) for x in y]\n", "{print(x): 1 for x in y}\n", "{print(x) for x in y}\n",
              "list(print(x) for x in y)\n"],
    "F16-6": ["for _ in range(2):\n    pass\nelse:\n    print('x')\n"],
    "F16-7": ["next(it)\n", "anext(it)\n", "help(x)\n", "license()\n", "copyright()\n", "credits()\n"],
    "F16-8": ["x[1:2:print(3)]\n"],
    "F16-9": ["''.join(join(x))\n"],
    "F16-10": ["def _(x=print(1)):\n    pass\n", "@print\ndef _():\n    pass\n", "class _:\n    print(1)\n",
               "class _(print(1)):\n    pass\n"],
    "F16-11": ["def f():\n    raise E\nf()\n", "def f():\n    while True:\n        print(1)\nf()\n",
               "def f():\n    assert False\nf()\n"],
}
FIXED_WITNESSES.update({
    # F16-12 (callees identified by a bare name), repaired by f4da292 and 88da62a
    "F16-12": ["_()\n",
               "class A:\n    def f(self):\n        return 1\nclass B:\n    def f(self):\n        print('x')\nB().f()\n",
               "from m import f\nclass A:\n    def f(self):\n        return 1\nf()\n",
               "class A(Base):\n    pass\nA()\n", "@deco\ndef f():\n    return 1\nf()\n",
               "def cb():\n    return 1\ndef run(cb):\n    cb()\n", "def f():\n    return 1\ndef g(f=print):\n    f()\n"],
})
# hunt C16-3 (bd1824c), C16-4 (88da62a), C16-5 (c7c30bf), C16-8 (ace0735): delete_pointless_statements must not touch them
UNCHANGED_WITNESSES = {}
UNCHANGED_WITNESSES.update({
    "F16-16": ["try:\n    unicode\nexcept NameError:\n    unicode = str\n", "try:\n    int(s)\nexcept ValueError:\n    print('bad')\n",
              "try:\n    d['k']\nexcept KeyError:\n    print('missing')\n",
              "try:\n    if x:\n        d['k']\nexcept KeyError:\n    print('missing')\n"],
    "F16-17": ["print(_)\n_ = 5\n", "print(_('hi'))\ndef _(s):\n    return s\n", "print(_)\nfor _ in range(3):\n    pass\n",
              "_ = {}\nprint(_)\n_['a'] = 1\n", "def k():\n    global _\n_ = 1\n"],
    "F16-18": ["class _(Base):\n    pass\n", "class _(B, flag=True):\n    pass\n", "class _(metaclass=M):\n    pass\n"],
    "F16-19": ["for _ in it:\n    pass\n", "[x for x in it]\n", "[*it]\n", "{x: 1 for x in it}\n", "[0 for _ in [1] for y in it]\n"],
})
FINDING_WITNESSES = {
    "operator_dispatch": ["t >> u\n", "-t\n", "t < u\n", "t[0]\n", "t.p\n", "f'{t}'\n", "if t:\n    pass\n", "{**t}\n"],
    "builtin_dispatch": ["str(t)\n", "getattr(t, 'zz')\n", "len(t)\n", "hash(t)\n"],
    "higher_order_builtin": ["list(map(print, xs))\n", "sorted(xs, key=print)\n"],
    "drains_lazy_iterator": ["m = map(lambda x: print('lazy', x), xs)\nlist(m)\n",
                             "g = (print(x) for x in xs)\nsum(g)\n"],
}


def still_deleted(mods, src) -> bool:
    mods["core"].parse.cache_clear()
    with common.quiet():
        out = mods["fixes"].delete_pointless_statements(src)
    last = src.rstrip("\n").split("\n")[-1]
    return last not in out.split("\n")


# ---------------------------------------------------------------------------------------------


def check(run, mods, wd, rnd):
    import time
    cov = {}
    t0 = time.time()
    d1, samples1 = check_hse(run, mods, wd, rnd, cov)
    t1 = time.time()
    d2, samples2 = check_modules(run, mods, wd, rnd, cov)
    t2 = time.time()
    sem_bad = check_semantics(run, mods, wd, rnd, cov)
    t3 = time.time()
    e2e = check_end_to_end(run, mods, wd, rnd, cov)
    e2e += check_class_family(run, mods, cov)
    e2e += check_hunt_family(run, mods, cov)
    t4 = time.time()
    cov["stage_wall_s"] = {"hse": round(t1 - t0, 1), "modules": round(t2 - t1, 1), "semantics": round(t3 - t2, 1),
                           "end_to_end": round(t4 - t3, 1)}

    # repaired defects: the witnesses must be kept
    regress = []
    for fid, ws in FIXED_WITNESSES.items():
        for w in ws:
            if still_deleted(mods, w):
                regress.append({"finding": fid, "case": w})
    for fid, ws in UNCHANGED_WITNESSES.items():
        for w in ws:
            mods["core"].parse.cache_clear()
            with common.quiet():
                out = mods["fixes"].delete_pointless_statements(w)
            if out != w:
                regress.append({"finding": fid, "case": w, "after": out})
    cov["fixed_witnesses"] = sum(len(v) for v in FIXED_WITNESSES.values()) + sum(len(v) for v in UNCHANGED_WITNESSES.values())

    # listed findings
    kf = {f.fields.get("sig"): f for f in common.load_findings(PID) if f.kind == "finding"}
    unlisted = []
    for sig, ws in FINDING_WITNESSES.items():
        hit = [w for w in ws if still_deleted(mods, w)]
        f = kf.get(sig)
        if hit and f:
            run.known_finding(f.id, f"{f.text} [{len(hit)}/{len(ws)} witnesses still deleted, e.g. {hit[0]!r}]")
        elif hit:
            unlisted += [{"case": w, "sig": sig} for w in hit]
        elif f:
            common.log(f"note: known finding {f.id} no longer reproduces")
    e2e_fail = [f for f in e2e if not (f.get("matched") and all(s in kf for s in f["sigs"]))]

    # ---- verdicts
    real_fail = regress + unlisted + e2e_fail
    for r in regress[:4]:
        run.violation({"kind": "property-oracle", "site": "fixes.delete_pointless_statements", **r,
                       "explanation": "a statement with an observable effect is deleted (witness of a repaired defect)"}, True)
    for r in unlisted[:3]:
        run.violation({"kind": "property-oracle", "site": "fixes.delete_pointless_statements", **r,
                       "explanation": "a statement with an observable effect is deleted; not a listed finding"}, True)
    for r in e2e_fail[:4]:
        run.violation({"kind": "property-oracle", "site": "fixes.delete_pointless_statements", **r,
                       "explanation": "executing the program before and after delete_pointless_statements under every "
                                      "script of the unknowns gives different observable behaviours"}, True)
    if not real_fail and (d1 or d2):
        # failing-input search: the property's oracle on the disagreeing cases themselves
        found = []
        for d in (d1 + d2)[:60]:
            if "case" in d and not d.get("problem"):
                r = search_failing_input(mods, d["case"])
                if r and not (r["sigs"] and all(s in kf for s in r["sigs"])):
                    found.append({**r, "disagreement": {k: d[k] for k in d if k != "case"}})
                    if len(found) >= 3:
                        break
        for r in found:
            run.violation({"kind": "property-oracle", "site": "fixes.delete_pointless_statements", **r,
                           "explanation": "found from a model/implementation disagreement: the program behaves "
                                          "differently after delete_pointless_statements"}, True)
        if not found:
            for d in (d1 + d2)[:5]:
                run.violation({"kind": "correspondence", "kernel": "K5 EffectModel", **d,
                               "explanation": "model and implementation disagree; the end-to-end oracle found no "
                                              "failing input among its cases or from the disagreeing cases"}, False)
    for sb in sem_bad[:3]:
        run.violation({"kind": "semantics-validation", "kernel": "K5 EffectModel.eval/exec", **sb,
                       "explanation": "CPython exhibits a behaviour the reference semantics excludes"}, False)
    cov["samples"] = samples1 + samples2
    run.coverage["effects"] = cov
    return cov
