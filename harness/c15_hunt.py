"""C15 -- families added in round 4 (hunt reports C15-0..6, C01-a-5, C01-b-10, C06-0..2, seed C15-a).
Everything here is input generation; the oracles are those of harness/c15.py (before/after execution of the
program in a forked worker; literal_value vs CPython eval; literal_value across interpreter processes)."""
from __future__ import annotations

import itertools

PRELUDE_F = "def f():\n    print('f')\n    return 7\n\n\n"

# ---- minimal witnesses of the hunt items (run first; they must pass once the item is repaired) ----------------
WITNESSES = [
    # (hunt id, rule, program)
    ("C15-0", "format_code", "def len(x):\n    return 0\nif len('abc'):\n    print('T')\nelse:\n    print('F')\n"),
    ("C15-0", "remove_dead_ifs", "int = lambda x: 0\nif int(5):\n    print('T')\nelse:\n    print('F')\n"),
    ("C15-0", "remove_dead_ifs", "def g(len):\n    if len('abc'):\n        return 1\n    return 2\nprint(g(lambda x: 0))\n"),
    ("C01-b-10", "remove_dead_ifs", "def bool(x):\n    return 7\nprint(1 if bool(0) else 2)\n"),
    ("C15-1", "delete_unreachable_code", "def g():\n    for x in 5:\n        return 1\nprint(1)\n"),
    ("C15-1", "format_code", "def g():\n    for x in 5:\n        return 1\nprint(1)\n"),
    ("C15-2", "simplify_boolean_expressions",
     "print(object() == object())\nprint(-float('nan') == -float('nan'))\nprint(ValueError('a') == ValueError('a'))\n"),
    ("C15-2", "simplify_boolean_expressions", "x = float('nan')\nprint(1 if 1 / 0 == 1 / 0 else 2)\n"),
    ("C15-3", "format_code", "it = iter([1, 0])\nif next(it) and not next(it):\n    print('T')\nelse:\n    print('F')\n"),
    ("C15-3", "simplify_boolean_expressions",
     "def p(v):\n    print('p', v)\n    return v\nif p(0) or p(0):\n    print('T')\nelse:\n    print('F')\n"),
    ("C15-4", "remove_dead_ifs", "def p(v):\n    print('p', v)\n    return v\nprint([i for i in range(2) if p(i) if 0])\n"),
    ("C15-4", "remove_dead_ifs",
     "def p(v):\n    print('p', v)\n    return v\nprint([i for i in range(2) if p(i) for j in range(2) if 0])\n"),
    ("C15-6", "simplify_boolean_expressions", "if 1 / 0 or True:\n    print('T')\n"),
    ("C15-6", "simplify_boolean_expressions", "if (3 < '1') and 0:\n    print('T')\nprint(3)\n"),
    ("C15-6", "format_code", "try:\n    if 1 / 0 or True:\n        print('T')\nexcept ZeroDivisionError:\n    print('ZDE')\n"),
    ("F15-11", "simplify_boolean_expressions", PRELUDE_F + "if f() and 0:\n    print(1)\nprint(3)\n"),
    # round 5: a call of a rebound name reached ast.literal_eval, which reads set() as the empty set (F15-22)
    ("F15-22", "remove_dead_ifs", "def set(*a):\n    return 1\nif set():\n    print('T')\nelse:\n    print('F')\n"),
    ("F15-22", "format_code", "from operator import not_ as set\nprint(1 if not set() else 2)\n"),
]

RULES_COND = ["remove_dead_ifs", "delete_unreachable_code", "remove_redundant_boolop_values",
              "simplify_boolean_expressions", "format_code"]


def rebound_builtin_programs():
    """every evaluated builtin x every way a program can rebind the name x condition shapes: the user's function
    returns a value of the OPPOSITE truth value (C15-0, C01-a-5, C01-b-10)"""
    calls = [("len", "'abc'", True), ("len", "''", False), ("bool", "1", True), ("bool", "0", False),
             ("int", "'5'", True), ("str", "''", False), ("abs", "0", False), ("sum", "(1, 2)", True),
             ("min", "(1, 2)", True), ("max", "(0, 0)", False), ("all", "(1, 0)", False), ("any", "(1, 0)", True),
             ("sorted", "()", False), ("tuple", "'a'", True), ("list", "()", False), ("round", "1", True),
             ("float", "'0'", False), ("repr", "1", True)]
    for name, arg, truth in calls:
        ret = "0" if truth else "1"
        call = f"{name}({arg})"
        bindings = {
            "def": f"def {name}(*a):\n    return {ret}\n",
            "lambda": f"{name} = lambda *a: {ret}\n",
            "import": f"from operator import not_ as {name}\n",     # not_('abc') is False, not_(0) is True
            "global": f"def _set():\n    global {name}\n    {name} = lambda *a: {ret}\n_set()\n",
        }
        for how, pre in bindings.items():
            yield how, pre + f"if {call}:\n    print('T')\nelse:\n    print('F')\n"
            yield how, pre + f"print(1 if {call} else 2)\n"
            yield how, pre + PRELUDE_F + f"print({call} and f())\n"
            yield how, pre + f"while {call}:\n    print('T')\n    break\nprint(3)\n"
        yield "param", (f"def g({name}):\n    if {call}:\n        return 'T'\n    return 'F'\n"
                        f"print(g(lambda *a: {ret}))\n")
        yield "class", (f"class K:\n    def {name}(*a):\n        return {ret}\n    if {call}:\n        v = 'T'\n"
                        f"    else:\n        v = 'F'\nprint(K.v)\n")


RAISING = ["1 / 0", "1 + 'a'", "[][0]", "3 < '1'", "{}[1]", "int('a')", "(1).nosuchattr", "1 % 0"]
CONSTS = ["True", "False", "0", "1", "'a'", "''", "None"]


def raising_operand_programs():
    """a raising literal sub-term in every operand position of and / or / comparisons, next to every constant
    (C15-6, C15-2 `1/0 == 1/0`), in truth context and in value context"""
    for r in RAISING:
        for c in CONSTS:
            for op in ("and", "or"):
                exprs = [f"({r}) {op} {c}", f"{c} {op} ({r})", f"({r}) {op} {c} {op} x0", f"x0 {op} ({r}) {op} {c}",
                         f"not (({r}) {op} {c})"]
                for e in exprs:
                    yield f"x0 = 1\nif {e}:\n    print('T')\nelse:\n    print('F')\n"
                    yield f"x0 = 1\nprint({e})\n"
        for cmp in ("==", "!=", "<", "<=", "is", "in"):
            yield f"print(({r}) {cmp} ({r}))\n"
            yield f"if ({r}) {cmp} ({r}):\n    print('T')\nelse:\n    print('F')\n"
            yield f"print(1 {cmp} ({r}) {cmp} 2)\n"
        yield f"print([i for i in (1, 2) if ({r}) or True])\n"
        yield f"while ({r}) and 0:\n    print('T')\n    break\nprint(3)\n"


SELF_TERMS = ["object()", "float('nan')", "-float('nan')", "iter([])", "ValueError('a')", "[]", "x0", "1 / 0",
              "c()", "float('nan') + 1", "(float('nan'),)", "{1: 2}", "lambda: 0", "x0.real", "(x0, 1)", "[x0]"]


def self_comparison_programs():
    """`t op t` with textually identical operands (C15-2): fresh objects, nan, raising and stateful terms"""
    pre = ("x0 = float('nan')\n_n = [0]\ndef c():\n    _n[0] += 1\n    print('c', _n[0])\n    return _n[0]\n")
    for t in SELF_TERMS:
        for op in ("==", "!=", "<=", ">=", "<", ">", "is", "is not"):
            yield pre + f"print(({t}) {op} ({t}))\n"
            yield pre + f"if ({t}) {op} ({t}):\n    print('T')\nelse:\n    print('F')\n"


STATEFUL = ["c()", "next(it)", "p(0)", "d.pop()", "it.__next__()"]


def identical_operand_programs():
    """and / or whose operands have identical source text but not identical values (C15-3)"""
    pre = ("_n = [0]\ndef c():\n    _n[0] += 1\n    print('c', _n[0])\n    return _n[0] % 2\n"
           "it = iter([1, 0, 1, 0, 1, 0, 1, 0])\nd = [0, 1, 0, 1, 0, 1]\nn = 1\n"
           "def p(v):\n    print('p', v)\n    return v\n")
    for t in STATEFUL:
        forms = [f"{t} and not {t}", f"{t} or not {t}", f"{t} or {t}", f"{t} and {t}", f"not {t} and {t}",
                 f"({t} and n) or ({t} and not n)", f"({t} or n) and ({t} or not n)", f"{t} and {t} and n",
                 f"{t} == 1 and {t} == 1", f"{t} < 1 or {t} >= 1", f"{t} > 0 and {t} > 0"]
        for e in forms:
            yield pre + f"if {e}:\n    print('T')\nelse:\n    print('F')\n"
            yield pre + f"print(bool({e}))\n"
            yield pre + f"print([{e} for _ in range(3)])\n"


def comprehension_programs():
    """always-false / always-true conditions next to conditions and iterables that make calls (C15-4, F15-9)"""
    pre = "def p(v):\n    print('p', v)\n    return v\n"
    comps = ["[i for i in range(2) if p(i) if 0]", "[i for i in range(2) if 0 if p(i)]",
             "[i for i in range(2) if p(i) for j in range(2) if 0]", "[i for i in range(2) if 0 for j in range(p(2))]",
             "[i for i in range(p(2)) if 0]", "[i for i in range(2) for j in range(p(1)) if 0]",
             "{i for i in range(2) if p(i) if 0}", "{i: i for i in range(2) if p(i) if 0}",
             "list(i for i in range(2) if p(i) if 0)", "sum(i for i in range(2) if p(i) if 0)",
             "[i for i in range(2) if p(i) if 1]", "[i for i in range(2) if 1 if p(i) if 'a']",
             "[i for i in range(2) if p(i) and 0]", "[i for i in range(2) if 0 and p(i)]",
             "[i for i in range(2) if (p(i), 0)[1]]", "[i for i in range(2) if 1 / 0 if 0]",
             "[i for i in range(2) if 0 if 1 / 0]", "[p(i) for i in range(2) if 0]", "[i for i in (p(1), 2) if not 1]"]
    for c in comps:
        yield pre + f"print({c})\n"
        yield pre + f"x = {c}\nprint(x)\n"


FOR_ITERABLES = ["5", "True", "None", "1.5", "1j", "1 + 1", "-1", "not 0", "1 < 2", "len('ab')", "''", "'ab'", "()",
                 "(0,)", "[]", "[1]", "{}", "{1: 2}", "{1}", "range(0)", "range(2)", "1 / 0", "x0", "[] or 5",
                 "[1] and 5", "reversed([1])", "iter(())", "zip()", "b''", "b'a'", "...", "3 if 1 else ()"]


def for_iterable_programs():
    """every kind of literal as the iterable of a `for` whose body returns / raises (C15-1: core.is_blocking)"""
    for e in FOR_ITERABLES:
        yield (f"x0 = (1,)\ndef g():\n    for x in {e}:\n        return 'body'\n    return 'after'\n"
               f"print(g())\n")
        yield f"x0 = (1,)\ndef g():\n    for x in {e}:\n        raise KeyError(x)\n    print('after')\ng()\n"
        yield (f"x0 = (1,)\ndef g():\n    while True:\n        for x in {e}:\n            return 'body'\n"
               f"        break\n    return 'after'\nprint(g())\n")


RULES_FOR = ["delete_unreachable_code", "remove_dead_ifs", "format_code"]

# ---- raw expressions: evaluated by core.literal_value and by CPython; a returned value must be Python's value.
# Not sent to the Gallina model (sets, floats, dunder methods, iterators are outside PyValModel.expr).
_SETS = ["{'a', 'b'}", "{'a', 'b', 'c'}", "frozenset(('a', 'b'))", "{1, 2}", "{(1, 'a'), (2, 'b')}", "{b'a', b'b'}",
         "set('abc')", "{'a'} | {'b'}", "{None, 'a', 1}"]
RAW_EXPRS = (
    [f"{f}({s})" for s in _SETS for f in ("list", "tuple", "str", "repr", "sorted", "len", "min", "max", "sum", "bool",
                                          "all", "enumerate", "reversed", "iter", "dict.fromkeys", "'-'.join", "next")]
    + [f"list({s}) == ['a', 'b']" for s in _SETS] + [f"{s} == {{'b', 'a'}}" for s in _SETS]
    + [f"'a' in {s}" for s in _SETS] + [f"[{s}][0]" for s in _SETS] + [f"str([{s}])" for s in _SETS]
    + [f"'%s' % ({s},)" for s in _SETS] + [f"'{{}}'.format({s})" for s in _SETS] + [f"list(zip({s}, {s}))" for s in _SETS]
    + [f"list(dict.fromkeys({s}))" for s in _SETS] + [f"tuple(sorted({s}))" for s in _SETS[:4]]
    + [f"({r!r}).{m}()" for r in ("abc", "", 1, True, None, 1.5, b"a", (1, "a"))
       for m in ("__hash__", "__repr__", "__str__", "__len__", "__bool__", "__sizeof__", "__dir__", "__class__",
                 "__reduce__", "__init_subclass__", "__doc__", "upper", "bit_length", "hex", "decode", "encode",
                 "conjugate", "is_integer", "count", "index", "format", "casefold", "isidentifier", "nosuch")]
    + ["'abc'.__hash__() % 2", "'abc'.__hash__() % 2 == 0", "(1).__add__(2)", "'a'.__add__('b')", "'a'.__eq__('a')",
       "'a'.__mod__(1)", "'%s'.__mod__('a')", "(1).__lt__('a')", "'a'.__contains__('a')", "(1).__index__()"]
    + [f"{f}({g}({a}))" for f in ("str", "repr", "ascii", "format", "list", "tuple", "bool", "len", "sorted", "sum")
       for g in ("zip", "enumerate", "reversed", "iter", "map", "filter", "range", "slice", "memoryview", "object")
       for a in ("()", "[1, 2]", "'ab'")]
    + [f"'{{}}'.format({g}([1]))" for g in ("iter", "reversed", "enumerate", "zip")]
    + [f"'%s' % ({g}([1]),)" for g in ("iter", "reversed", "enumerate", "zip")]
    + [f"'x'.join([str({g}([1]))])" for g in ("iter", "reversed")]
    + ["float('nan')", "float('nan') == float('nan')", "float('nan') != float('nan')", "float('nan') < 1",
       "float('inf') > 1", "-float('nan') == -float('nan')", "max(float('nan'), 1)", "min(1, float('nan'))",
       "sorted([float('nan'), 1, 0])", "[float('nan')] == [float('nan')]", "float('nan') in [float('nan')]",
       "(float('nan'),) == (float('nan'),)", "round(2.5)", "round(-0.5)", "0.1 + 0.2", "0.1 + 0.2 == 0.3", "1e308 * 10",
       "float('1e400')", "int(float('inf'))", "int(float('nan'))", "2 ** 0.5", "(-8) ** (1 / 3)", "complex(1, 2)",
       "abs(-0.0)", "str(-0.0)", "1.0 == 1", "hash(1.0) == hash(1)", "divmod(7, -2)", "divmod(7.5, 2)", "pow(2, -1)",
       "pow(2, 5, 3)", "pow(0, -1)", "bin(-5)", "hex(255)", "oct(8)", "chr(97)", "ord('a')", "ord('ab')", "chr(-1)",
       "bytes(3)", "bytes('a', 'utf8')", "bytes([256])", "dict(a=1)", "dict([(1, 2)])", "dict([1])", "range(3)",
       "list(range(3))", "list(range(3, 0, -1))", "range(0) == range(0)", "slice(1)", "len(range(10 ** 6))",
       "format(1, '03d')", "format(1, 'q')", "format(255, 'x')", "ascii('é')", "repr('a')", "repr(1.0)",
       "frozenset()", "frozenset([1]) == {1}", "set() == frozenset()", "len(set('aab'))", "zip()", "list(zip())",
       "enumerate('ab')", "list(enumerate('ab'))", "dict(enumerate('ab'))", "tuple(reversed((1, 2)))",
       "list(reversed([1, 2]))", "next(iter([1]))", "any(iter([0, 1]))", "sum(iter([1, 2]))"]
)
# the same iterator-producing sub-expression inside different enclosing expressions, evaluated in ONE process in
# this order (seed C15-a: memoised one-shot iterators)
SHARED_SUBTERM_SEQUENCE = [
    "tuple(reversed([1, 2]))", "list(reversed([1, 2]))", "len(list(reversed([1, 2])))", "sorted(reversed([1, 2]))",
    "tuple(reversed([3, 4])) == tuple(list(reversed([3, 4])))", "sum(enumerate('ab'), ())", "len(list(enumerate('ab')))",
    "list(enumerate('ab'))", "list(zip([1], [2]))", "tuple(zip([1], [2]))", "dict(zip([1], [2]))", "list(iter([1]))",
    "bool(list(iter([1])))", "max(iter([1]))", "min(iter([1]))", "list(map(str, [1]))", "list(range(2))",
    "tuple(range(2))", "sum(range(2))", "sum(range(2)) + sum(range(2))", "list(reversed([1, 2])) or 5",
    "tuple(reversed([1, 2])) and 5", "[1, 2] == list(reversed([2, 1]))", "[1, 2] == list(reversed([2, 1]))",
]
