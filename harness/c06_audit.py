"""C06 -- static audit of the places where pyrefact consumes a hash-ordered collection in an order-sensitive way.

Fail-closed "translator style": every module of $VERIF_REPO/pyrefact is parsed and walked; a module that cannot be
parsed, or a consumer the walk does not know how to classify, is reported, never skipped.

What is a *set expression* (syntactic, flow-insensitive, per function + module/global tables):
  * `{a, b}`, a set comprehension, `set(..)`, `frozenset(..)`;
  * `s | t`, `s & t`, `s - t`, `s ^ t` when one side is a set expression; `s.union/intersection/difference/
    symmetric_difference/copy(..)` on a set expression;
  * a local name (or parameter) that is assigned / annotated / augmented-assigned a set expression anywhere in the
    enclosing function (or at module level), a parameter annotated Set/FrozenSet/AbstractSet/MutableSet;
  * `d[k]`, `d.get(k)`, and the value target of `for k, v in d.items()` / `for v in d.values()` when `d` is a
    local assigned `collections.defaultdict(set)` or a dict comprehension / literal with set expression values;
  * a call of a pyrefact function whose return annotation is a Set type or all of whose `return`s are set
    expressions; `<module>.NAME` / `NAME` for a module-level NAME of a pyrefact module assigned a set expression;
  * a conditional expression with a set expression arm.
Anything else is `unknown` (lists, tuples, dicts -- insertion ordered --, generators, parameters without annotation).

What is an order-sensitive *consumer* (a site):
  A. pickers -- the result IS one element chosen by position: `max(X, key=..)`, `min(X, key=..)`, `max(X)`/`min(X)`,
     `next(iter(X))`, `X.pop()` without argument, `list(X)[i]`, `Counter(X).most_common(..)`, `sorted(X, key=..)`
     (ties keep the order of X).  For the pickers with a tie rule (`max`/`min` with `key=`, `next(iter(..))`, `.pop()`
     on a non-list, `most_common`) EVERY occurrence is reported, with `iterable` = set | unknown | ordered, so that a
     set hidden behind a parameter still needs a justification;  those over a syntactically ordered iterable
     (list display, list comprehension, `sorted(..)`, tuple, `range`, str method results ...) are recorded as
     `ordered` and need no allow-list entry.
  B. walkers over a *set expression* -- `for x in S` (statement), `for x in S` inside a list / dict comprehension or a
     generator expression, `list(S)`, `tuple(S)`, `enumerate(S)`, `zip(.., S, ..)`, `sep.join(S)`, `*S`,
     `itertools.chain(.., S, ..)`, `sorted(S)` without key (deterministic for totally ordered elements; listed so that
     the element type is looked at once).
     Not sites: a walker whose value is immediately consumed by an order-insensitive reducer
     (`set frozenset any all sum len sorted(no key) min/max(no key)` -- the last two are reported under A --
     `Counter`, `dict.fromkeys`?? no: only the listed ones), and set comprehensions over a set.

Site identity (stable under unrelated edits): (module, enclosing function qualname, kind, source text of the
iterable [+ source text of the key function], ordinal among equal keys).  Line numbers are informational.
"""
from __future__ import annotations

import ast
import json
from collections import Counter, defaultdict
from pathlib import Path

SET_ANNOTATIONS = {"Set", "FrozenSet", "AbstractSet", "MutableSet", "set", "frozenset"}
SET_METHODS = {"union", "intersection", "difference", "symmetric_difference", "copy"}
REDUCERS = {"set", "frozenset", "any", "all", "sum", "len", "Counter", "isdisjoint", "issubset", "issuperset",
            "update", "difference_update", "intersection_update", "union", "intersection", "difference",
            "symmetric_difference"}
ORDERED_CALLS = {"sorted", "list", "tuple", "range", "reversed", "enumerate", "zip", "split", "splitlines", "findall",
                 "finditer", "items", "keys", "values", "most_common", "walk", "iter_child_nodes"}


def _ann_is_set(ann) -> bool:
    if ann is None:
        return False
    if isinstance(ann, ast.Subscript):
        return _ann_is_set(ann.value)
    if isinstance(ann, ast.Attribute):
        return ann.attr in SET_ANNOTATIONS
    if isinstance(ann, ast.Name):
        return ann.id in SET_ANNOTATIONS
    if isinstance(ann, ast.Constant) and isinstance(ann.value, str):
        return ann.value.split("[")[0].split(".")[-1] in SET_ANNOTATIONS
    return False


def _call_name(node) -> str:
    if isinstance(node, ast.Call):
        f = node.func
        return f.id if isinstance(f, ast.Name) else f.attr if isinstance(f, ast.Attribute) else ""
    return ""


def _is_defaultdict_of_set(node) -> bool:
    return (_call_name(node) == "defaultdict" and node.args and isinstance(node.args[0], ast.Name)
            and node.args[0].id in ("set", "frozenset"))


class Scope:
    """names of one function (or module) that are set expressions / dicts of sets"""

    def __init__(self, parent=None):
        self.sets, self.dict_of_sets, self.parent = set(), set(), parent

    def is_set_name(self, n):
        return n in self.sets or (self.parent is not None and self.parent.is_set_name(n))

    def is_dos_name(self, n):
        return n in self.dict_of_sets or (self.parent is not None and self.parent.is_dos_name(n))


class Audit:
    def __init__(self, package_dir: Path):
        self.dir = Path(package_dir)
        self.trees, self.errors = {}, []
        for p in sorted(self.dir.rglob("*.py")):
            mod = ".".join(p.relative_to(self.dir).with_suffix("").parts)
            try:
                self.trees[mod] = ast.parse(p.read_text(), filename=str(p))
            except (SyntaxError, UnicodeDecodeError, OSError) as e:
                self.errors.append({"module": mod, "error": f"{type(e).__name__}: {e}"})
        # global tables, to a fixpoint: functions returning sets, module-level set constants
        self.set_funcs, self.set_consts = set(), set()
        for _ in range(4):
            before = (len(self.set_funcs), len(self.set_consts))
            for mod, tree in self.trees.items():
                self._globals(mod, tree)
            if before == (len(self.set_funcs), len(self.set_consts)):
                break
        self.sites = []
        for mod, tree in self.trees.items():
            self._module(mod, tree)

    # ---- classification of expressions

    def is_set(self, e, sc: Scope) -> bool:
        if isinstance(e, (ast.Set, ast.SetComp)):
            return True
        if isinstance(e, ast.Name):
            return sc.is_set_name(e.id) or e.id in self.set_consts
        if isinstance(e, ast.Attribute):
            return e.attr in self.set_consts and isinstance(e.value, ast.Name)
        if isinstance(e, ast.BinOp) and isinstance(e.op, (ast.BitOr, ast.BitAnd, ast.Sub, ast.BitXor)):
            return self.is_set(e.left, sc) or self.is_set(e.right, sc)
        if isinstance(e, ast.IfExp):
            return self.is_set(e.body, sc) or self.is_set(e.orelse, sc)
        if isinstance(e, ast.NamedExpr):
            return self.is_set(e.value, sc)
        if isinstance(e, ast.Subscript):
            return isinstance(e.value, ast.Name) and sc.is_dos_name(e.value.id)
        if isinstance(e, ast.Call):
            name = _call_name(e)
            if isinstance(e.func, ast.Name) and name in ("set", "frozenset"):
                return True
            if isinstance(e.func, ast.Attribute):
                if name in SET_METHODS and self.is_set(e.func.value, sc):
                    return True
                if name in SET_METHODS and isinstance(e.func.value, ast.Name) and e.func.value.id in ("set", "frozenset"):
                    return True          # set.intersection(*sets), frozenset.union(..)
                if name in ("get", "pop", "setdefault") and isinstance(e.func.value, ast.Name) and sc.is_dos_name(e.func.value.id) and e.args:
                    return True
            return name in self.set_funcs
        return False

    def is_dict_of_sets(self, e, sc: Scope) -> bool:
        if _is_defaultdict_of_set(e):
            return True
        if isinstance(e, ast.DictComp):
            return self.is_set(e.value, sc)
        if isinstance(e, ast.Dict) and e.values:
            return all(v is not None and self.is_set(v, sc) for v in e.values)
        return False

    def is_ordered(self, e) -> bool:
        if isinstance(e, (ast.List, ast.ListComp, ast.Tuple, ast.Constant, ast.JoinedStr)):
            return True
        if isinstance(e, ast.Call) and _call_name(e) in ORDERED_CALLS:
            return True
        if isinstance(e, ast.BinOp) and isinstance(e.op, ast.Add):
            return self.is_ordered(e.left) and self.is_ordered(e.right)
        return False

    def classify(self, e, sc) -> str:
        if self.is_set(e, sc):
            return "set"
        if isinstance(e, ast.GeneratorExp):
            # a generator over a set is as ordered as the set
            return "set" if any(self.is_set(g.iter, sc) for g in e.generators) else \
                "ordered" if all(self.is_ordered(g.iter) for g in e.generators) else "unknown"
        return "ordered" if self.is_ordered(e) else "unknown"

    # ---- tables

    def _globals(self, mod, tree):
        sc = Scope()
        for st in tree.body:
            self._bind(st, sc)
        self.set_consts |= sc.sets
        for fn in ast.walk(tree):
            if isinstance(fn, (ast.FunctionDef, ast.AsyncFunctionDef)):
                if _ann_is_set(fn.returns):
                    self.set_funcs.add(fn.name)
                    continue
                fsc = self._scope_of(fn, sc)
                rets = [r for r in self._own_nodes(fn) if isinstance(r, ast.Return) and r.value is not None]
                if rets and all(self.is_set(r.value, fsc) for r in rets):
                    self.set_funcs.add(fn.name)

    def _own_nodes(self, fn):
        """nodes of the body of fn, not descending into nested function / class definitions"""
        stack = list(fn.body) if hasattr(fn, "body") and isinstance(fn.body, list) else [fn.body]
        while stack:
            n = stack.pop()
            yield n
            if isinstance(n, (ast.FunctionDef, ast.AsyncFunctionDef, ast.ClassDef, ast.Lambda)):
                continue
            stack.extend(ast.iter_child_nodes(n))

    def _bind(self, st, sc: Scope):
        """record what one statement / expression node says about names"""
        def bind_target(t, value_is_set, value_is_dos):
            if isinstance(t, ast.Name):
                if value_is_set:
                    sc.sets.add(t.id)
                if value_is_dos:
                    sc.dict_of_sets.add(t.id)
        if isinstance(st, ast.Assign):
            s, d = self.is_set(st.value, sc), self.is_dict_of_sets(st.value, sc)
            for t in st.targets:
                bind_target(t, s, d)
        elif isinstance(st, ast.AnnAssign):
            s = _ann_is_set(st.annotation) or (st.value is not None and self.is_set(st.value, sc))
            d = st.value is not None and self.is_dict_of_sets(st.value, sc)
            bind_target(st.target, s, d)
        elif isinstance(st, ast.AugAssign):
            if isinstance(st.op, (ast.BitOr, ast.BitAnd, ast.Sub, ast.BitXor)) and self.is_set(st.value, sc):
                bind_target(st.target, True, False)
        elif isinstance(st, ast.NamedExpr):
            bind_target(st.target, self.is_set(st.value, sc), self.is_dict_of_sets(st.value, sc))
        elif isinstance(st, (ast.For, ast.AsyncFor, ast.comprehension)):
            it = st.iter
            if isinstance(it, ast.Call) and isinstance(it.func, ast.Attribute) and isinstance(it.func.value, ast.Name) \
                    and sc.is_dos_name(it.func.value.id):
                if it.func.attr == "items" and isinstance(st.target, ast.Tuple) and len(st.target.elts) == 2:
                    bind_target(st.target.elts[1], True, False)
                elif it.func.attr == "values":
                    bind_target(st.target, True, False)

    def _scope_of(self, fn, parent: Scope) -> Scope:
        sc = Scope(parent)
        if isinstance(fn, (ast.FunctionDef, ast.AsyncFunctionDef, ast.Lambda)):
            a = fn.args
            for arg in a.posonlyargs + a.args + a.kwonlyargs:
                if _ann_is_set(arg.annotation):
                    sc.sets.add(arg.arg)
            defaults = dict(zip([x.arg for x in (a.posonlyargs + a.args)][::-1], a.defaults[::-1]))
            defaults.update({k.arg: d for k, d in zip(a.kwonlyargs, a.kw_defaults) if d is not None})
            for name, d in defaults.items():
                if self.is_set(d, parent):
                    sc.sets.add(name)
        for _ in range(3):          # flow-insensitive: to a fixpoint over the body
            n0 = (len(sc.sets), len(sc.dict_of_sets))
            for n in self._own_nodes(fn):
                self._bind(n, sc)
            if n0 == (len(sc.sets), len(sc.dict_of_sets)):
                break
        return sc

    # ---- sites

    def _module(self, mod, tree):
        msc = Scope()
        for _ in range(2):
            for n in self._own_nodes(tree):
                self._bind(n, msc)
        self._visit_scope(mod, "<module>", tree, msc)

    def _visit_scope(self, mod, qual, owner, sc):
        parents = {}
        own = list(self._own_nodes(owner))
        for n in own:
            for c in ast.iter_child_nodes(n):
                parents[c] = n
        for n in own:
            if isinstance(n, (ast.FunctionDef, ast.AsyncFunctionDef)):
                self._visit_scope(mod, n.name if qual == "<module>" else f"{qual}.{n.name}", n, self._scope_of(n, sc))
            elif isinstance(n, ast.ClassDef):
                self._visit_scope(mod, n.name if qual == "<module>" else f"{qual}.{n.name}", n, self._scope_of(n, sc))
            elif isinstance(n, ast.Lambda):
                self._visit_scope(mod, qual, n, self._scope_of(n, sc))
            else:
                self._node(mod, qual, n, sc, parents)

    def _site(self, mod, qual, kind, iterable, node, cls):
        text = ast.unparse(iterable)
        if kind.endswith("-key") and isinstance(node, ast.Call):
            # the key function is part of the identity: a justified `key=lineno` does not justify `key=len`
            text += " key=" + next(ast.unparse(k.value) for k in node.keywords if k.arg == "key")
        self.sites.append({"module": mod, "function": qual, "kind": kind, "iterable": text,
                           "iterable_type": cls, "line": getattr(node, "lineno", 0)})

    def _reduced(self, n, parents) -> bool:
        """is the value of walker n consumed at once by an order-insensitive reducer?"""
        p = parents.get(n)
        if isinstance(p, ast.Call) and n in p.args:
            name = _call_name(p)
            if name in REDUCERS:
                return True
            if name in ("sorted", "min", "max") and not any(k.arg == "key" for k in p.keywords):
                return True
        if isinstance(p, ast.Compare) and any(isinstance(op, (ast.In, ast.NotIn)) for op in p.ops):
            return True
        return False

    def _node(self, mod, qual, n, sc, parents):
        if isinstance(n, ast.Call):
            name = _call_name(n)
            has_key = any(k.arg == "key" for k in n.keywords)
            bare = isinstance(n.func, ast.Name)
            if bare and name in ("max", "min") and len(n.args) == 1:
                cls = self.classify(n.args[0], sc)
                if has_key:
                    self._site(mod, qual, f"{name}-key", n.args[0], n, cls)
                elif cls == "set":
                    self._site(mod, qual, name, n.args[0], n, cls)
            elif bare and name == "sorted" and n.args:
                cls = self.classify(n.args[0], sc)
                if cls == "set":
                    self._site(mod, qual, "sorted-key" if has_key else "sorted", n.args[0], n, cls)
            elif bare and name == "next" and n.args and _call_name(n.args[0]) == "iter" and n.args[0].args:
                self._site(mod, qual, "next-iter", n.args[0].args[0], n, self.classify(n.args[0].args[0], sc))
            elif bare and name == "next" and n.args and isinstance(n.args[0], ast.GeneratorExp) \
                    and self.classify(n.args[0], sc) == "set":
                self._site(mod, qual, "next-gen", n.args[0].generators[0].iter, n, "set")
            elif not bare and name == "pop" and not n.args and not n.keywords:
                cls = self.classify(n.func.value, sc)
                if cls == "set":
                    self._site(mod, qual, "pop", n.func.value, n, cls)
            elif not bare and name == "most_common":
                inner = n.func.value
                arg = inner.args[0] if isinstance(inner, ast.Call) and inner.args else inner
                self._site(mod, qual, "most_common", arg, n, self.classify(arg, sc))
            elif bare and name in ("list", "tuple", "enumerate", "iter") and len(n.args) >= 1 and self.is_set(n.args[0], sc):
                if not self._reduced(n, parents) and not (name == "iter" and _call_name(parents.get(n)) == "next"):
                    self._site(mod, qual, name, n.args[0], n, "set")
            elif name in ("zip", "chain", "zip_longest", "product"):
                for a in n.args:
                    if self.is_set(a.value if isinstance(a, ast.Starred) else a, sc) and not self._reduced(n, parents):
                        self._site(mod, qual, name, a, n, "set")
            elif not bare and name == "join" and len(n.args) == 1 and self.classify(n.args[0], sc) == "set":
                self._site(mod, qual, "join", n.args[0], n, "set")
            for a in n.args:
                if isinstance(a, ast.Starred) and self.is_set(a.value, sc) and name not in REDUCERS and name not in ("zip", "chain", "zip_longest", "product"):
                    self._site(mod, qual, "star-arg", a.value, n, "set")
        elif isinstance(n, ast.Subscript) and _call_name(n.value) in ("list", "tuple") and n.value.args \
                and self.is_set(n.value.args[0], sc):
            self._site(mod, qual, "index-of-list", n.value.args[0], n, "set")
        elif isinstance(n, (ast.For, ast.AsyncFor)):
            if self.is_set(n.iter, sc):
                self._site(mod, qual, "for", n.iter, n, "set")
        elif isinstance(n, (ast.ListComp, ast.GeneratorExp, ast.DictComp)):
            for g in n.generators:
                if self.is_set(g.iter, sc) and not self._reduced(n, parents):
                    kind = {"ListComp": "listcomp", "GeneratorExp": "genexp", "DictComp": "dictcomp"}[type(n).__name__]
                    # a generator handed to max/min/sorted/next is reported there
                    p = parents.get(n)
                    if isinstance(p, ast.Call) and _call_name(p) in ("max", "min", "sorted", "next") and n in p.args:
                        continue
                    self._site(mod, qual, kind, g.iter, n, "set")
        elif isinstance(n, (ast.List, ast.Tuple)):
            for e in n.elts:
                if isinstance(e, ast.Starred) and self.is_set(e.value, sc) and isinstance(getattr(n, "ctx", None), ast.Load):
                    self._site(mod, qual, "star-display", e.value, n, "set")

    # ---- result

    def keyed(self):
        """sites that need a justification: {key: site}; key = module:function:kind:iterable#ordinal"""
        out, seen = {}, Counter()
        for s in sorted(self.sites, key=lambda s: (s["module"], s["function"], s["line"], s["kind"])):
            if s["iterable_type"] == "ordered":
                continue
            base = f"{s['module']}:{s['function']}:{s['kind']}:{s['iterable']}"
            seen[base] += 1
            out[f"{base}#{seen[base]}"] = s
        return out


def load_allow_list(path: Path) -> dict:
    data = json.loads(Path(path).read_text())
    return {e["key"]: e for e in data["sites"]}


def compare(package_dir: Path, allow_path: Path):
    """-> (new sites [not on the list], stale entries [on the list, gone], parse errors, all keyed sites)"""
    a = Audit(package_dir)
    keyed = a.keyed()
    allow = load_allow_list(allow_path)
    new = [dict(s, key=k) for k, s in keyed.items() if k not in allow]
    stale = [k for k in allow if k not in keyed]
    return new, stale, a.errors, keyed, a


if __name__ == "__main__":
    import sys
    a = Audit(Path(sys.argv[1]))
    for k, s in a.keyed().items():
        print(s["line"], k, s["iterable_type"])
    print(len(a.keyed()), "sites;", Counter(s["kind"] for s in a.keyed().values()), "errors", a.errors, file=sys.stderr)
