"""C02, abstraction tranche "abs" (coq/theories/RulesAbsModel.v + RulesAbsProofs.v, Module Abs of coq/props/C02.v).

Plug-in of harness/c02.py:  check(run, mods, wd, rnd) -> dict.  Rules: abstractions.overused_constant (one scope),
fixes.missing_context_manager.  On every run:
  * rule correspondence: generated AbsPy programs are printed, the REAL rule function runs on the text, the result is
    parsed back into the fragment and compared in Coq with the model (oc_case_ok / mcm_case_ok);
  * semantics validation: every input and output program runs under CPython with logging stubs (scripted results and
    raises, file objects with open / read / close events) and through RulesAbsModel.exec_block: outcome incl. the
    exception class and the returned value, event trace, contents of every variable;
  * property oracle (failing-input search): before / after of every fired case under scripts; overused_constant must
    give identical observations (new names aside); missing_context_manager must give identical observations or exactly
    what theorem T02a_mcm_* states (one more close event when the moved block is left by an exception / return, or
    when there was no close() at all); anything else is a VIOLATION unless a listed finding covers it;
  * witness / regression programs (text level, executed) for what the model does not cover: function scopes, default
    values, case patterns, decorators, __future__, the other context-manager constructors.
Findings of this tranche: F02abs-n (property=C02)."""
from __future__ import annotations

import ast
import contextlib
import io
import itertools
import json
import re
import time
import zlib
from collections import Counter

from . import common
from .common import glist, gbool, gopt

TRANCHE = "abs"


class Unsupported(Exception):
    pass


# ---------------------------------------------------------------------------------------------
# terms.  expr: ("atom", k, w) ("name", x) ("disp", "KTup"|"KList", [e]) ("call", i, [e])
#         stmt: ("pass",) ("import", i) ("expr", e) ("assign", x, e) ("append", x, e) ("open", x, r) ("close", x)
#               ("read", y, x) ("return", e) ("if", e, b1, b2) ("with", x, r, b)

def atom(k, w):
    return ("atom", k, w)


def name(x):
    return ("name", x)


def tup(*es):
    return ("disp", "KTup", list(es))


def lst(*es):
    return ("disp", "KList", list(es))


def call(i, *es):
    return ("call", i, list(es))


def p_expr(e) -> str:
    t = e[0]
    if t == "atom":
        return '"' + chr(97 + e[1]) * (e[2] - 2) + '"'
    if t == "name":
        return f"v{e[1]}"
    if t == "disp":
        inner = ", ".join(p_expr(x) for x in e[2])
        if e[1] == "KTup":
            return "(" + inner + ("," if len(e[2]) == 1 else "") + ")"
        return "[" + inner + "]"
    if t == "call":
        return f"f{e[1]}(" + ", ".join(p_expr(x) for x in e[2]) + ")"
    raise Unsupported(str(e))


def p_block(b, ind=0, sem=False) -> str:
    pad = "    " * ind
    out = []
    for s in b:
        t = s[0]
        if t == "pass":
            out.append(pad + "pass")
        elif t == "import":
            out.append(pad + f"import m{s[1]}")
        elif t == "expr":
            out.append(pad + p_expr(s[1]))
        elif t == "assign":
            out.append(pad + f"v{s[1]} = {p_expr(s[2])}")
        elif t == "append":
            out.append(pad + f"v{s[1]}.append({p_expr(s[2])})")
        elif t == "open":
            out.append(pad + f"v{s[1]} = open(p{s[2]})")
        elif t == "close":
            out.append(pad + f"v{s[1]}.close()")
        elif t == "read":
            out.append(pad + f"v{s[1]} = v{s[2]}.read()")
        elif t == "return":
            out.append(pad + (f"return _ret({p_expr(s[1])}, locals())" if sem else f"return {p_expr(s[1])}"))
        elif t == "if":
            out.append(pad + f"if {p_expr(s[1])}:")
            out.append(p_block(s[2] or [("pass",)], ind + 1, sem).rstrip("\n"))
            if s[3]:
                out.append(pad + "else:")
                out.append(p_block(s[3], ind + 1, sem).rstrip("\n"))
        elif t == "with":
            out.append(pad + f"with open(p{s[2]}) as v{s[1]}:")
            out.append(p_block(s[3] or [("pass",)], ind + 1, sem).rstrip("\n"))
        else:
            raise Unsupported(str(s))
    return "\n".join(out) + "\n"


def has_return(b) -> bool:
    return any(s[0] == "return" or (s[0] == "if" and (has_return(s[2]) or has_return(s[3])))
               or (s[0] == "with" and has_return(s[3])) for s in b)


def in_def(src: str) -> str:
    return "def main():\n" + "".join("    " + l + "\n" if l.strip() else "\n" for l in src.splitlines())


# ---- reader (ast -> terms); `names` maps invented names to variable numbers

def e_of_ast(n, names) -> tuple:
    if isinstance(n, ast.Constant) and isinstance(n.value, str) and n.value and len(set(n.value)) == 1 \
            and "a" <= n.value[0] <= "z":
        return atom(ord(n.value[0]) - 97, len(n.value) + 2)
    if isinstance(n, ast.Name):
        if re.fullmatch(r"v\d+", n.id):
            return name(int(n.id[1:]))
        if n.id in names:
            return name(names[n.id])
        raise Unsupported("name " + n.id)
    if isinstance(n, ast.Tuple):
        return tup(*[e_of_ast(x, names) for x in n.elts])
    if isinstance(n, ast.List):
        return lst(*[e_of_ast(x, names) for x in n.elts])
    if isinstance(n, ast.Call) and isinstance(n.func, ast.Name) and re.fullmatch(r"f\d+", n.func.id) and not n.keywords:
        return call(int(n.func.id[1:]), *[e_of_ast(x, names) for x in n.args])
    raise Unsupported(ast.dump(n)[:80])


def _vnum(n, names) -> int:
    e = e_of_ast(n, names)
    if e[0] != "name":
        raise Unsupported("variable expected")
    return e[1]


def _open_res(n):
    if isinstance(n, ast.Call) and isinstance(n.func, ast.Name) and n.func.id == "open" and len(n.args) == 1 \
            and not n.keywords and isinstance(n.args[0], ast.Name) and re.fullmatch(r"p\d+", n.args[0].id):
        return int(n.args[0].id[1:])
    return None


def _meth(n, attr, nargs):
    """v<x>.<attr>(args) -> (x node, args)"""
    if isinstance(n, ast.Call) and isinstance(n.func, ast.Attribute) and n.func.attr == attr \
            and isinstance(n.func.value, ast.Name) and len(n.args) == nargs and not n.keywords:
        return n.func.value, n.args
    return None


def s_of_ast(n, names) -> tuple:
    if isinstance(n, ast.Pass):
        return ("pass",)
    if isinstance(n, ast.Import) and len(n.names) == 1 and re.fullmatch(r"m\d+", n.names[0].name) and not n.names[0].asname:
        return ("import", int(n.names[0].name[1:]))
    if isinstance(n, ast.Expr):
        m = _meth(n.value, "append", 1)
        if m:
            return ("append", _vnum(m[0], names), e_of_ast(m[1][0], names))
        m = _meth(n.value, "close", 0)
        if m:
            return ("close", _vnum(m[0], names))
        return ("expr", e_of_ast(n.value, names))
    if isinstance(n, ast.Assign) and len(n.targets) == 1 and isinstance(n.targets[0], ast.Name):
        x = _vnum(n.targets[0], names)
        r = _open_res(n.value)
        if r is not None:
            return ("open", x, r)
        m = _meth(n.value, "read", 0)
        if m:
            return ("read", x, _vnum(m[0], names))
        return ("assign", x, e_of_ast(n.value, names))
    if isinstance(n, ast.Return) and n.value is not None:
        return ("return", e_of_ast(n.value, names))
    if isinstance(n, ast.If):
        return ("if", e_of_ast(n.test, names), b_of_ast(n.body, names), b_of_ast(n.orelse, names))
    if isinstance(n, ast.With) and len(n.items) == 1 and isinstance(n.items[0].optional_vars, ast.Name):
        r = _open_res(n.items[0].context_expr)
        if r is not None:
            return ("with", _vnum(n.items[0].optional_vars, names), r, b_of_ast(n.body, names))
    raise Unsupported(ast.dump(n)[:80])


def b_of_ast(stmts, names) -> list:
    return [s_of_ast(s, names) for s in stmts]


def parse_block(src: str, names=None, wrapped=False) -> list:
    body = ast.parse(src).body
    if wrapped:
        if len(body) != 1 or not isinstance(body[0], ast.FunctionDef) or body[0].name != "main":
            raise Unsupported("def main() expected")
        body = body[0].body
    return b_of_ast(body, names or {})


def maxv_e(e) -> int:
    if e[0] == "name":
        return e[1]
    if e[0] in ("disp", "call"):
        return max([0] + [maxv_e(x) for x in e[2]])
    return 0


def maxv(b) -> int:
    m = 0
    for s in b:
        t = s[0]
        if t in ("expr", "return"):
            m = max(m, maxv_e(s[1]))
        elif t in ("assign", "append"):
            m = max(m, s[1], maxv_e(s[2]))
        elif t in ("open", "close"):
            m = max(m, s[1])
        elif t == "read":
            m = max(m, s[1], s[2])
        elif t == "if":
            m = max(m, maxv_e(s[1]), maxv(s[2]), maxv(s[3]))
        elif t == "with":
            m = max(m, s[1], maxv(s[3]))
    return m


# ---- Gallina printers

def g_expr(e) -> str:
    t = e[0]
    if t == "atom":
        return f"(EAtom {e[1]} {e[2]})"
    if t == "name":
        return f"(EName {e[1]})"
    if t == "disp":
        return f"(EDisp {e[1]} {glist(e[2], g_expr)})"
    return f"(ECall {e[1]} {glist(e[2], g_expr)})"


def g_stmt(s) -> str:
    t = s[0]
    if t == "pass":
        return "SPass"
    if t == "import":
        return f"(SImport {s[1]})"
    if t == "expr":
        return f"(SExpr {g_expr(s[1])})"
    if t == "assign":
        return f"(SAssign {s[1]} {g_expr(s[2])})"
    if t == "append":
        return f"(SAppend {s[1]} {g_expr(s[2])})"
    if t == "open":
        return f"(SOpen {s[1]} {s[2]})"
    if t == "close":
        return f"(SClose {s[1]})"
    if t == "read":
        return f"(SRead {s[1]} {s[2]})"
    if t == "return":
        return f"(SReturn {g_expr(s[1])})"
    if t == "if":
        return f"(SIf {g_expr(s[1])} {g_block(s[2])} {g_block(s[3])})"
    return f"(SWith {s[1]} {s[2]} {g_block(s[3])})"


def g_block(b) -> str:
    return glist(b, g_stmt)


def g_rval(v) -> str:
    t = v[0]
    if t == "atom":
        return f"(RAtom {v[1]} {v[2]})"
    if t == "opq":
        return f"(ROpq {v[1]})"
    if t == "tup":
        return f"(RTup {glist(v[1], g_rval)})"
    if t == "list":
        return f"(RList {glist(v[1], g_rval)})"
    if t == "nested":
        return "RNested"
    return f"(RHandle {v[1]} {gbool(v[2])})"


def g_event(ev) -> str:
    if ev[0] == "call":
        return f"(EvCall {ev[1]} {glist(ev[2], g_rval)})"
    if ev[0] == "open":
        return f"(EvOpen {ev[1]} {ev[2]})"
    if ev[0] == "close":
        return f"(EvClose {ev[1]})"
    return f"(EvRead {ev[1]})"


def g_outcome(o) -> str:
    if o[0] == "normal":
        return "Normal"
    if o[0] == "ret":
        return f"(Ret {g_rval(o[1])})"
    return f"(Exc {o[1]})"


# ---------------------------------------------------------------------------------------------
# CPython runner with logging stubs

class StubError(Exception):
    pass


class _Handle:
    def __init__(self, w, h):
        self._w, self.h, self.is_open = w, h, True

    def read(self):
        if not self.is_open:
            raise ValueError("I/O operation on closed file")
        self._w.log.append(("read", self.h))
        return self._w.draw()

    def close(self):
        if self.is_open:
            self.is_open = False
            self._w.log.append(("close", self.h))

    def __enter__(self):
        return self

    def __exit__(self, *a):
        self.close()
        return False


def render(v, inner=False):
    if isinstance(v, str):
        return ("atom", ord(v[0]) - 97, len(v) + 2)
    if isinstance(v, bool) or v is None:
        raise Unsupported("value " + repr(v))
    if isinstance(v, int):
        return ("opq", v)
    if isinstance(v, tuple):
        return ("tup", [render(x, inner) for x in v])
    if isinstance(v, list):
        return ("nested",) if inner else ("list", [render(x, True) for x in v])
    if isinstance(v, _Handle):
        return ("handle", v.h, v.is_open)
    raise Unsupported("value " + repr(v)[:40])


class _World:
    def __init__(self, script):
        self.script, self.pos, self.log, self.nh = script, 0, [], 0
        self.final, self.ret = None, None

    def draw(self):
        x = self.script[self.pos] if self.pos < len(self.script) else 0
        self.pos += 1
        if x is None:
            raise StubError()
        return x

    def fn(self, i):
        def f(*args):
            self.log.append(("call", i, [render(a) for a in args]))
            return self.draw()
        return f

    def open(self, r):
        h = _Handle(self, self.nh)
        self.nh += 1
        self.log.append(("open", r, h.h))
        return h


EXK = [(NameError, "XName"), (StubError, "XStub"), (AttributeError, "XAttr"), (ValueError, "XClosed")]
_CODE = {}


def run_block(b, script, nvars):
    """-> (outcome, log, [rendered v0..v(nvars-1) | None])"""
    import sys
    import types

    src = p_block(b, 1, sem=True)
    code = _CODE.get(src)
    if code is None:
        code = _CODE[src] = compile("def main():\n" + src + "    return _end(locals())\n", "<abs>", "exec")
    w = _World(script)
    for i in range(4):
        sys.modules.setdefault(f"m{i}", types.ModuleType(f"m{i}"))

    def snap(loc):
        w.final = dict(loc)        # rendered when the run is over (a with block may still close a handle)

    def _ret(v, loc):
        snap(loc)
        w.ret = ("ret", render(v))
        return v

    def _end(loc):
        snap(loc)
        w.ret = ("normal",)

    g = {"open": w.open, "_ret": _ret, "_end": _end}
    for i in range(8):
        g[f"f{i}"] = w.fn(i)
        g[f"p{i}"] = i
    exec(code, g)
    try:
        g["main"]()
        out = w.ret
    except Exception as e:  # noqa
        kind = next((k for c, k in EXK if isinstance(e, c)), None)
        if kind is None:
            raise
        tb = e.__traceback__
        loc = {}
        while tb is not None:
            if tb.tb_frame.f_code.co_name == "main":
                loc = dict(tb.tb_frame.f_locals)
            tb = tb.tb_next
        snap(loc)
        out = ("exc", kind)
    loc = w.final or {}
    return out, w.log, [render(loc[f"v{x}"]) if f"v{x}" in loc else None for x in range(nvars)]


SCRIPTS = [[], [1, 1, 1, 1, 1, 1], [0, 1, 0, 1], [1, None], [None], [1, 1, None], [0, 0, None, 1], [1, 0, 1, None],
           [2, 2, 2, None]]


# ---------------------------------------------------------------------------------------------
# real rules

def apply_oc(mods, src: str, static=True) -> str:
    mods["core"].parse.cache_clear()
    with common.quiet():
        return mods["abstractions"].overused_constant(src, root_is_static=static)


def apply_mcm(mods, src: str) -> str:
    mods["core"].parse.cache_clear()
    with common.quiet():
        return mods["fixes"].missing_context_manager(src)


def is_lit(e) -> bool:
    return e[0] == "atom" or (e[0] == "disp" and all(x[0] == "atom" for x in e[2]))


def read_oc_output(b, out: str, wrapped: bool):
    """-> (plan [(lit, var)], program) with the invented names numbered maxv+1.. in the order of their assignments"""
    tree = ast.parse(out)
    body = tree.body
    if wrapped:
        if len(body) != 1 or not isinstance(body[0], ast.FunctionDef):
            raise Unsupported("def main() expected")
        body = body[0].body
    names, pl = {}, []
    base = maxv(b) + 1
    for s in body:
        if isinstance(s, ast.Assign) and len(s.targets) == 1 and isinstance(s.targets[0], ast.Name) \
                and not re.fullmatch(r"v\d+", s.targets[0].id):
            lit = e_of_ast(s.value, {})
            if not is_lit(lit):
                raise Unsupported("new name bound to a non-literal")
            if s.targets[0].id in names:
                raise Unsupported("new name bound twice")
            names[s.targets[0].id] = base + len(pl)
            pl.append((lit, base + len(pl)))
    return pl, b_of_ast(body, names)


# ---------------------------------------------------------------------------------------------
# families

A, B, S19, S20, C5, D6 = atom(0, 22), atom(1, 22), atom(2, 19), atom(3, 20), atom(4, 5), atom(5, 6)
LITS = [A, S19, S20, tup(A), tup(C5, C5, C5), tup(C5, C5, D6), lst(A), lst(C5, C5, D6), lst(C5, C5, C5), tup(A, B)]


def carriers(l, i):
    """statements carrying one occurrence of l (two for the last)"""
    v = 1 + i % 3
    return [
        [("assign", v, l)],
        [("expr", call(0, l))],
        [("assign", v, lst(l, name(v)))],
        [("if", call(1, l), [("assign", v, l)], [("pass",)]), ("expr", call(2, name(v)))],
        [("expr", call(3, l, l))],
        [("assign", v, tup(l, C5))],
    ]


PREFIXES = [[], [("expr", C5)], [("import", 0)], [("expr", C5), ("import", 0), ("import", 1)],
            [("import", 0), ("expr", C5)]]
OBSERVE = [("expr", call(4, name(1), name(2), name(3)))]
MUTATE = [("append", 1, C5), ("expr", call(4, name(1), name(2), name(3)))]


def fam_oc(quick: bool):
    out = []
    for li, l in enumerate(LITS):
        for n in (4, 5, 6):
            for off in range(6 if not quick else 3):
                body, k, i = [("assign", 1, C5), ("assign", 2, C5), ("assign", 3, C5)], 0, off
                while k < n:
                    c = carriers(l, i)[i % 6]
                    occ = 2 if i % 6 == 4 else (2 if i % 6 == 3 else 1)
                    if k + occ > n:
                        c, occ = [("assign", 2, l)], 1
                    body += c
                    k += occ
                    i += 1
                pre = PREFIXES[(li + n + off) % len(PREFIXES)]
                out.append(pre + body + (MUTATE if (n + off) % 2 else OBSERVE))
    # docstring positions inside bodies, nested display + element, two literals
    five = lambda l: [("assign", 1 + i % 3, l) for i in range(5)]
    out.append([("if", call(0), [("expr", A), ("assign", 1, A)], [("expr", A), ("assign", 2, A)])] + five(A)[:3] + OBSERVE[:0])
    out.append([("if", call(0), [("expr", A), ("assign", 1, A)], [("expr", A), ("assign", 2, A)])] + five(A)[:2])
    out.append([("with", 1, 0, [("expr", A), ("assign", 2, A)])] + five(A)[:4])
    for n1 in (4, 5):
        for n2 in (0, 1, 4, 5):
            out.append(five(tup(A, C5))[:n1] + [("assign", 2, tup(A, C5))] * (n1 - 4)
                       + [("expr", call(0, A))] * n2 + OBSERVE)
            out.append([("import", 1)] + [("assign", 1, lst(A))] * n1 + [("assign", 2, tup(A, B))] * n2 + [("expr", call(1, B))] * 3 + MUTATE)
    out.append(five(A) + five(B) + OBSERVE)
    out.append(five(lst(A)) + [("append", 1, A), ("append", 2, A)] + OBSERVE)
    out.append(five(tup(A)) + [("append", 1, A)] + OBSERVE)
    out.append([("assign", 1, lst())] + [("append", 1, A)] * 5 + OBSERVE)
    out.append([("assign", 1, lst())] + [("if", call(0), [("append", 1, lst(A))], [("append", 1, lst(A))])] * 3 + OBSERVE)
    return out


def rand_expr(rnd, depth=0):
    r = rnd.random()
    if r < 0.45:
        return rnd.choice([A, A, A, tup(A), lst(A), S20, tup(C5, C5, D6), C5, B])
    if r < 0.6:
        return name(rnd.randint(1, 3))
    if depth > 1:
        return A
    if r < 0.8:
        return call(rnd.randint(0, 3), *[rand_expr(rnd, depth + 1) for _ in range(rnd.randint(0, 2))])
    return (tup if r < 0.9 else lst)(*[rand_expr(rnd, depth + 1) for _ in range(rnd.randint(0, 2))])


def rand_oc(rnd, n):
    out = []
    for _ in range(n):
        b = list(rnd.choice(PREFIXES))
        for _ in range(rnd.randint(4, 9)):
            r = rnd.random()
            if r < 0.5:
                b.append(("assign", rnd.randint(1, 3), rand_expr(rnd)))
            elif r < 0.7:
                b.append(("expr", rand_expr(rnd)))
            elif r < 0.8:
                b.append(("append", rnd.randint(1, 3), rand_expr(rnd)))
            else:
                b.append(("if", rand_expr(rnd), [("assign", rnd.randint(1, 3), rand_expr(rnd))],
                          [("expr", rand_expr(rnd))] if rnd.random() < 0.5 else []))
        out.append(b + OBSERVE)
    return out


MCM_POOL = [("read", 2, 1), ("expr", call(0, name(2))), ("close", 1), ("assign", 1, name(3)), ("open", 3, 1),
            ("close", 3), ("return", name(1)), ("return", name(2)), ("expr", call(1, name(1))),
            ("if", call(2), [("close", 1)], []), ("if", call(2), [("return", name(1))], [("read", 2, 1)]),
            ("assign", 3, name(1)), ("read", 2, 3), ("open", 1, 2), ("with", 3, 1, [("read", 2, 3)]), ("pass",)]


def fam_mcm(quick: bool):
    out = []
    pool = MCM_POOL
    for n in (0, 1, 2, 3):
        for body in itertools.product(pool, repeat=n):
            if n == 3 and quick and (zlib.crc32(repr(body).encode()) % 4):
                continue
            out.append([("open", 1, 0)] + list(body))
    # the handle is used behind the nested list in which the with block is introduced (F02abs-3)
    out.append([("if", call(2), [("open", 1, 0), ("read", 2, 1)], []), ("read", 2, 1)])
    out.append([("open", 1, 2), ("open", 1, 0), ("open", 3, 1), ("read", 2, 1), ("close", 1), ("close", 3)])
    out.append([("if", call(2), [("open", 1, 0), ("read", 2, 1)], [("open", 1, 1)]), ("close", 1)])
    for body in itertools.product(pool[:9], repeat=2):
        out.append([("expr", call(3))] + [("if", call(2), [("open", 1, 0)] + list(body), [("pass",)])] + [("expr", call(1, name(2)))])
    return out


def rand_mcm(rnd, n):
    out = []
    for _ in range(n):
        b = []
        for _ in range(rnd.randint(2, 6)):
            b.append(rnd.choice(MCM_POOL + [("open", 1, 0)] * 4))
        if rnd.random() < 0.3:
            b = [("if", call(2), b, [("open", 1, 0), ("read", 2, 1)])]
        out.append(b)
    return out


# ---------------------------------------------------------------------------------------------
# findings

def _mutable_display(case):
    return any(l[0] == "disp" and l[1] == "KList" for l, _ in case.get("plan", []))


def _handle_rebound(case):
    return bool(case.get("rebound"))


def mentioned(b) -> set:
    out = set()

    def ex(e):
        if e[0] == "name":
            out.add(e[1])
        elif e[0] in ("disp", "call"):
            for x in e[2]:
                ex(x)
    for s in b:
        t = s[0]
        if t in ("expr", "return"):
            ex(s[1])
        elif t == "assign":
            ex(s[2])
        elif t == "append":
            out.add(s[1])
            ex(s[2])
        elif t == "close":
            out.add(s[1])
        elif t == "read":
            out.add(s[2])
        elif t == "if":
            ex(s[1])
            out |= mentioned(s[2]) | mentioned(s[3])
        elif t == "with":
            out |= mentioned(s[3])
    return out


def use_after_with(b, after=frozenset()) -> bool:
    """a `with open(..) as x` in a nested list whose x is mentioned in an enclosing list behind that nested list"""
    for i, s in enumerate(b):
        later = after | mentioned(b[i + 1:])
        if s[0] == "with":
            if s[1] in after or use_after_with(s[3], later):
                return True
        elif s[0] == "if" and (use_after_with(s[2], later) or use_after_with(s[3], later)):
            return True
    return False


def _used_after_nested_list(case):
    return bool(case.get("used_after"))


SIGS = {"mutable_display_shared": _mutable_display, "handle_rebound_in_block": _handle_rebound,
        "handle_used_after_nested_list": _used_after_nested_list}


def match_finding(kf, site, case):
    fixed = {f.id for f in kf if f.kind == "fixed"}
    for f in kf:
        if f.kind != "finding" or f.id in fixed or site not in re.split(r"[|,]", f.fields.get("site", "")):
            continue
        pred = SIGS.get(f.fields.get("sig", ""))
        if pred is not None and pred(case):
            return f
    return None


def assigns(x, b) -> bool:
    for s in b:
        if s[0] in ("assign", "open", "read") and s[1] == x:
            return True
        if s[0] == "if" and (assigns(x, s[2]) or assigns(x, s[3])):
            return True
        if s[0] == "with" and (s[1] == x or assigns(x, s[3])):
            return True
    return False


def rebinding_site(b) -> bool:
    """some `x = open(..)` of a statement list is followed, before its x.close(), by a statement that rebinds x"""
    for i, s in enumerate(b):
        if s[0] == "open":
            rest = b[i + 1:]
            for j, t in enumerate(rest):
                if t == ("close", s[1]):
                    rest = rest[:j]
                    break
            else:
                rest = []
            if assigns(s[1], rest):
                return True
        if s[0] == "if" and (rebinding_site(s[2]) or rebinding_site(s[3])):
            return True
        if s[0] == "with" and rebinding_site(s[3]):
            return True
    return False


# ---- text-level witness / regression programs: (finding id | None, rule, source, expect_same)
LONG = "abcdefghijklmnopqrstuvwxyz"
WITNESSES = [
    ("F02-91", "oc", f'def f(a="{LONG}"):\n    b = "{LONG}"\n    c = "{LONG}"\n    d = "{LONG}"\n    e = "{LONG}"\n'
                     f'    return a + b + c + d + e\nprint(len(f()))\n', False),
    (None, "oc", f'import sys\n\ndef f():\n    b = "{LONG}"\n    c = "{LONG}"\n    d = "{LONG}"\n    e = "{LONG}"\n    g = "{LONG}"\n'
                 f'    return b + c + d + e + g\nprint(len(f()))\n', True),
    (None, "oc", f'"""Doc."""\nfrom __future__ import annotations\nx = ["{LONG}", "{LONG}", "{LONG}", "{LONG}", "{LONG}"]\nprint(__doc__, len(x))\n', True),
    (None, "oc", f'def g(x):\n    match x:\n        case "{LONG}":\n            return 1\n        case _:\n            return 2\n'
                 f'y = ["{LONG}", "{LONG}", "{LONG}", "{LONG}", "{LONG}"]\nprint(g("q"), g("{LONG}"), len(y))\n', True),
    (None, "oc", f'import functools\n@functools.lru_cache(maxsize=None)\ndef h(x):\n    return x + "{LONG}" + "{LONG}"\n'
                 f'print(h("{LONG}") + "{LONG}" + "{LONG}")\n', True),
    (None, "oc", f'{LONG.upper()} = 3\nx = ["{LONG}", "{LONG}", "{LONG}", "{LONG}", "{LONG}"]\nprint({LONG.upper()}, len(x))\n', True),
    (None, "oc", f'class K:\n    a = "{LONG}"\n    b = "{LONG}"\n    def m(self):\n        return "{LONG}" + "{LONG}" + "{LONG}"\nprint(K().m(), K.a == K.b)\n', True),
    (None, "oc", f'def f():\n    x = ("{LONG}", 1)\n    y = ("{LONG}", 1)\n    return x is y, [("{LONG}", 1), ("{LONG}", 1), ("{LONG}", 1)]\nprint(f()[1])\n', True),
    ("F02-81", "oc", 'a = [1000000, 2000000, 3000000]\nb = [1000000, 2000000, 3000000]\nc = [1000000, 2000000, 3000000]\n'
                     'd = [1000000, 2000000, 3000000]\ne = [1000000, 2000000, 3000000]\na.append(1)\nprint(b)\n', False),
    (None, "mcm", 'import io\nsys_open = open\ndef open(p):\n    return io.StringIO("data")\nx = open("p")\nd = x.read()\nx.close()\nprint(d, x.closed)\n', True),
    (None, "mcm", 'import io\ndef open(p):\n    return io.StringIO("data")\ndef g():\n    x = open("p")\n    return x\nprint(g().read())\n', True),
    (None, "mcm", 'import io\ndef open(p):\n    return io.StringIO("data")\nx = open("p"); c = 2\nprint(x.read(), c)\n', True),
    (None, "mcm", 'import io\ndef open(p):\n    return io.StringIO("data")\ndef g(c):\n    x = open("p")\n    if c:\n        return x\n'
                        '    x.close()\n    return None\nprint(g(1).read())\n', True),   # F02abs-2, repaired 7bedbf5
    (None, "mcm", 'import io\ndef open(p):\n    return io.StringIO(p)\nx = open("a")\nd = x.read()\nx = open("b")\ne = x.read()\nx.close()\n'
                        'print(d, e, x.closed)\n', True),   # F02abs-1, repaired e19a6bf
]


def run_program(src: str) -> str:
    buf = io.StringIO()
    try:
        with contextlib.redirect_stdout(buf):
            exec(compile(src, "<witness>", "exec"), {"__name__": "__witness__"})
    except BaseException as e:  # noqa
        buf.write(f"<{type(e).__name__}>")
    return buf.getvalue()


HEADER = ("From Coq Require Import List Bool Arith.\nImport ListNotations.\n"
          "Require Import Pyrefact.Base Pyrefact.RulesAbsModel.\n")


def _shards(items, n=300):
    for k in range(0, len(items), n):
        yield k // n, items[k:k + n]


def g_plan(pl) -> str:
    return glist(pl, lambda lx: f"({g_expr(lx[0])}, {lx[1]})")


def explained_by_close(before, after) -> bool:
    """the difference theorems T02a_mcm_* allow (once per rewrite): same outcome, the trace of `after` is the trace of
    `before` with additional close events (of different handles), variables equal up to the open flag of those handles"""
    (o1, l1, f1), (o2, l2, f2) = before, after
    extra, i = [], 0
    for ev in l2:
        if i < len(l1) and ev == l1[i]:
            i += 1
        elif ev[0] == "close":
            extra.append(ev[1])
        else:
            return False
    if i != len(l1) or not extra or len(set(extra)) != len(extra):
        return False

    def blind(v):
        if v is None:
            return None
        if v[0] == "handle" and v[1] in extra:
            return ("handle", v[1], None)
        if v[0] in ("tup", "list"):
            return (v[0], [blind(x) for x in v[1]])
        return v

    def blind_o(o):
        return ("ret", blind(o[1])) if o[0] == "ret" else o
    return blind_o(o1) == blind_o(o2) and [blind(v) for v in f1] == [blind(v) for v in f2]


def open_close_adjacent(b) -> bool:
    """`x = open(..)` directly followed by `x.close()`: the replacement `with ..:` has no body and cannot be printed; the
    rule function then gives up on the whole file, and what it has rewritten by then depends on the order of its walk"""
    for i, s in enumerate(b):
        if s[0] == "open" and i + 1 < len(b) and b[i + 1] == ("close", s[1]):
            return True
        if s[0] == "if" and (open_close_adjacent(s[2]) or open_close_adjacent(s[3])):
            return True
        if s[0] == "with" and open_close_adjacent(s[3]):
            return True
    return False


def check(run, mods, wd, rnd) -> dict:
    t0 = time.time()
    quick = run.tier == "quick"
    hist = Counter()
    timings = {}
    kf = common.load_findings("C02")
    problems, oc_cases, mcm_cases = [], [], []

    # ---- overused_constant
    for seeded, fam in ((False, fam_oc(quick)), (True, rand_oc(rnd, 120 if quick else 1500))):
        for n, b in enumerate(fam):
            wrapped = n % 3 == 2
            try:
                src0 = p_block(b)
                if parse_block(src0) != b:
                    raise Unsupported("round trip")
            except (Unsupported, SyntaxError):
                hist["overused_constant:unprintable"] += 1
                continue
            src = in_def(src0) if wrapped else src0
            try:
                out = apply_oc(mods, src, static=True)
            except Exception as e:  # noqa
                problems.append({"rule": "overused_constant", "source": src, "problem": f"rule raised {type(e).__name__}: {e}"})
                continue
            if out == src:
                oc_cases.append((b, [], None, src, out, seeded))
                hist["overused_constant:silent"] += 1
                continue
            try:
                pl, ob = read_oc_output(b, out, wrapped)
            except (Unsupported, SyntaxError) as e:
                problems.append({"rule": "overused_constant", "source": src, "output": out,
                                 "problem": f"rule-output-outside-fragment: {e}"})
                continue
            oc_cases.append((b, pl, ob, src, out, seeded))
            hist["overused_constant:fired"] += 1
    timings["oc_s"] = round(time.time() - t0, 1)

    # ---- missing_context_manager
    for seeded, fam in ((False, fam_mcm(quick)), (True, rand_mcm(rnd, 150 if quick else 2000))):
        for n, b in enumerate(fam):
            wrapped = has_return(b) or n % 2 == 1
            try:
                src0 = p_block(b)
                if parse_block(src0) != b:
                    raise Unsupported("round trip")
            except (Unsupported, SyntaxError):
                hist["missing_context_manager:unprintable"] += 1
                continue
            src = in_def(src0) if wrapped else src0
            try:
                out = apply_mcm(mods, src)
                ob = parse_block(out, wrapped=wrapped)
            except (Unsupported, SyntaxError) as e:
                problems.append({"rule": "missing_context_manager", "source": src, "output": out,
                                 "problem": f"rule-output-outside-fragment: {e}"})
                continue
            except Exception as e:  # noqa
                problems.append({"rule": "missing_context_manager", "source": src, "problem": f"rule raised {type(e).__name__}: {e}"})
                continue
            mcm_cases.append((b, ob, src, out, seeded))
            hist[f"missing_context_manager:{'fired' if ob != b else 'silent'}"] += 1
            if open_close_adjacent(b):
                hist["missing_context_manager:outside-domain(empty with body)"] += 1
    timings["mcm_s"] = round(time.time() - t0, 1)

    files, meta = [], []
    for k, shard in _shards(oc_cases):
        p = wd / f"abs_oc_{k}.v"
        body = ";\n ".join(f"({g_block(c[0])}, {g_plan(c[1])}, {gopt(c[2], g_block)})" for c in shard)
        p.write_text(HEADER + f"Definition cases : list (list stmt * plan * option (list stmt)) := [\n {body}\n].\n"
                     "Eval vm_compute in (bad_idx oc_case_ok cases).\n")
        files.append(p)
        meta.append(("oc", shard))
    for k, shard in _shards([c for c in mcm_cases if not open_close_adjacent(c[0])], 500):
        p = wd / f"abs_mcm_{k}.v"
        body = ";\n ".join(f"({g_block(c[0])}, {g_block(c[1])})" for c in shard)
        p.write_text(HEADER + f"Definition cases : list (list stmt * list stmt) := [\n {body}\n].\n"
                     "Eval vm_compute in (bad_idx mcm_case_ok cases).\n")
        files.append(p)
        meta.append(("mcm", shard))

    # ---- semantics validation + property oracle (CPython)
    sem, seen = [], set()
    failures, reproduced = [], {}
    n_oracle = 0
    nscripts = 5 if quick else len(SCRIPTS)

    def sem_add(b, script, res, nv):
        key = (repr(b), tuple(script))
        if key in seen:
            return
        seen.add(key)
        sem.append((b, script, res, nv))

    def observe(b, script, nv):
        try:
            return run_block(b, script, nv)
        except Unsupported:
            hist["sem:unsupported-value"] += 1
            return None

    cap = 6000 if quick else 80000
    for c in oc_cases:
        b, pl, ob = c[0], c[1], c[2]
        nv = maxv(b) + 1
        for script in SCRIPTS[:nscripts if ob is not None else 2]:
            r1 = observe(b, script, nv)
            if r1 is None:
                continue
            if len(sem) < cap:
                sem_add(b, script, r1, nv)
            if ob is None:
                continue
            r2 = observe(ob, script, nv + len(pl))
            if r2 is None:
                continue
            if len(sem) < cap:
                sem_add(ob, script, r2, nv + len(pl))
            n_oracle += 1
            if (r1[0], r1[1], r1[2]) != (r2[0], r2[1], r2[2][:nv]):
                case = {"source": c[3], "output": c[4], "script": script, "plan": pl,
                        "problem": f"script {script}: {r1} before, {r2} after"}
                m = match_finding(kf, "abstractions.overused_constant", case)
                if m is None:
                    failures.append(("abstractions.overused_constant", case))
                else:
                    reproduced.setdefault(m.id, (m, []))[1].append(case)
    for c in mcm_cases:
        b, ob = c[0], c[1]
        nv = max(maxv(b), maxv(ob)) + 1
        fired = ob != b
        for script in SCRIPTS[:nscripts if fired else 2]:
            r1 = observe(b, script, nv)
            if r1 is None:
                continue
            if len(sem) < cap:
                sem_add(b, script, r1, nv)
            if not fired:
                continue
            r2 = observe(ob, script, nv)
            if r2 is None:
                continue
            if len(sem) < cap:
                sem_add(ob, script, r2, nv)
            n_oracle += 1
            if r1 == r2:
                continue
            if explained_by_close(r1, r2):
                hist["missing_context_manager:oracle-one-more-close"] += 1
                continue
            case = {"source": c[2], "output": c[3], "script": script, "rebound": rebinding_site(b), "used_after": use_after_with(ob),
                    "problem": f"script {script}: {r1} before, {r2} after"}
            m = match_finding(kf, "fixes.missing_context_manager", case)
            if m is None:
                failures.append(("fixes.missing_context_manager", case))
            else:
                reproduced.setdefault(m.id, (m, []))[1].append(case)
    timings["cpython_s"] = round(time.time() - t0, 1)

    for k, shard in _shards(sem, 400):
        p = wd / f"abs_sem_{k}.v"
        body = ";\n ".join(
            f"({g_block(b)}, {glist(script, lambda x: gopt(x))}, ({g_outcome(res[0])}, {glist(res[1], g_event)}, "
            f"{glist(res[2], lambda v: gopt(v, g_rval))}))" for b, script, res, nv in shard)
        p.write_text(HEADER + f"Definition cases : list sem_case := [\n {body}\n].\n"
                     "Eval vm_compute in (bad_idx sem_case_ok cases).\n")
        files.append(p)
        meta.append(("sem", shard))

    results = common.run_case_files(files)
    timings["coq_s"] = round(time.time() - t0, 1)
    disagreements = []
    for p, (kind, shard) in zip(files, meta):
        rc, out = results[p]
        idx = common.parse_nat_list(out) if rc == 0 else None
        if idx is None:
            disagreements.append({"kind": "eval-failed", "file": p.name, "log": out[-1500:]})
            continue
        for i in idx:
            c = shard[i]
            if kind == "oc":
                disagreements.append({"kind": "rule-model", "rule": "abstractions.overused_constant", "source": c[3], "impl_output": c[4]})
            elif kind == "mcm":
                disagreements.append({"kind": "rule-model", "rule": "fixes.missing_context_manager", "source": c[2], "impl_output": c[3]})
            else:
                disagreements.append({"kind": "semantics", "source": p_block(c[0]), "script": repr(c[1]), "cpython": repr(c[2])})

    # ---- witness / regression programs
    n_wit = 0
    for fid, rule, src, expect_same in WITNESSES:
        new = apply_oc(mods, src) if rule == "oc" else apply_mcm(mods, src)
        before, after = run_program(src), run_program(new)
        n_wit += 1
        site = "abstractions.overused_constant" if rule == "oc" else "fixes.missing_context_manager"
        listed = [f for f in kf if f.kind == "finding" and f.id == fid] if fid else []
        if before == after:
            if fid and listed and fid.startswith("F02abs"):
                common.log(f"note: known finding {fid} no longer reproduces on its witness")
            continue
        if listed:
            if fid.startswith("F02abs"):
                reproduced.setdefault(fid, (listed[0], []))[1].append({"problem": f"witness prints {before!r} before, {after!r} after"})
        else:
            failures.append((site, {"source": src, "output": new, "witness": True,
                                    "problem": f"stdout {before!r} before, {after!r} after"}))
    timings["witness_s"] = round(time.time() - t0, 1)

    for fid, (f, hits) in sorted(reproduced.items()):
        if fid.startswith("F02abs"):
            run.known_finding(fid, f"{f.text} [{len(hits)} instances, e.g. {hits[0]['problem'][:300]}]")
        else:
            hist[f"known:{fid}"] += len(hits)
    for f in kf:
        if f.kind == "finding" and f.id.startswith("F02abs") and f.id not in reproduced:
            common.log(f"note: known finding {f.id} no longer reproduces")

    import os
    if os.environ.get("C02A_DEBUG"):
        with open(os.environ["C02A_DEBUG"], "w") as fh:
            json.dump({"disagreements": disagreements, "problems": problems,
                       "failures": [(s_, {k: repr(v) for k, v in f_.items()}) for s_, f_ in failures]}, fh, indent=1, default=str)
    for d in (disagreements + problems)[:8]:
        common.log("abs tranche: " + json.dumps(d, default=str)[:700])
    seen_sites = Counter()
    for site, f in failures:
        seen_sites[site] += 1
        if seen_sites[site] <= 2:
            run.violation({"tranche": TRANCHE, "kind": "property-oracle", "site": site,
                           **{k: (repr(v) if k in ("script", "plan") else v) for k, v in f.items()},
                           "explanation": "executing the rewritten program gives a different outcome / event trace / "
                                          "variable contents than the theorem of the rule allows, and no listed finding covers it"}, True)
    if not failures:
        for d in (disagreements + problems)[:5]:
            run.violation({"tranche": TRANCHE, **d, "kernel": "RulesAbs",
                           "explanation": "model and implementation (or model and CPython) disagree; the property oracle "
                                          "found no differing execution on the explored scripts"}, False)
    elif disagreements or problems:
        run.notes.append(f"abs: {len(disagreements)} correspondence disagreements / {len(problems)} rule problems alongside the oracle failures")
    fired = [c for c in oc_cases if c[2] is not None] + [c for c in mcm_cases if c[1] != c[0]]
    n_fired = len({repr(c[0]) for c in fired})
    samples = [c[3] for c in oc_cases if c[2] is not None][:3] + [c[2] for c in mcm_cases if c[1] != c[0]][:3]
    return {
        "evaluations": len(oc_cases) + len(mcm_cases) + len(sem) + n_oracle + n_wit,
        "distinct_nontrivial": n_fired,
        "rule": ("overused_constant: every literal of a pool (atoms / tuple / list displays at the width boundary 19|20) "
                 "x 4|5|6 occurrences x carrier statements x docstring / import prefixes, module level and inside def, "
                 "then seeded random programs; missing_context_manager: `x = open(p)` followed by every sequence of <= 3 "
                 "statements of a pool of 16 (reads, closes, rebinding, aliases, returns, nested ifs / withs), top level, "
                 "inside def and inside if, then seeded random blocks; non-trivial = the real rule changed the text"),
        "samples": samples,
        "modelled_rules": MODELLED, "rules_modelled": MODELLED,
        "histogram": dict(hist), "rule_cases": len(oc_cases) + len(mcm_cases), "semantic_cases": len(sem),
        "correspondence_disagreements": len(disagreements), "rule_problems": len(problems),
        "oracle_runs": n_oracle, "oracle_failures": len(failures), "witness_programs": n_wit,
        "timings_cumulative": timings,
    }


MODELLED = ["abstractions.overused_constant", "fixes.missing_context_manager"]
TRUSTED_BASE = [
    "AbsPy <-> Python text printer and ast reader in harness/c02_abs.py (round trip asserted on every case); the names "
    "overused_constant invents are numbered in the order of their assignments in the rule's output",
    "eval / exec_stmt / close_h / render of RulesAbsModel.v are definitions, validated against CPython with stub file "
    "objects (outcome incl. exception class and returned contents, event trace, contents of every variable)",
]
UNMODELLED = [
    "abstractions.simplify_if_control_flow: no model (finding F02-82 of the sweep)",
    "abstractions.overused_constant: choice of the scope (innermost common function), names derived from string contents, "
    "set / dict displays, numbers / bytes, f-strings, case patterns (witness programs only)",
    "fixes.missing_context_manager: constructors other than open (F02-41), ignore comments, one-line statements",
]
ASSUMPTIONS = [
    "opaque calls see the contents of their arguments but do not mutate or retain them; identity of immutable values "
    "(`is`, id()) is not observable; introspection of the namespace (locals(), dir(), import *) is outside",
    "a file object left open is not closed implicitly (no garbage collection in the model)",
]


def replay(mods, data) -> int:
    print(json.dumps({k: v for k, v in data.items() if k in ("kind", "rule", "site", "problem", "explanation")}, indent=1)[:3000])
    src = data.get("source")
    site = data.get("site") or data.get("rule") or ""
    if not src:
        return 0
    new = apply_oc(mods, src) if site.endswith("overused_constant") else apply_mcm(mods, src)
    print("input:\n" + src + "output now:\n" + new)
    if data.get("witness"):
        b, a = run_program(src), run_program(new)
        print("now:", repr(b), "->", repr(a))
        return 1 if a != b else 0
    return 0
