"""C02 tranche "str": text-level rules -- fixes.invalid_escape_sequence, fixes.deinterpolate_logging_args,
fixes.delete_commented_code.  Plug-in of harness/c02.py (check(run, mods, wd, rnd) -> dict, replay(mods, data)).

Per rule: (a) the reference semantics of RulesStrModel.v is validated against CPython (ast.literal_eval of generated
literals; LogRecord.getMessage / f-strings / str.format over a table of objects; tokenize), (b) the REAL rule runs on the
same inputs as the Gallina model (generated cases_*.v, Eval vm_compute in (bad_idx ..)), (c) the property oracle runs on
every input the real rule changed (value of the literal before / after; output of the logging call before / after with
the level enabled and disabled; token stream without COMMENT / NL before / after).  Design: design/C02_str.md."""
from __future__ import annotations

import ast
import io
import itertools
import json
import logging
import re
import time
import tokenize
import warnings
from collections import Counter
from pathlib import Path

from . import common

MODELLED = ["fixes.invalid_escape_sequence", "fixes.deinterpolate_logging_args", "fixes.delete_commented_code"]

HEADER = ("From Coq Require Import List NArith Bool Ascii.\nImport ListNotations.\n"
          "Require Import Pyrefact.RulesStrModel.\n"
          "Definition b (l : list N) : list ascii := map ascii_of_N l.\n"
          "Definition n (x : N) : nat := N.to_nat x.\n"
          "Definition t (l : list N) : list N := l.\n")

NAMES = {"DIGIT ONE": 49, "digit one": 49, "LATIN SMALL LETTER A": 97}


def gN(xs) -> str:
    return "[" + "; ".join(str(int(x)) for x in xs) + "]%N"


def gbody(s: str) -> str:
    return f"(b {gN(ord(c) for c in s)})"


def gtext(s) -> str:
    return f"(t {gN(ord(c) for c in s)})"


def gopt(x, f) -> str:
    return "None" if x is None else f"(Some {f(x)})"


def gbool(x) -> str:
    return "true" if x else "false"


def gnat(i: int) -> str:
    return f"(n {i})"


def gnats(xs) -> str:
    return "[" + "; ".join(gnat(x) for x in xs) + "]"


NAME_TAB = "[" + "; ".join(f"({gbody(k)}, {v}%N)" for k, v in NAMES.items()) + "]"


def apply_rule(mods, fname, src):
    mods["core"].parse.cache_clear()
    with common.quiet():
        return getattr(mods["fixes"], fname)(src)


# =================================================================================================
# 1. escapes

def literal_value(prefix: str, body: str):
    """code points / byte values of  prefix\"\"\"body\"\"\"  under CPython; None = not a literal"""
    with warnings.catch_warnings():
        warnings.simplefilter("ignore")
        try:
            v = ast.literal_eval(prefix + '"""' + body + '"""')
        except (SyntaxError, ValueError):
            return None
    return list(v) if isinstance(v, bytes) else [ord(c) for c in v]


ESC_ALPHABET = ["\\", "n", "x", "4", "d", "7", "\n"]
ESC_POOL = ["\\", "\\", "\\", "n", "x", "u", "U", "N", "{", "}", "DIGIT ONE", "digit one", "NOPE", "0", "1", "4", "7", "8",
            "a", "f", "g", "d", ".", "\n", "'", " ", "\\\\", "\\x41", "\\u0041", "\\U00000041", "\\U00110000",
            "\\N{DIGIT ONE}", "\\N{LATIN SMALL LETTER A}", "\\101", "\\777", "\\d", "\\.", "\\ooo", "\\xhh", "\u00e9",
            "\\\n", "\\'", "\\8", "\\N", "\\u12", "\\x4"]


def escape_bodies(rnd, quick):
    bodies = []
    for k in range(1, 5 if quick else 6):
        for tup in itertools.product(ESC_ALPHABET, repeat=k):
            bodies.append("".join(tup))
    fixed = ["\\d", "\\d\\x41", "\\d\\101", "\\d\\\n", "a\\d\\.", "\\u0041", "\\N{DIGIT ONE}\\d", "\\N{NOPE}", "\\q\\N{digit one}",
             "\\U0001F600", "\\U00110000\\d", "\\s+\\w", "C:\\dir\\file", "C:\\new", "\\ooo\\d", "\\xhh", "\\x4", "\\8\\9",
             "\\400", "\\1234", "\u00e9\\d", "\\"]
    n_seeded = 400 if quick else 3000
    seeded = []
    for _ in range(n_seeded):
        seeded.append("".join(rnd.choice(ESC_POOL) for _ in range(rnd.randint(1, 6))))
    seen, out = set(), []
    for bd in bodies + fixed + seeded:
        if bd not in seen and "\r" not in bd and "\0" not in bd and '"' not in bd:
            seen.add(bd)
            out.append(bd)
    return out, len(bodies) + len(fixed)


def old_guard(body: str) -> bool:
    """the guard of invalid_escape_sequence before 9b544c4 (pinned by ies_old_fires)"""
    valid = ("\\\\", "\\'", '\\"', "\\a", "\\b", "\\f", "\\n", "\\r", "\\t", "\\v", "\\ooo", "\\xhh", "\\N", "\\u", "\\U")
    return "\\" in body and not any(s in body for s in valid)


def check_escapes(mods, wd, rnd, quick, hist, files, meta, problems, failures):
    bodies, n_exh = escape_bodies(rnd, quick)
    sem_cases, rule_cases, old_cases, fired = [], [], [], []
    for bd in bodies:
        for raw, byt, prefix in ((False, False, ""), (True, False, "r"), (False, True, "b"), (True, True, "rb")):
            sem_cases.append((raw, byt, bd, literal_value(prefix, bd)))
        old_cases.append((bd, old_guard(bd)))
        val = literal_value("", bd)
        if val is None:
            continue
        src = f'x = """{bd}"""\n'
        try:
            out = apply_rule(mods, "invalid_escape_sequence", src)
        except Exception as e:  # noqa
            problems.append({"rule": "invalid_escape_sequence", "source": src, "problem": f"rule raised {type(e).__name__}: {e}"})
            continue
        if out == src:
            rule_cases.append((bd, False))
        elif out == f'x = r"""{bd}"""\n':
            rule_cases.append((bd, True))
            fired.append(src)
            hist["escape:fired"] += 1
            after = literal_value("r", bd)
            if after != val:
                failures.append(("fixes.invalid_escape_sequence",
                                 {"source": src, "output": out, "problem": f"value of the literal {val} -> {after}"}))
        else:
            problems.append({"rule": "invalid_escape_sequence", "source": src, "output": out,
                             "problem": "rule-output-outside-fragment"})
    # contexts in which the rule must leave the literal alone, and concatenations (model: ies_fires_concat)
    never = []
    for bd in ["\\d", "\\d+\\.", "a\\qb"]:
        for src in (f'x = b"{bd}"\n', f'x = r"{bd}"\n', f'x = u"{bd}"\n', f'x = rb"{bd}"\n', f'y = 1\nx = f"{{y}}{bd}"\n',
                    f"y = 1\nx = f'{{y}}\"{bd}'\n", f'y = 1\nx = f"{bd}{{y}}"\n'):
            never.append(src)
    for src in never:
        with warnings.catch_warnings():
            warnings.simplefilter("ignore")
            try:
                out = apply_rule(mods, "invalid_escape_sequence", src)
            except Exception as e:  # noqa
                problems.append({"rule": "invalid_escape_sequence", "source": src, "problem": f"rule raised {type(e).__name__}"})
                continue
        hist["escape:never-contexts"] += 1
        if out != src:
            same = _exec_value(src) == _exec_value(out)
            (problems if same else failures).append(
                {"rule": "invalid_escape_sequence", "source": src, "output": out,
                 "problem": "prefixed / f-string literal changed"} if same else
                ("fixes.invalid_escape_sequence", {"source": src, "output": out, "problem": "prefixed / f-string literal changed: "
                                                   f"{_exec_value(src)!r} -> {_exec_value(out)!r}"}))
    concat_cases = []
    pieces = ["\\d", "\\n", "a", "\\x41", "\\.", "\\\\"]
    combos = [(f, [(r1, p1)]) for f in pieces for p1 in pieces for r1 in (False, True)]
    combos += [(rnd.choice(pieces), [(rnd.random() < 0.4, rnd.choice(pieces)) for _ in range(2)]) for _ in range(60)]
    for first, rest in combos:
        src = 'x = "' + first + '" ' + " ".join(("r" if r else "") + '"' + p + '"' for r, p in rest) + "\n"
        before = _exec_value(src)
        if isinstance(before, Exception):
            continue
        out = apply_rule(mods, "invalid_escape_sequence", src)
        firedc = out == "x = r" + src[4:]
        if out != src and not firedc:
            problems.append({"rule": "invalid_escape_sequence", "source": src, "output": out, "problem": "rule-output-outside-fragment"})
            continue
        concat_cases.append((first, rest, firedc))
        if firedc:
            hist["escape:concat-fired"] += 1
            if _exec_value(out) != before:
                failures.append(("fixes.invalid_escape_sequence", {"source": src, "output": out,
                                                                   "problem": f"value {before!r} -> {_exec_value(out)!r}"}))

    def emit(kind, cases, typ, render, okfun):
        for k in range(0, len(cases), 500):
            shard = cases[k:k + 500]
            p = wd / f"str_{kind}_{k // 500}.v"
            p.write_text(HEADER + f"Definition cases : list ({typ}) := [\n " + ";\n ".join(render(c) for c in shard)
                         + f"\n].\nEval vm_compute in (bad_idx ({okfun}) cases).\n")
            files.append(p)
            meta.append((kind, shard))

    emit("escsem", sem_cases, "bool * bool * list ascii * option (list N)",
         lambda c: f"({gbool(c[0])}, {gbool(c[1])}, {gbody(c[2])}, {gopt(c[3], gN)})", f"se_case_ok {NAME_TAB}")
    emit("escrule", rule_cases, "list ascii * bool", lambda c: f"({gbody(c[0])}, {gbool(c[1])})", f"ies_case_ok {NAME_TAB}")
    emit("escold", old_cases, "list ascii * bool", lambda c: f"({gbody(c[0])}, {gbool(c[1])})", "ies_old_case_ok")
    emit("esccat", concat_cases, "list ascii * list (bool * list ascii) * bool",
         lambda c: f"({gbody(c[0])}, [" + "; ".join(f"({gbool(r)}, {gbody(p)})" for r, p in c[1]) + f"], {gbool(c[2])})",
         f"ies_concat_case_ok {NAME_TAB}")
    return {"escape_semantics_cases": len(sem_cases), "escape_rule_cases": len(rule_cases) + len(concat_cases) + len(never),
            "escape_exhaustive_bodies": n_exh, "escape_fired": hist["escape:fired"] + hist["escape:concat-fired"],
            "samples": fired[:: max(1, len(fired) // 3)][:3]}


def _exec_value(src):
    env = {}
    with warnings.catch_warnings():
        warnings.simplefilter("ignore")
        try:
            exec(compile(src, "<c02str>", "exec"), env)  # assignments of literals only
        except Exception as e:  # noqa
            return e
    return env.get("x")


# =================================================================================================
# 2. logging

class Custom:
    def __str__(self):
        return "S"

    def __repr__(self):
        return "R"

    def __format__(self, spec):
        return "F" + spec


class Raiser:
    def __str__(self):
        raise RuntimeError("no str")

    def __repr__(self):
        return "<raiser>"

    def __format__(self, spec):
        raise RuntimeError("no format")


def make_objects():
    return [1, "x%y", 2.5, None, (1, 2), {"k": 1}, {}, Custom(), Raiser(), "\u00e9{}"]


BENIGN_OBJS = [0, 1, 2, 3, 4, 5, 6, 9]


def _try(f):
    try:
        return f()
    except Exception:  # noqa
        return None


def object_table(objs) -> str:
    rows = []
    for o in objs:
        s, r, a, f = _try(lambda: str(o)), _try(lambda: repr(o)), _try(lambda: ascii(o)), _try(lambda: format(o, ""))
        from collections.abc import Mapping
        rows.append(f"({gopt(s, gtext)}, {gopt(r, gtext)}, {gopt(a, gtext)}, {gopt(f, gtext)}, "
                    f"{gbool(isinstance(o, Mapping) and bool(o))})")
    return "[" + ";\n  ".join(rows) + "]"


def g_part(p) -> str:
    if p[0] == "lit":
        return f"PLit {gtext(p[1])}"
    conv = {None: "CNone", "s": "CStr", "r": "CRepr", "a": "CAscii"}[p[2]]
    return f"PFld {gnat(p[1])} {conv} {gopt(p[3], gtext)}"


def fstring_src(parts) -> str:
    out = []
    for p in parts:
        if p[0] == "lit":
            out.append(p[1].replace("{", "{{").replace("}", "}}"))
        else:
            out.append("{o" + str(p[1]) + ("!" + p[2] if p[2] else "") + (":" + p[3] if p[3] is not None else "") + "}")
    return 'f"' + "".join(out) + '"'


def merge_lits(parts):
    out = []
    for p in parts:
        if p[0] == "lit" and out and out[-1][0] == "lit":
            out[-1] = ("lit", out[-1][1] + p[1])
        elif p[0] == "lit" and not p[1]:
            continue
        else:
            out.append(p)
    return out


LITS = ["a=", " ", "%", "100% ", "%s", "%%", "{", "}x", "b"]


def logging_parts(rnd, quick):
    fields = [("fld", i, c, None) for i in (0, 1, 7) for c in (None, "s", "r", "a")]
    fields += [("fld", 0, None, ""), ("fld", 0, None, ">3"), ("fld", 2, "r", ""), ("fld", 8, None, None), ("fld", 8, "s", None),
               ("fld", 8, "r", None), ("fld", 5, None, None), ("fld", 6, None, None), ("fld", 4, None, None), ("fld", 9, "a", None)]
    lits = [("lit", x) for x in LITS]
    atoms = lits + fields
    cases = [[a] for a in atoms] + [[a, b_] for a in atoms for b_ in atoms]
    n_exh = len(cases)
    for _ in range(250 if quick else 2500):
        cases.append([rnd.choice(atoms) for _ in range(rnd.randint(2, 5))])
    seen, out = set(), []
    for c in cases:
        c = merge_lits(c)
        k = repr(c)
        if c and k not in seen:
            seen.add(k)
            out.append(c)
    return out, n_exh


def run_logging(call_src: str, objs, enabled: bool):
    """observable outcome of a logging call: ('raise', type) | ('emit', [lines])"""
    logger = logging.getLogger("c02str.probe")
    logger.propagate = False
    stream = io.StringIO()
    handler = logging.StreamHandler(stream)
    handler.setFormatter(logging.Formatter("%(message)s"))
    logger.handlers[:] = [handler]
    logger.setLevel(logging.INFO if enabled else logging.ERROR)
    env = {f"o{i}": o for i, o in enumerate(objs)}
    env["logger"] = logger
    old = logging.raiseExceptions
    logging.raiseExceptions = False
    try:
        exec(compile(call_src, "<c02str>", "exec"), env)
    except Exception as e:  # noqa
        return ("raise", type(e).__name__)
    finally:
        logging.raiseExceptions = old
        logger.handlers[:] = []
    return ("emit", stream.getvalue().splitlines())


def parse_logging_output(out: str):
    """the rewritten call -> (format string, argument indices); None if it is not of that form"""
    try:
        call = ast.parse(out).body[0].value
        fmt = call.args[0]
        if not (isinstance(fmt, ast.Constant) and isinstance(fmt.value, str)):
            return None
        idx = []
        for a in call.args[1:]:
            if not (isinstance(a, ast.Name) and re.fullmatch(r"o\d+", a.id)):
                return None
            idx.append(int(a.id[1:]))
        return fmt.value, idx
    except Exception:  # noqa
        return None


def custom_format_case(case) -> bool:
    """both calls log a line, the texts differ, and a plain field holds the object with its own __format__"""
    return (case["before"][0] == "emit" and case["after"][0] == "emit" and case["enabled"]
            and any(p[0] == "fld" and p[1] == 7 and p[2] is None for p in case.get("parts", [])))


def raising_case(case) -> bool:
    """rendering the f-string raises; the rewritten call swallows it"""
    return (case["before"][0] == "raise" and case["after"][0] == "emit"
            and any(p[0] == "fld" and p[1] == 8 for p in case.get("parts", [])))


SIGS = {"custom_format_method": custom_format_case, "rendering_raises": raising_case}

FMT_ALPHABET = ["%", "s", "r", "a", "b", "{", "}", "="]
FORMAT_ALPHABET = ["{", "}", "!", "r", ":", "%", "=", "0"]


def check_logging(mods, wd, rnd, quick, hist, files, meta, problems, failures, reproduced, kf):
    objs = make_objects()
    tab = object_table(objs)
    head = HEADER + f"Definition tab : lg_tab := {tab}.\n"

    def emit(kind, cases, typ, render, okfun):
        for k in range(0, len(cases), 500):
            shard = cases[k:k + 500]
            p = wd / f"str_{kind}_{k // 500}.v"
            p.write_text(head + f"Definition cases : list ({typ}) := [\n " + ";\n ".join(render(c) for c in shard)
                         + f"\n].\nEval vm_compute in (bad_idx ({okfun}) cases).\n")
            files.append(p)
            meta.append((kind, shard))

    # -- msg % args as LogRecord.getMessage does it
    fmts = ["".join(tp) for k in range(0, 4) for tp in itertools.product(FMT_ALPHABET, repeat=k)]
    arglists = [[], [0], [5], [6], [0, 1], [7, 8], [5, 0]]
    pct = []
    for i, f in enumerate(fmts):
        for args in (arglists if len(f) <= 2 else [arglists[(i + j) % len(arglists)] for j in range(3)]):
            pct.append((f, args))
    for _ in range(300 if quick else 3000):
        pct.append(("".join(rnd.choice(FMT_ALPHABET + ["%s", "%r", "%%"]) for _ in range(rnd.randint(3, 7))),
                    [rnd.randrange(len(objs)) for _ in range(rnd.randint(0, 3))]))
    pct_cases = []
    for f, args in pct:
        rec = logging.LogRecord("n", 20, "p", 1, f, tuple(objs[i] for i in args), None)
        pct_cases.append((f, args, _try(rec.getMessage)))
    emit("pct", pct_cases, "text * list nat * option text",
         lambda c: f"({gtext(c[0])}, {gnats(c[1])}, {gopt(c[2], gtext)})", "lg_percent_case_ok tab")

    # -- f-strings: semantics, rule, oracle
    env = {f"o{i}": o for i, o in enumerate(objs)}
    cases, n_exh = logging_parts(rnd, quick)
    fs_cases, rule_cases, fired_samples = [], [], []
    n_oracle = 0
    for parts in cases:
        fsrc = fstring_src(parts)
        try:
            tree = ast.parse(fsrc, mode="eval").body
        except SyntaxError:
            hist["logging:unprintable"] += 1
            continue
        if not isinstance(tree, ast.JoinedStr):
            continue
        specs_ok = all(p[0] == "lit" or p[3] in (None, "") for p in parts)
        if specs_ok:
            fs_cases.append((parts, _try(lambda: eval(fsrc, dict(env)))))
        src = f"logger.info({fsrc})\n"
        try:
            out = apply_rule(mods, "deinterpolate_logging_args", src)
        except Exception as e:  # noqa
            problems.append({"rule": "deinterpolate_logging_args", "source": src, "problem": f"rule raised {type(e).__name__}: {e}"})
            continue
        if out == src:
            rule_cases.append((parts, None))
            continue
        got = parse_logging_output(out)
        if got is None:
            problems.append({"rule": "deinterpolate_logging_args", "source": src, "output": out, "problem": "rule-output-outside-fragment"})
            continue
        rule_cases.append((parts, got))
        hist["logging:fired"] += 1
        if len(fired_samples) < 3 and any(p[0] == "fld" for p in parts):
            fired_samples.append(src)
        for enabled in (True, False):
            before, after = run_logging(src, objs, enabled), run_logging(out, objs, enabled)
            n_oracle += 1
            if before != after:
                case = {"source": src, "output": out, "parts": parts, "enabled": enabled, "before": before, "after": after,
                        "problem": f"{src.strip()} -> {out.strip()} (level enabled: {enabled}): {before} vs {after}"}
                f = _match(kf, "fixes.deinterpolate_logging_args", case)
                if f is None:
                    failures.append(("fixes.deinterpolate_logging_args", case))
                else:
                    reproduced.setdefault(f.id, (f, []))[1].append(case)
    emit("fstr", fs_cases, "list part * option text",
         lambda c: f"([{'; '.join(g_part(p) for p in c[0])}], {gopt(c[1], gtext)})", "lg_fstring_case_ok tab")
    g_out = lambda o: gopt(o, lambda x: f"({gtext(x[0])}, {gnats(x[1])})")  # noqa
    emit("lgrule", rule_cases, "list part * option (text * list nat)",
         lambda c: f"([{'; '.join(g_part(p) for p in c[0])}], {g_out(c[1])})", "lg_rule_case_ok")

    # -- "fmt".format(o0, ..): semantics of the parsed format string, rule, oracle
    ffmts = ["".join(tp) for k in range(0, 5) for tp in itertools.product(FORMAT_ALPHABET, repeat=k)]
    if quick:
        ffmts = [f for i, f in enumerate(ffmts) if len(f) <= 3 or "{" in f and i % 3 == 0]
    ffmts += ["a={} b={!r}", "{}{}", "{{}} {}", "{!s}%{!a}", "100% {}", "{:}", "{!r:}", "{0}", "{x}", "{:>3}", "{}}", "{", "x"]
    for _ in range(150 if quick else 2000):
        ffmts.append("".join(rnd.choice(FORMAT_ALPHABET + ["{}", "{!r}", "{{", "}}", "a"]) for _ in range(rnd.randint(2, 7))))
    fmt_sem, fmt_rule = [], []
    order = [0, 1, 7, 2]
    for i, f in enumerate(dict.fromkeys(ffmts)):
        for nargs in ((0, 1, 2) if len(f) <= 4 else (f.count("{") - 2 * f.count("{{"),)):
            nargs = max(0, min(nargs, 3))
            args = order[:nargs]
            argsrc = ", ".join(f"o{k}" for k in args)
            # the model numbers the arguments 0..n-1: present them under those names
            env2 = {f"o{j}": objs[k] for j, k in enumerate(args)}
            fmt_sem.append((f, nargs, [objs[k] for k in args], _try(lambda: f.format(*[objs[k] for k in args]))))
            src = f"logger.info({f!r}.format({', '.join(f'o{j}' for j in range(nargs))}))\n"
            try:
                out = apply_rule(mods, "deinterpolate_logging_args", src)
            except Exception as e:  # noqa
                problems.append({"rule": "deinterpolate_logging_args", "source": src, "problem": f"rule raised {type(e).__name__}: {e}"})
                continue
            if out == src:
                fmt_rule.append((f, nargs, None))
                continue
            got = parse_logging_output(out)
            if got is None:
                problems.append({"rule": "deinterpolate_logging_args", "source": src, "output": out, "problem": "rule-output-outside-fragment"})
                continue
            fmt_rule.append((f, nargs, got))
            hist["logging:format-fired"] += 1
            pool = [objs[k] for k in args] + [None] * 10
            for enabled in (True, False):
                before, after = run_logging(src, pool, enabled), run_logging(out, pool, enabled)
                n_oracle += 1
                if before != after:
                    case = {"source": src, "output": out, "enabled": enabled, "before": before, "after": after,
                            "parts": [("fld", k, None, None) for k in args],
                            "problem": f"{src.strip()} -> {out.strip()} with {argsrc} (enabled: {enabled}): {before} vs {after}"}
                    fd = _match(kf, "fixes.deinterpolate_logging_args", case)
                    if fd is None:
                        failures.append(("fixes.deinterpolate_logging_args", case))
                    else:
                        reproduced.setdefault(fd.id, (fd, []))[1].append(case)
    # semantics of str.format: the table must present the arguments as objects 0..n-1 -> one file per argument count
    for nargs in (0, 1, 2, 3):
        sub = [c for c in fmt_sem if c[1] == nargs]
        if not sub:
            continue
        tab_n = object_table([objs[k] for k in order[:nargs]] + [None])
        for k in range(0, len(sub), 500):
            shard = sub[k:k + 500]
            p = wd / f"str_fmtsem{nargs}_{k // 500}.v"
            p.write_text(HEADER + f"Definition tab : lg_tab := {tab_n}.\n"
                         "Definition cases : list (text * nat * option text) := [\n "
                         + ";\n ".join(f"({gtext(c[0])}, {gnat(c[1])}, {gopt(c[3], gtext)})" for c in shard)
                         + "\n].\nEval vm_compute in (bad_idx (lg_format_case_ok tab) cases).\n")
            files.append(p)
            meta.append(("fmtsem", shard))
    emit("fmtrule", fmt_rule, "text * nat * option (text * list nat)",
         lambda c: f"({gtext(c[0])}, {gnat(c[1])}, {g_out(c[2])})", "lg_rule_format_case_ok")

    # -- shapes the rule must leave alone (beyond the model: further arguments, keywords, numbered fields, other receivers)
    for src in ['logger.info(f"a={o0}", o1)\n', 'logger.info(f"a={o0}", extra=o5)\n', 'logger.log(f"a={o0}")\n',
                'logger.info("a={x}".format(x=o0))\n', 'logger.info("a={}".format(*o4))\n', 'logger.info("a={}".format(o0, o1))\n',
                'printer.info(f"a={o0}")\n', 'logger.inform(f"a={o0}")\n',
                'class L:\n    def info(self, m):\n        print(m)\nlogger = L()\nlogger.info(f"a={o0}")\n']:
        out = apply_rule(mods, "deinterpolate_logging_args", src)
        hist["logging:leave-alone"] += 1
        if out != src:
            problems.append({"rule": "deinterpolate_logging_args", "source": src, "output": out,
                             "problem": "call outside the modelled shapes was rewritten"})
    src = 'logger.log(20, f"a={o0} {o1!r}%")\n'
    out = apply_rule(mods, "deinterpolate_logging_args", src)
    if run_logging(src, objs, True) != run_logging(out, objs, True) or out == src:
        failures.append(("fixes.deinterpolate_logging_args", {"source": src, "output": out, "problem": "logger.log(level, f-string)"}))
    return {"percent_cases": len(pct_cases), "fstring_cases": len(fs_cases), "logging_rule_cases": len(rule_cases) + len(fmt_rule),
            "format_semantics_cases": len(fmt_sem), "logging_exhaustive": n_exh, "logging_oracle_runs": n_oracle,
            "logging_fired": hist["logging:fired"] + hist["logging:format-fired"], "samples": fired_samples}


def _match(kf, site, case):
    for f in kf:
        if f.kind != "finding" or f.fields.get("site") != site:
            continue
        pred = SIGS.get(f.fields.get("sig", ""))
        try:
            if pred and pred(case):
                return f
        except Exception:  # noqa
            continue
    return None


# =================================================================================================
# 3. commented-out code

def sig_tokens(src: str):
    """(type, string) of every token but COMMENT / NL (and the end marker); None = does not tokenize"""
    src = src.replace("\r\n", "\n").replace("\r", "\n")      # the compiler reads a bare carriage return as a line end
    try:
        toks = list(tokenize.generate_tokens(io.StringIO(src).readline))
    except (tokenize.TokenError, SyntaxError, IndentationError):
        return None
    out = []
    for tk in toks:
        if tk.type in (tokenize.COMMENT, tokenize.NL, tokenize.ENDMARKER):
            continue
        out.append((tokenize.tok_name[tk.type], "" if tk.type == tokenize.NEWLINE else tk.string))
    return out


def same_ast(a: str, b: str) -> bool:
    try:
        return ast.dump(ast.parse(a)) == ast.dump(ast.parse(b))
    except (SyntaxError, ValueError):
        return False


def classify_lines(src: str):
    """per physical line: (cand, blank, lit, tokens) -- cand/blank as the rule's regular expression sees the line, lit from
    the ast (str / bytes constants, f-strings), tokens from tokenize (a multi-line token gives every line a piece)"""
    lines = src.split("\n")
    if lines and lines[-1] == "":
        lines.pop()
    starts = [0]
    for ln in lines:
        starts.append(starts[-1] + len(ln) + 1)
    tree = ast.parse(src)
    lit = [False] * len(lines)
    for node in ast.walk(tree):
        if isinstance(node, ast.JoinedStr) or (isinstance(node, ast.Constant) and isinstance(node.value, (str, bytes))):
            for k in range(node.lineno - 1, node.end_lineno):
                lit[k] = True
    toks = [[] for _ in lines]
    table = {}
    for tk in tokenize.generate_tokens(io.StringIO(src).readline):
        if tk.type in (tokenize.ENDMARKER,):
            continue
        (r1, _), (r2, _) = tk.start, tk.end
        if tk.type in (tokenize.INDENT, tokenize.DEDENT) and r1 > len(lines):
            continue
        pieces = tk.string.split("\n") if r2 > r1 else [tk.string]
        for off, row in enumerate(range(r1, r2 + 1)):
            if row - 1 >= len(lines):
                continue
            if tk.type == tokenize.COMMENT:
                toks[row - 1].append("TComment")
            elif tk.type == tokenize.NL:
                toks[row - 1].append("TNl")
            else:
                key = (tokenize.tok_name[tk.type], pieces[off] if off < len(pieces) else "")
                toks[row - 1].append(f"TSig {gnat(table.setdefault(key, len(table)))}")
    out = []
    for i, ln in enumerate(lines):
        cand = re.match(r"[^\S\n]*#", ln) is not None
        blank = ln.strip() == ""
        out.append((cand, blank, lit[i], toks[i]))
    return lines, out


def sub_block_is_code(core, text: str) -> bool:
    """the decision of delete_commented_code for one sub-block (the part of the rule behind the range checks)"""
    block = re.sub(r"(?<![^\n])(\s*#)", "", text)
    lens = [x.end() - x.start() for x in re.finditer("(?<![^\n]) +", block)]
    indent = min(lens or [0])
    block = re.sub(r"(?<![^\n]) {" + str(indent) + "}", "", block)
    if not (block.strip() and core.is_valid_python(block)):
        return False
    for line in filter(None, map(str.strip, block.splitlines())):
        try:
            if Path(line).exists():
                return False
        except OSError:
            pass
    body = ast.parse(block).body
    if len(body) == 1 and isinstance(body[0], ast.Expr) and len(block) < 20 and not isinstance(body[0].value, ast.Call):
        return False
    if any(isinstance(s, ast.Expr) and isinstance(s.value, ast.Name) for s in body):
        return False
    if any(isinstance(s, ast.Expr) and isinstance(s.value, ast.NamedExpr) for s in body):
        return False
    for ann in ast.walk(ast.parse(block)):
        if isinstance(ann, ast.AnnAssign) and any(isinstance(x, ast.Name) and x.id in {"pylint", "mypy", "flake8", "noqa", "type"}
                                                  for x in ast.walk(ann)):
            return False
    return True


CODE_CHUNKS = [
    ["x{k} = {k}"], ["print(x{k})"], ["if x{k}:", "    y{k} = {k}", "    print(y{k})"], ["for i{k} in range({k}):", "    print(i{k})"],
    ["def f{k}(a):", "    return a + {k}", ""], ["s{k} = 'text # not a comment {k}'"],
]
COMMENT_CHUNKS = [
    ["# y{k} = compute_value({k})"], ["# print(old_value_{k})"], ["#print({k})"], ["# this is prose about item {k}, not code"],
    ["# a{k} = first_thing({k})", "# b{k} = second_thing({k})"], ["# prose number {k} here", "# z{k} = call_me({k})"],
    ["# z{k} = call_me_too({k})", "# and some prose {k}"], ["# if cond{k}:", "#     run_it({k})"], ["", "# w{k} = trailing({k})"],
    ["# w{k} = leading({k})", "", "# v{k} = behind_blank({k})"], ["# TODO {k}: think", "# q{k} = 1"], ["# name{k}"],
    ["# type: ignore"], ["# value_{k} = 1  # nested comment"], ["    # indented{k} = call({k})"], ["#"],
]
STRING_CHUNKS = [
    ['t{k} = """', "# inside_str({k})", '"""'], ['t{k} = b"""', "# inside_bytes({k})", '"""'],
    ['t{k} = f"""', "# inside_f({k}) {{x0}}", '"""'], ['t{k} = ("a{k}"', "# between_parts({k})", '      "b")'],
    ["u{k} = 1 \\", "# after_backslash({k})"], ["u{k} = [1,", "# in_brackets({k})", "      2]"],
    ['t{k} = """a', "# inside_str_2({k})", '""" + "x" # tail_comment({k})'], ["u{k} = 1 + \\", "    2", "# after_continued({k})"],
    ["'''doc{k}", "# in_docstring({k})", "'''"],
]
INDENTED = [["if x0:", "    # in_block{k} = call({k})", "    pass"], ["if x0:", "    pass", "    # at_block_end({k})", "print({k})"],
            ["def g{k}():", "    # only_comment({k})", "    # more_code({k})", "    return {k}"]]


def comment_sources(rnd, quick):
    chunks = CODE_CHUNKS + COMMENT_CHUNKS + STRING_CHUNKS + INDENTED
    seqs = [[c] for c in chunks]
    seqs += [[CODE_CHUNKS[0], c, CODE_CHUNKS[1]] for c in COMMENT_CHUNKS + STRING_CHUNKS + INDENTED]
    seqs += [[a, b_] for a in COMMENT_CHUNKS for b_ in COMMENT_CHUNKS[:8]]
    seqs += [[CODE_CHUNKS[0], a, b_] for a in STRING_CHUNKS for b_ in COMMENT_CHUNKS[:6]]
    seqs += [[CODE_CHUNKS[0], b_, a] for a in STRING_CHUNKS for b_ in COMMENT_CHUNKS[:6]]
    n_exh = len(seqs)
    for _ in range(150 if quick else 1500):
        seqs.append([rnd.choice(chunks) for _ in range(rnd.randint(2, 5))])
    out = []
    for seq in seqs:
        lines = ["x0 = 0"]
        for k, chunk in enumerate(seq, 1):
            lines += [ln.format(k=k) for ln in chunk]
        out.append("\n".join(lines) + "\n")
    return list(dict.fromkeys(out)), n_exh


def check_comments(mods, wd, rnd, quick, hist, files, meta, problems, failures):
    core = mods["core"]
    sources, n_exh = comment_sources(rnd, quick)
    cases, fired_samples = [], []
    n_oracle = 0
    for src in sources:
        try:
            ast.parse(src)
        except SyntaxError:
            hist["comments:invalid-source"] += 1
            continue
        before = sig_tokens(src)
        if before is None:
            continue
        lines, cls = classify_lines(src)
        if len(set(l for l in lines if l.strip())) != len([l for l in lines if l.strip()]):
            hist["comments:duplicate-lines"] += 1
            continue
        try:
            out = apply_rule(mods, "delete_commented_code", src)
        except Exception as e:  # noqa
            problems.append({"rule": "delete_commented_code", "source": src, "problem": f"rule raised {type(e).__name__}: {e}"})
            continue
        # the hypothesis of T02s_comments_rule_sound, measured: deletable lines carry only COMMENT / NL tokens
        hyp = all(all(not tk.startswith("TSig") for tk in toks) for cand, blank, lit, toks in cls if (cand or blank) and not lit)
        hist["comments:hypothesis-holds" if hyp else "comments:hypothesis-fails(backslash continuation)"] += 1
        n_oracle += 1
        after = sig_tokens(out)
        if after != before:
            if same_ast(src, out):
                hist["comments:tokens-differ-ast-equal(header joined with its one-line body)"] += 1
            else:
                failures.append(("fixes.delete_commented_code", {"source": src, "output": out,
                                                                 "problem": "the tokens other than COMMENT / NL changed"}))
            continue
        kept = []
        pos = 0
        ok = True
        nonblank = [(i, l) for i, l in enumerate(lines) if l.strip()]
        for ol in out.split("\n"):
            if not ol.strip():
                continue
            while pos < len(nonblank) and nonblank[pos][1] != ol:
                pos += 1
            if pos == len(nonblank):
                ok = False
                break
            kept.append(nonblank[pos][0])
            pos += 1
        if not ok:
            problems.append({"rule": "delete_commented_code", "source": src, "output": out, "problem": "rule-output-outside-fragment"})
            continue
        if len(kept) < len(nonblank):
            hist["comments:fired"] += 1
            if len(fired_samples) < 3:
                fired_samples.append(src)
            deleted = set(i for i, _ in nonblank) - set(kept)
            for i in deleted:
                cand, blank, lit, toks = cls[i]
                if not cand or lit:
                    problems.append({"rule": "delete_commented_code", "source": src, "output": out,
                                     "problem": f"deleted line {i} is not an unprotected comment line"})
                if any(tk.startswith("TSig") for tk in toks):
                    hist["comments:deleted-line-with-significant-token"] += 1
        # sub-blocks that the rule takes for code: every window of every run of comment / blank lines
        table = []
        i = 0
        while i < len(lines):
            if cls[i][0] or cls[i][1]:
                j = i
                while j < len(lines) and (cls[j][0] or cls[j][1]):
                    j += 1
                for a in range(i, j):
                    for b_ in range(a + 1, j + 1):
                        text = "\n".join(lines[a:b_])
                        if any(cls[k][0] for k in range(a, b_)) and sub_block_is_code(core, text):
                            table.append((a, b_))
                i = j
            else:
                i += 1
        cases.append((cls, table, kept, src, out))

    for k in range(0, len(cases), 250):
        shard = cases[k:k + 250]
        p = wd / f"str_comments_{k // 250}.v"
        rows = []
        for cls, table, kept, _, _ in shard:
            ls = "; ".join(f"mkLine {gnat(i)} {gbool(c)} {gbool(bl)} {gbool(li)} [{'; '.join(tk)}]" for i, (c, bl, li, tk) in enumerate(cls))
            rows.append(f"([{ls}], [{'; '.join(f'({gnat(a)}, {gnat(b_)})' for a, b_ in table)}], {gnats(kept)})")
        p.write_text(HEADER + "Definition cases : list (list line * list (nat * nat) * list nat) := [\n " + ";\n ".join(rows)
                     + "\n].\nEval vm_compute in (bad_idx cm_case_ok cases).\n")
        files.append(p)
        meta.append(("comments", shard))
    return {"comment_sources": len(cases), "comments_exhaustive": n_exh, "comments_oracle_runs": n_oracle,
            "comments_fired": hist["comments:fired"], "samples": fired_samples}


# regression programs: every one must keep its significant tokens (witnesses of the repairs 90435ba, f6ddf69, bf7f03b)
COMMENT_WITNESSES = [
    "# x = 1\x0cy\nprint(2)\n", "# x = f(1)\x0bsys.exit(3)\nprint(2)\n", 'x = b"""\n# foo(1)\n"""\nprint(x)\n',
    "x = 1\n# a = 1\rz = 3\nprint(z)\n", 'x = """\n# foo(1)\n"""\n', "x = 1 \\\n# print(3)\nprint(x)\n",
    "x = 1 \\\n# a = f(1)\n# b = f(2)\ny = 2\n", "if x: \\\n# y = f(1)\n    z = 2\n", "x = [\n# a = f(1)\n1]\n",
]


def check_comment_witnesses(mods, hist, failures):
    for src in COMMENT_WITNESSES:
        out = apply_rule(mods, "delete_commented_code", src)
        hist["comments:witnesses"] += 1
        b, a = sig_tokens(src), sig_tokens(out)
        if b is not None and a != b and same_ast(src, out):
            hist["comments:tokens-differ-ast-equal(header joined with its one-line body)"] += 1
        elif b is not None and a != b:
            failures.append(("fixes.delete_commented_code", {"source": src, "output": out,
                                                             "problem": "the tokens other than COMMENT / NL changed"}))


# =================================================================================================

def check(run, mods, wd, rnd) -> dict:
    t0 = time.time()
    quick = run.tier == "quick"
    hist = Counter()
    files, meta = [], []
    problems, failures, reproduced = [], [], {}
    wd = Path(wd)
    from . import c02_sweep
    kf = c02_sweep.live_findings("C02")
    timings = {}

    esc = check_escapes(mods, wd, rnd, quick, hist, files, meta, problems, failures)
    timings["escapes_s"] = round(time.time() - t0, 1)
    lg = check_logging(mods, wd, rnd, quick, hist, files, meta, problems, failures, reproduced, kf)
    timings["logging_s"] = round(time.time() - t0, 1)
    cm = check_comments(mods, wd, rnd, quick, hist, files, meta, problems, failures)
    check_comment_witnesses(mods, hist, failures)
    timings["comments_s"] = round(time.time() - t0, 1)

    results = common.run_case_files(files)
    timings["coq_s"] = round(time.time() - t0, 1)
    disagreements = []
    what = {"escsem": "semantics: decode vs ast.literal_eval", "escrule": "rule-model: ies_fires vs invalid_escape_sequence",
            "escold": "pinned old guard: ies_old_fires vs the guard before 9b544c4",
            "esccat": "rule-model: ies_fires_concat vs invalid_escape_sequence",
            "pct": "semantics: lg_getmessage vs LogRecord.getMessage", "fstr": "semantics: lg_fstring vs CPython f-string",
            "lgrule": "rule-model: lg_rule vs deinterpolate_logging_args",
            "fmtsem": "semantics: lg_fparse + lg_fstring vs str.format", "fmtrule": "rule-model: lg_rule_format vs deinterpolate_logging_args",
            "comments": "rule-model: cm_rule vs delete_commented_code"}
    for p, (kind, shard) in zip(files, meta):
        rc, out = results[p]
        idx = common.parse_nat_list(out) if rc == 0 else None
        if idx is None:
            disagreements.append({"kind": "eval-failed", "file": p.name, "log": out[-1200:]})
            continue
        for i in idx:
            c = shard[i]
            d = {"kind": what[kind].split(":")[0], "kernel": what[kind]}
            if kind == "comments":
                d.update(source=c[3], impl_output=c[4], table=repr(c[1]), kept=repr(c[2]))
            else:
                d.update(case=repr(c)[:600])
            disagreements.append(d)

    for fid, (f, hits) in sorted(reproduced.items()):
        run.known_finding(fid, f"{f.text} [{len(hits)} instances, e.g. {hits[0]['problem'][:300]}]")
    for f in kf:
        if f.kind == "finding" and f.id.startswith("F02str") and f.id not in reproduced:
            common.log(f"note: known finding {f.id} no longer reproduces")

    for d in (disagreements + problems)[:8]:
        common.log("str tranche: " + json.dumps(d, default=str)[:700])
    seen = Counter()
    for site, f in failures:
        seen[site] += 1
        if seen[site] <= 2:
            run.violation({"tranche": "str", "kind": "property-oracle", "site": site,
                           **{k: (v if isinstance(v, (str, bool)) else repr(v)) for k, v in f.items()},
                           "explanation": "the rewritten text means something else (value of the literal / output of the "
                                          "logging call / token stream without comments), and no listed finding covers it"}, True)
    if not failures:
        for d in (disagreements + problems)[:5]:
            run.violation({"tranche": "str", **{k: (v if isinstance(v, (str, bool)) else repr(v)) for k, v in d.items()},
                           "kernel": d.get("kernel", "RulesStr"),
                           "explanation": "model and implementation (or model and CPython) disagree; the property oracle found "
                                          "no input on which the rewritten text means something else"}, False)
    elif disagreements or problems:
        run.notes.append(f"str: {len(disagreements)} disagreements / {len(problems)} rule problems alongside the oracle failures")
    timings["total_s"] = round(time.time() - t0, 1)
    n_eval = (esc["escape_semantics_cases"] + esc["escape_rule_cases"] + lg["percent_cases"] + lg["fstring_cases"]
              + lg["logging_rule_cases"] + lg["format_semantics_cases"] + lg["logging_oracle_runs"] + cm["comment_sources"]
              + cm["comments_oracle_runs"])
    return {
        "evaluations": n_eval,
        "distinct_nontrivial": esc["escape_fired"] + lg["logging_fired"] + cm["comments_fired"],
        "rule": ("escapes: every body over {\\, n, x, 4, d, 7, newline} up to length 4 (5 thorough) + fixed + seeded bodies from a "
                 "pool of escape fragments, in 4 literal kinds; logging: every 1- and 2-part f-string over 9 literal chunks x 22 "
                 "fields, every % format over 8 characters up to length 3, str.format strings over 8 characters up to length 4, + "
                 "seeded; comments: chunk sequences (code / comment / string / continuation chunks) + seeded. non-trivial = the "
                 "real rule changed the text; distinct by source"),
        "samples": (esc["samples"] + lg["samples"] + cm["samples"])[:8],
        "modelled_rules": MODELLED, "rules_modelled": MODELLED,
        "histogram": dict(hist),
        **{k: v for d in (esc, lg, cm) for k, v in d.items() if k != "samples"},
        "correspondence_disagreements": len(disagreements), "rule_problems": len(problems), "oracle_failures": len(failures),
        "timings_cumulative": timings,
    }


TRUSTED_BASE = [
    "str tranche: decode (escape decoding), lg_fstring / lg_getmessage / lg_fparse (rendering) of RulesStrModel.v are "
    "definitions, validated on every run against ast.literal_eval, f-string evaluation, LogRecord.getMessage and str.format",
    "str tranche: the line classification of delete_commented_code (comment / blank / inside a literal / tokens per line) is "
    "computed by CPython's tokenize and ast in harness/c02_str.py::classify_lines; the parse decision per sub-block is an oracle",
]
UNMODELLED = [
    "fixes.invalid_escape_sequence: non-Latin-1 source characters, carriage returns inside literals, prefixes u / b / f (the rule "
    "never touches them: checked on fixed examples only)",
    "fixes.deinterpolate_logging_args: the recogniser of logging names (_logging_names), nested format specs, numbered / named "
    "str.format fields (refused by the rule: checked on fixed examples)",
    "fixes.delete_commented_code: the text back end (which blank lines remain) and the heuristics behind the parse oracle",
]
ASSUMPTIONS = [
    "logging: handlers render the record synchronously with LogRecord.getMessage (no QueueHandler that formats later, no "
    "custom LogRecord factory); str() / repr() of the arguments have no side effect the program observes",
]


def replay(mods, data) -> int:
    print(json.dumps({k: v for k, v in data.items() if k in ("kind", "site", "kernel", "problem", "explanation")}, indent=1))
    src, site = data.get("source"), data.get("site", "")
    if not (src and site):
        return 0
    fname = site.split(".")[-1]
    out = apply_rule(mods, fname, src)
    print("input:\n" + src + "output now:\n" + out)
    if fname == "delete_commented_code":
        return 1 if sig_tokens(src) != sig_tokens(out) and not same_ast(src, out) else 0
    if fname == "invalid_escape_sequence":
        return 1 if repr(_exec_value(src)) != repr(_exec_value(out)) else 0
    if fname == "deinterpolate_logging_args":
        objs = make_objects()
        bad = 0
        for enabled in (True, False):
            b, a = run_logging(src, objs, enabled), run_logging(out, objs, enabled)
            print(f"  enabled={enabled}: {b} -> {a}")
            bad += b != a
        return 1 if bad else 0
    return 0
