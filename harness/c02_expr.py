"""C02, expression / collection tranche: correspondence of coq/theories/RulesExprModel.v with the real
rule functions, validation of the Gallina value semantics against CPython, and the property oracle
(execute before / after) for the modelled rules.

Entry point for harness/c02.py:   check(run, mods, wd, rnd) -> dict of coverage numbers.
Stand-alone runner for development: harness/c02x.py (./check C02X)."""
from __future__ import annotations

import ast
import collections.abc
import copy
import itertools
import json
import warnings
from collections import Counter

from . import common
from .common import gz, glist, gbool

# ---------------------------------------------------------------------------------------------
# terms (mirror of the Gallina type expr)
#   ("const", v)  v in None/True/False/int>=0/'a'*n      ("name", i)   i = 0 is `_`
#   ("call", f, [args])   ("bi", b, [args])   ("seq", k, [elts])   ("dict", [items])
#   ("cmp", l, [ops])   ("not", e)   ("comp", k, elt, dval, tgt, iter, [ifs])
#   ("star", e)   ("kw", k, e)   ("kv", k, v)   ("dstar", v)   ("op", o, e)
#   tgt: ("tname", x) | ("ttup", [xs])

BI_TXT = {"BList": "list", "BTuple": "tuple", "BSet": "set", "BDict": "dict", "BIter": "iter", "BSorted": "sorted",
          "BReversed": "reversed", "BSum": "sum", "BLen": "len", "BEnumerate": "enumerate", "BZip": "zip",
          "BZipLongest": "itertools.zip_longest", "BZipLongestBare": "zip_longest", "BChain": "itertools.chain"}
TXT_BI = {v: k for k, v in BI_TXT.items()}
KW_TXT = {0: "reverse", 1: "key", 2: "start", 3: "strict"}
TXT_KW = {v: k for k, v in KW_TXT.items()}
OP_TXT = {"Eq": "==", "NotEq": "!=", "Lt": "<", "LtE": "<=", "Gt": ">", "GtE": ">=", "Is": "is", "IsNot": "is not",
          "In": "in", "NotIn": "not in"}
OPS = list(OP_TXT)
SK_OPEN = {"KList": ("[", "]"), "KTuple": ("(", ")"), "KSet": ("{", "}")}
CK_OPEN = {"CList": ("[", "]"), "CGen": ("(", ")"), "CSet": ("{", "}"), "CDict": ("{", "}")}


class Unsupported(Exception):
    pass


def C(v):
    return ("const", v)


def N(i):
    return ("name", i)


def name_txt(i):
    return "_" if i == 0 else f"v{i}"


def p_tgt(t):
    if t[0] == "tname":
        return name_txt(t[1])
    return "(" + ", ".join(name_txt(x) for x in t[1]) + ("," if len(t[1]) == 1 else "") + ")"


def p_expr(t, top=False) -> str:
    k = t[0]
    if k == "const":
        return repr(t[1])
    if k == "name":
        return name_txt(t[1])
    if k == "call":
        return f"f{t[1]}(" + ", ".join(p_expr(a) for a in t[2]) + ")"
    if k == "bi":
        return BI_TXT[t[1]] + "(" + ", ".join(p_expr(a) for a in t[2]) + ")"
    if k == "seq":
        o, c = SK_OPEN[t[1]]
        if t[1] == "KSet" and not t[2]:
            return "{*()}"
        inner = ", ".join(p_expr(a) for a in t[2])
        if t[1] == "KTuple" and len(t[2]) == 1:
            inner += ","
        return o + inner + c
    if k == "dict":
        return "{" + ", ".join(p_expr(a) for a in t[1]) + "}"
    if k == "cmp":
        return "(" + p_expr(t[1]) + " " + " ".join(p_expr(o) for o in t[2]) + ")"
    if k == "not":
        return "(not " + p_expr(t[1]) + ")"
    if k == "comp":
        _, ck, elt, dval, tg, it, ifs = t
        o, c = CK_OPEN[ck]
        head = f"{p_expr(elt)}: {p_expr(dval)}" if ck == "CDict" else p_expr(elt)
        s = f"{o}{head} for {p_tgt(tg)} in {p_expr(it)}"
        for i in ifs:
            s += f" if {p_expr(i)}"
        return s + c
    if k == "star":
        return "*" + p_expr(t[1])
    if k == "kw":
        return f"{KW_TXT[t[1]]}={p_expr(t[2])}"
    if k == "kv":
        return f"{p_expr(t[1])}: {p_expr(t[2])}"
    if k == "dstar":
        return "**" + p_expr(t[1])
    if k == "op":
        return f"{OP_TXT[t[1]]} {p_expr(t[2])}"
    raise ValueError(t)


def g_atom(v) -> str:
    if v is None:
        return "ANone"
    if isinstance(v, bool):
        return f"(ABool {gbool(v)})"
    if isinstance(v, int):
        return f"(AInt {gz(v)})"
    if isinstance(v, str) and set(v) <= {"a"}:
        return f"(AStr {len(v)})"
    raise Unsupported(repr(v))


def g_tgt(t) -> str:
    if t[0] == "tname":
        return f"(TName {t[1]})"
    return "(TTup " + glist(t[1], lambda x: f"{x}%nat") + ")"


def g_expr(t) -> str:
    k = t[0]
    if k == "const":
        return f"(EConst {g_atom(t[1])})"
    if k == "name":
        return f"(EName {t[1]})"
    if k == "call":
        return f"(ECall {t[1]} {glist(t[2], g_expr)})"
    if k == "bi":
        return f"(EBi {t[1]} {glist(t[2], g_expr)})"
    if k == "seq":
        return f"(ESeq {t[1]} {glist(t[2], g_expr)})"
    if k == "dict":
        return f"(EDict {glist(t[1], g_expr)})"
    if k == "cmp":
        return f"(ECmp {g_expr(t[1])} {glist(t[2], g_expr)})"
    if k == "not":
        return f"(ENot {g_expr(t[1])})"
    if k == "comp":
        _, ck, elt, dval, tg, it, ifs = t
        return f"(EComp {ck} {g_expr(elt)} {g_expr(dval)} {g_tgt(tg)} {g_expr(it)} {glist(ifs, g_expr)})"
    if k == "star":
        return f"(EStar {g_expr(t[1])})"
    if k == "kw":
        return f"(EKw {t[1]} {g_expr(t[2])})"
    if k == "kv":
        return f"(EKV {g_expr(t[1])} {g_expr(t[2])})"
    if k == "dstar":
        return f"(EDStar {g_expr(t[1])})"
    if k == "op":
        return f"(EOp {t[1]} {g_expr(t[2])})"
    raise ValueError(t)


DUMMY = C(None)   # dval of a non-dict comprehension (ignored by eval and by the printers)


def name_of(s: str) -> int:
    if s == "_":
        return 0
    if s[0] == "v" and s[1:].isdigit():
        return int(s[1:])
    raise Unsupported("name " + s)


def t_tgt(n):
    if isinstance(n, ast.Name):
        return ("tname", name_of(n.id))
    if isinstance(n, ast.Tuple) and all(isinstance(e, ast.Name) for e in n.elts):
        return ("ttup", [name_of(e.id) for e in n.elts])
    raise Unsupported("target " + ast.dump(n))


def func_txt(f) -> str | None:
    if isinstance(f, ast.Name):
        return f.id
    if isinstance(f, ast.Attribute) and isinstance(f.value, ast.Name):
        return f"{f.value.id}.{f.attr}"
    return None


def t_of_ast(n) -> tuple:
    """Python ast -> term (raises Unsupported outside the fragment)."""
    if isinstance(n, ast.Constant):
        v = n.value
        if v is None or isinstance(v, bool) or (isinstance(v, int) and v >= 0) or (isinstance(v, str) and set(v) <= {"a"}):
            return C(v)
        raise Unsupported("constant " + repr(v))
    if isinstance(n, ast.Name):
        return N(name_of(n.id))
    if isinstance(n, ast.Starred):
        return ("star", t_of_ast(n.value))
    if isinstance(n, ast.Call):
        fn = func_txt(n.func)
        args = [t_of_ast(a) for a in n.args]
        for kw in n.keywords:
            if kw.arg is None or kw.arg not in TXT_KW:
                raise Unsupported("keyword")
            args.append(("kw", TXT_KW[kw.arg], t_of_ast(kw.value)))
        if fn in TXT_BI:
            return ("bi", TXT_BI[fn], args)
        if fn and fn[0] == "f" and fn[1:].isdigit() and not n.keywords:
            return ("call", int(fn[1:]), args)
        raise Unsupported("call " + str(fn))
    if isinstance(n, (ast.List, ast.Tuple, ast.Set)):
        kind = {ast.List: "KList", ast.Tuple: "KTuple", ast.Set: "KSet"}[type(n)]
        elts = [t_of_ast(e) for e in n.elts]
        if kind == "KSet" and elts == [("star", ("seq", "KTuple", []))]:
            return ("seq", "KSet", [])          # {*()} is how an empty ast.Set is written
        return ("seq", kind, elts)
    if isinstance(n, ast.Dict):
        items = []
        for k, v in zip(n.keys, n.values):
            items.append(("dstar", t_of_ast(v)) if k is None else ("kv", t_of_ast(k), t_of_ast(v)))
        return ("dict", items)
    if isinstance(n, ast.Compare):
        return ("cmp", t_of_ast(n.left), [("op", type(o).__name__, t_of_ast(c)) for o, c in zip(n.ops, n.comparators)])
    if isinstance(n, ast.UnaryOp) and isinstance(n.op, ast.Not):
        return ("not", t_of_ast(n.operand))
    if isinstance(n, (ast.ListComp, ast.SetComp, ast.GeneratorExp, ast.DictComp)):
        if len(n.generators) != 1 or n.generators[0].is_async:
            raise Unsupported("generators")
        g = n.generators[0]
        ck = {ast.ListComp: "CList", ast.SetComp: "CSet", ast.GeneratorExp: "CGen", ast.DictComp: "CDict"}[type(n)]
        if ck == "CDict":
            elt, dval = t_of_ast(n.key), t_of_ast(n.value)
        else:
            elt, dval = t_of_ast(n.elt), DUMMY
        return ("comp", ck, elt, dval, t_tgt(g.target), t_of_ast(g.iter), [t_of_ast(i) for i in g.ifs])
    raise Unsupported(type(n).__name__)


def norm_term(t):
    """dval of non-dict comprehensions is irrelevant: normalise to DUMMY (both sides of a comparison)"""
    if isinstance(t, list):
        return [norm_term(x) for x in t]
    if not isinstance(t, tuple) or t[0] in ("tname", "ttup", "const"):
        return t
    if t[0] == "comp" and t[1] != "CDict":
        return ("comp", t[1], norm_term(t[2]), DUMMY, t[4], norm_term(t[5]), norm_term(t[6]))
    return tuple(norm_term(x) if i > 0 else x for i, x in enumerate(t))


# ---------------------------------------------------------------------------------------------
# values

class Obj:
    """opaque object: equal to None iff its number is odd (mirror of test_world.eq_or)"""

    def __init__(self, o):
        self.o = o

    def __eq__(self, other):
        if other is None:
            return self.o % 2 == 1
        if isinstance(other, Obj):
            return self.o == other.o
        return False

    def __hash__(self):
        return hash(("Obj", self.o))

    def __repr__(self):
        return f"Obj({self.o})"


def g_val(v) -> str:
    if v is None:
        return "VNone"
    if isinstance(v, bool):
        return f"(VBool {gbool(v)})"
    if isinstance(v, int):
        return f"(VInt {gz(v)})"
    if isinstance(v, str):
        if set(v) <= {"a"}:
            return f"(VStr {len(v)})"
        raise Unsupported("str " + v)
    if isinstance(v, Obj):
        return f"(VObj {v.o})"
    if isinstance(v, tuple):
        return f"(VTuple {glist(v, g_val)})"
    if isinstance(v, list):
        return f"(VList {glist(v, g_val)})"
    if isinstance(v, (set, frozenset)):
        return f"(VSet {glist(list(v), g_val)})"
    if isinstance(v, dict):
        return "(VDict " + glist(list(v.items()), lambda kv: f"({g_val(kv[0])}, {g_val(kv[1])})") + ")"
    if isinstance(v, Iter):
        return f"(VIter {glist(v.items, g_val)})"
    raise Unsupported(type(v).__name__)


class Iter:
    """snapshot of an iterator: what it would still yield"""

    def __init__(self, items):
        self.items = items

    def __repr__(self):
        return f"<iterator {self.items!r}>"


def snapshot(v):
    """Replace iterators by Iter snapshots (consumes them) -- only for final results / logged arguments."""
    if isinstance(v, collections.abc.Iterator):
        return Iter([snapshot(x) for x in v])
    if isinstance(v, tuple):
        return tuple(snapshot(x) for x in v)
    if isinstance(v, list):
        return [snapshot(x) for x in v]
    return v


def observe(v) -> str:
    """what a program could print, up to the (hash dependent) order of sets and the class of an iterator"""
    if isinstance(v, collections.abc.Iterator):
        return "<iterator [" + ", ".join(observe(x) for x in v) + "]>"
    if isinstance(v, (set, frozenset)):
        return "{" + ", ".join(sorted(observe(x) for x in v)) + "}"
    if isinstance(v, list):
        return "[" + ", ".join(observe(x) for x in v) + "]"
    if isinstance(v, tuple):
        return "(" + ", ".join(observe(x) for x in v) + ",)"
    if isinstance(v, dict):
        return "{" + ", ".join(f"{observe(k)}: {observe(x)}" for k, x in v.items()) + "}"
    return repr(v)


class Raised(Exception):
    pass


def run_expr(src_expr: str, bindings: dict, observer=snapshot):
    """Evaluate an expression under CPython with logging stubs.  Returns (value | ("exc", name), log)."""
    log = []

    def stub(i):
        def f(*args):
            r = len(log)
            log.append((i, [snapshot(copy.copy(a)) if isinstance(a, collections.abc.Iterator) else a for a in args]))
            if i == 0:
                return r
            if i == 1:
                return [2, True, 1]
            if i == 2:
                return args[0] if args else None
            if i == 3:
                raise Raised()
            return (i, r)
        return f

    env = {f"f{i}": stub(i) for i in range(6)}
    env["itertools"] = itertools
    env["zip_longest"] = itertools.zip_longest
    env.update({k: copy.deepcopy(v) for k, v in bindings.items()})
    try:
        with warnings.catch_warnings():
            warnings.simplefilter("ignore")
            code = compile(src_expr, "<e>", "eval")
        val = observer(eval(code, env))
    except Exception as e:  # noqa
        return ("exc", type(e).__name__), log
    return val, log


# pools of values for the free names (sets only where CPython's order is the insertion order)
VALUE_POOL = [
    [2, True, 1], [True, 1], [1, True, 0, False], (1, 2), [], (), {1, 2}, {1: "a", 2: "aa"}, 3, None, "aa", True,
    [1, 2, 3], [3, 1, 2], ["aa", "a"], [None], [(1, 2), (3, 4)], [[1], [2]], {True}, {1: 0}, [0, False], Obj(1), Obj(2),
    [1], (True,), [2, 1], 1, 0, {1, 2, 3}, {3},
]


def fixed_envs():
    """deterministic valuations of v1..v5 used by the oracle sweep"""
    e = []
    for a, b, c in [(0, 1, 2), (1, 0, 12), (2, 12, 13), (12, 13, 0), (3, 4, 5), (13, 2, 25), (4, 5, 3), (5, 3, 4),
                    (6, 0, 1), (7, 19, 7), (8, 9, 10), (9, 8, 21), (10, 11, 22), (21, 22, 8), (14, 15, 16),
                    (16, 14, 15), (17, 18, 19), (20, 0, 3), (23, 24, 0), (25, 0, 23), (1, 2, 0), (26, 27, 6), (27, 26, 28),
                    (6, 28, 18), (28, 6, 26), (6, 29, 1), (29, 6, 2)]:
        e.append({"v1": VALUE_POOL[a], "v2": VALUE_POOL[b], "v3": VALUE_POOL[c], "v4": VALUE_POOL[(a + 5) % len(VALUE_POOL)],
                  "v5": VALUE_POOL[(b + 7) % len(VALUE_POOL)]})
    return e


def g_bindings(b: dict) -> str:
    return glist(sorted(b.items()), lambda kv: f"({name_of(kv[0])}%nat, {g_val(kv[1])})")


def g_trace(log) -> str:
    return glist(log, lambda it: f"({it[0]}%nat, {glist(it[1], g_val)})")


# ---------------------------------------------------------------------------------------------
# the rules

RULES = {
    "RSingleton": ("fixes", "singleton_eq_comparison"),
    "RDupSet": ("fixes", "remove_duplicate_set_elts"),
    "RDupDict": ("fixes", "remove_duplicate_dict_keys"),
    "REnumerate": ("fixes", "redundant_enumerate"),
    "RZip": ("fixes", "unused_zip_args"),
    "RChained": ("performance", "remove_redundant_chained_calls"),
    "RChainCasts": ("fixes", "remove_redundant_chain_casts"),
    "RCompCasts": ("fixes", "remove_redundant_comprehension_casts"),
    "RNegated": ("fixes", "replace_negated_numeric_comparison"),
    "RUnpacks": ("fixes", "simplify_collection_unpacks"),
    "RDictUnpacks": ("fixes", "simplify_dict_unpacks"),
    "RLiterals": ("fixes", "replace_functions_with_literals"),
    "RStarred": ("fixes", "replace_redundant_starred"),
}


def rule_fn(mods, rid):
    m, f = RULES[rid]
    return getattr(mods[m], f)


def impl_root_yields(mods, rid, term):
    """Run the real generator on `y = <term>` and return (source, [candidate replacement terms for the
    root expression], n_ignored_yields).  A candidate = one transaction that touches the root node or the
    target / iter of the root comprehension."""
    core = mods["core"]
    source = "y = " + p_expr(term, top=True) + "\n"
    core.parse.cache_clear()
    with common.quiet():
        root = core.parse(source)
        top = root.body[0].value
        back = norm_term(t_of_ast(top))
        if back != norm_term(term):
            raise Unsupported(f"printer/parser round trip: {source!r}: {back} vs {term}")
        gen = rule_fn(mods, rid)._fix_func(source)
        groups, order = {}, []
        root_range = (4, len(source) - 1)
        for n, item in enumerate(gen or ()):
            item = tuple(item)
            if isinstance(item[0], ast.AST):      # snapshot now: some rules later mutate what they yielded
                item = (item[0], copy.deepcopy(item[1])) + item[2:]
            key = ("t", item[2]) if len(item) > 2 else ("i", n)
            if key not in groups:
                groups[key] = []
                order.append(key)
            groups[key].append(item)
        cands, ignored = [], 0
        anchors = {id(top)}
        if isinstance(top, (ast.ListComp, ast.SetComp, ast.GeneratorExp, ast.DictComp)):
            anchors |= {id(top.generators[0].iter), id(top.generators[0].target), id(top.generators[0])}
        for key in order:
            items = groups[key]
            if isinstance(items[0][0], core.Range):
                rng, text = items[0][0], items[0][1]
                if (rng.start, rng.end) == root_range:
                    cands.append(norm_term(t_of_ast(ast.parse(text.strip(), mode="eval").body)))
                else:
                    ignored += 1
                continue
            if not any(id(it[0]) in anchors for it in items):
                ignored += 1
                continue
            mapping = {id(it[0]): it[1] for it in items}
            new = _clone_with_map(top, mapping)
            cands.append(norm_term(t_of_ast(new)))
    core.parse.cache_clear()
    return source, cands, ignored


def _clone_with_map(node, mapping):
    """structural copy of `node` in which the nodes listed in mapping (by identity) are replaced"""
    if id(node) in mapping:
        return copy.deepcopy(mapping[id(node)])
    if isinstance(node, ast.AST):
        new = type(node)()
        for f, v in ast.iter_fields(node):
            setattr(new, f, _clone_with_map(v, mapping))
        return new
    if isinstance(node, list):
        return [_clone_with_map(x, mapping) for x in node]
    return node


# ---------------------------------------------------------------------------------------------
# generators of cases (exhaustive small shapes, then seeded random)

ATOMS = [C(None), C(True), C(False), C(0), C(1), C(2), C(""), C("a")]


def R(term):
    """mark a case drawn from the run's seeded PRNG (correspondence + semantics only, never the oracle sweep)"""
    return ("rnd", term)

F0 = ("call", 0, [])
F1 = ("call", 1, [])


def F2(a):
    return ("call", 2, [a])


def gen_singleton(tier, rnd, det):
    ls = [N(1), C(None), F0]
    cs = [C(None), C(True), C(False), C(0), N(2)]
    out = [("cmp", l, [("op", o, c)]) for l in ls for o in OPS for c in cs]
    for _ in range(150 if tier == "quick" else 2000):
        n = rnd.randint(2, 3)
        out.append(R(("cmp", rnd.choice(ls), [("op", rnd.choice(OPS), rnd.choice(cs + [F0])) for _ in range(n)])))
    return out


def gen_dup_set(tier, rnd, det):
    el = [C(1), C(True), C(0), C(False), C(None), C("a"), N(1), F0, ("star", N(2))]
    out = []
    for n in (1, 2, 3):
        out += [("seq", "KSet", list(c)) for c in itertools.product(el, repeat=n)]
    for _ in range(300 if tier == "quick" else 5000):
        out.append(R(("seq", "KSet", [rnd.choice(el + [C(2), C(""), C(1)]) for _ in range(rnd.randint(4, 6))])))
    return out


def gen_dup_dict(tier, rnd, det):
    keys = [C(1), C(True), C(2), C("a"), N(1)]
    vals = [C(0), N(2), F0, C("a")]
    ent = [("kv", k, v) for k in keys for v in vals] + [("dstar", N(3))]
    out = []
    for n in (1, 2):
        out += [("dict", list(c)) for c in itertools.product(ent, repeat=n)]
    small = [("kv", k, v) for k in (C(1), C(True), C(2)) for v in (C(0), N(2), F0)] + [("dstar", N(3)), ("kv", N(1), C(0))]
    tri = [("dict", list(c)) for c in itertools.product(small, repeat=3)]
    out += tri if tier != "quick" else det.sample(tri, 400)
    for _ in range(400 if tier == "quick" else 6000):
        out.append(R(("dict", [rnd.choice(small) for _ in range(rnd.randint(4, 6))])))
    return out


def gen_enumerate(tier, rnd, det):
    out = []
    elts = [N(2), F2(N(2)), ("seq", "KTuple", [N(0), N(2)])]
    tgts = [("ttup", [0, 2]), ("ttup", [1, 2]), ("ttup", [0, 0]), ("tname", 2), ("ttup", [0, 2, 1]), ("ttup", [2, 0])]
    its = [("bi", "BEnumerate", [N(3)]), ("bi", "BEnumerate", [F1]), ("bi", "BEnumerate", [N(3), C(1)]),
           ("bi", "BEnumerate", [("star", N(3))]), N(3), ("bi", "BZip", [N(3)]),
           ("bi", "BEnumerate", [N(3), ("kw", 2, C(1))]), ("bi", "BEnumerate", [("bi", "BEnumerate", [N(3)])])]
    ifss = [[], [F2(N(2)), N(2)]]
    out.append(("comp", "CList", N(2), DUMMY, ("ttup", [0, 2]), ("bi", "BEnumerate", [N(3)]), [N(0)]))
    for ck in ("CList", "CSet", "CGen", "CDict"):
        for elt, tg, it, ifs in itertools.product(elts, tgts, its, ifss):
            if tier == "quick" and ck in ("CSet", "CGen") and (elt != N(2) or ifs):
                continue
            dval = F0 if ck == "CDict" else DUMMY
            out.append(("comp", ck, elt, dval, tg, it, ifs))
    return out


def gen_zip(tier, rnd, det):
    out = []
    names = [0, 1, 2]
    args = [N(3), N(4), F1, N(5)]
    zs = ["BZip", "BZipLongest", "BZipLongestBare"]
    elts = [N(2), ("seq", "KTuple", [N(1), N(2)]), C(1)]
    for n in (1, 2, 3):
        for xs in itertools.product(names, repeat=n):
            for m in (n, n + 1) if n < 3 else (n,):
                pool = list(itertools.product(args, repeat=m))
                if tier == "quick" and len(pool) > 16:
                    pool = det.sample(pool, 16)
                for a in pool:
                    z = det.choice(zs) if tier == "quick" else None
                    for zf in ([z] if z else zs):
                        out.append(("comp", det.choice(["CList", "CSet", "CGen"]), det.choice(elts), DUMMY,
                                    ("ttup", list(xs)), ("bi", zf, list(a)), det.choice([[], [N(2)]])))
    for _ in range(60 if tier == "quick" else 600):
        xs = [rnd.choice(names) for _ in range(rnd.randint(2, 3))]
        a = [rnd.choice(args) for _ in xs]
        extra = rnd.choice([[("kw", 3, C(True))], [("star", N(3))], []])
        if extra and extra[0][0] == "star":
            a = a[:-1] + extra
            extra = []
        out.append(R(("comp", "CDict", N(2), F0, ("ttup", xs), ("bi", rnd.choice(zs), a + extra), [])))
        out.append(R(("comp", "CList", N(0), DUMMY, ("ttup", xs), ("bi", "BZip", a), [])))
    return out


CH_BI = ["BList", "BTuple", "BSet", "BIter", "BSorted", "BReversed", "BSum", "BLen"]
CH_KWS = [[], [("kw", 0, C(True))], [("kw", 0, N(2))], [("kw", 1, N(2))], [("kw", 0, C(False))],
          [("kw", 1, N(2)), ("kw", 0, C(0))], [("kw", 0, F0)]]


def gen_chained(tier, rnd, det):
    out = []
    inner_args = [N(1), F1, ("star", N(1))]
    for o, i in itertools.product(CH_BI, repeat=2):
        for x in inner_args:
            out.append(("bi", o, [("bi", i, [x])]))
        for ok, ik in itertools.product(CH_KWS, repeat=2):
            if not ok and not ik:
                continue
            if tier == "quick" and ok and ik and det.random() < 0.8:
                continue
            out.append(("bi", o, [("bi", i, [N(1)] + ik)] + ok))
    for a, b, c in itertools.product(CH_BI, repeat=3):
        out.append(("bi", a, [("bi", b, [("bi", c, [N(1)])])]))
    for o, i in itertools.product(CH_BI, repeat=2):     # arity variations
        out.append(("bi", o, [("bi", i, [N(1), N(2)])]))
        out.append(("bi", o, [("bi", i, [])]))
        out.append(("bi", o, [("bi", i, [N(1)]), N(2)]))
    for _ in range(400 if tier == "quick" else 8000):
        t = rnd.choice(inner_args[:2])
        for d in range(rnd.randint(3, 5)):
            t = ("bi", rnd.choice(CH_BI), [t] + (rnd.choice(CH_KWS) if rnd.random() < 0.3 else []))
        out.append(R(t))
    deep = ["BList", "BIter", "BReversed", "BSorted"] + (["BSet", "BTuple", "BSum"] if tier != "quick" else [])
    for a, b, c, d in itertools.product(deep, repeat=4):     # several passes of the rule interact here
        out.append(("bi", a, [("bi", b, [("bi", c, [("bi", d, [N(1)])])])]))
    return out


def gen_chain_casts(tier, rnd, det):
    out = []
    args = [N(1), N(2), F1, ("star", N(1))]
    for o in ["BList", "BSet", "BIter", "BTuple", "BSorted", "BSum"]:
        for n in (0, 1, 2):
            for a in itertools.product(args, repeat=n):
                out.append(("bi", o, [("bi", "BChain", list(a))]))
        out.append(("bi", o, [("bi", "BChain", [N(1)]), N(2)]))
        out.append(("bi", o, [("bi", "BChain", [N(1)]), ("kw", 0, C(True))]))
    return out


def gen_comp_casts(tier, rnd, det):
    out = []
    for f in ["BList", "BSet", "BIter", "BDict", "BTuple", "BSorted"]:
        for ck in ("CList", "CSet", "CGen", "CDict"):
            for elt in (N(2), F2(N(2))):
                for dval in ((C(0), N(1), F0, F2(N(2))) if ck == "CDict" else (DUMMY,)):
                    for ifs in ([], [N(2)]):
                        comp = ("comp", ck, elt, dval, ("tname", 2), N(3), ifs)
                        out.append(("bi", f, [comp]))
            out.append(("bi", f, [("comp", ck, N(2), C(0) if ck == "CDict" else DUMMY, ("tname", 2), N(3), []), N(1)]))
    return out


def gen_negated(tier, rnd, det):
    xs = [N(1), C(1), C(True), C("a"), F0, C(None), N(2), C(0)]
    out = [("not", ("cmp", l, [("op", o, r)])) for l in xs for o in OPS for r in xs]
    for _ in range(100 if tier == "quick" else 1000):
        out.append(R(("not", ("cmp", rnd.choice(xs), [("op", rnd.choice(OPS), rnd.choice(xs)) for _ in range(2)]))))
    out += [("cmp", N(1), [("op", "Lt", C(1))]), ("not", N(1)), ("not", ("not", ("cmp", N(1), [("op", "Lt", C(1))])))]
    return out


def gen_unpacks(tier, rnd, det):
    el = [C(1), N(1), ("star", ("seq", "KList", [C(1), F0])), ("star", ("seq", "KTuple", [C(1), C(2)])),
          ("star", ("seq", "KSet", [C(1), C(2)])), ("star", ("seq", "KSet", [C(1)])), ("star", ("dict", [])),
          ("star", ("dict", [("kv", C(1), C(2))])), ("star", ("dict", [("kv", C(1), F0)])),
          ("star", ("dict", [("kv", C(1), C(2)), ("kv", C(2), N(1))])), ("star", ("dict", [("dstar", N(1))])),
          ("star", N(2)), ("star", ("seq", "KList", [])), ("star", ("seq", "KTuple", [])),
          ("star", ("dict", [("kv", F0, C(2))])), ("star", ("seq", "KSet", [F0])),
          ("star", ("dict", [("kv", C(1), C(2)), ("dstar", N(1))])), ("star", ("seq", "KList", [("star", N(1))])),
          ("star", ("bi", "BList", [N(1)])), ("star", ("seq", "KSet", [("star", N(1))]))]
    out = []
    for k in ("KList", "KTuple", "KSet"):
        for n in (1, 2):
            out += [("seq", k, list(c)) for c in itertools.product(el, repeat=n)]
        for _ in range(150 if tier == "quick" else 3000):
            out.append(R(("seq", k, [rnd.choice(el) for _ in range(rnd.randint(3, 4))])))
    return out


def gen_dict_unpacks(tier, rnd, det):
    it = [("kv", C(1), C(0)), ("kv", N(1), F0), ("dstar", N(2)), ("dstar", ("dict", [("kv", C(1), C(2))])),
          ("dstar", ("dict", [])), ("dstar", ("dict", [("kv", C(1), F0), ("kv", C(True), C(0))])),
          ("dstar", ("dict", [("dstar", N(2))])), ("kv", C(True), C("a")),
          ("dstar", ("dict", [("kv", C(2), C(2)), ("dstar", ("dict", [("kv", C(1), C(1))]))]))]
    out = []
    for n in (1, 2):
        out += [("dict", list(c)) for c in itertools.product(it, repeat=n)]
    tri = [("dict", list(c)) for c in itertools.product(it, repeat=3)]
    out += tri if tier != "quick" else det.sample(tri, 250)
    return out


def gen_literals(tier, rnd, det):
    lc = ("comp", "CList", N(2), DUMMY, ("tname", 2), N(3), [])
    args = [None, ("seq", "KList", [C(1), N(1)]), ("seq", "KTuple", [C(1), F0]), ("seq", "KSet", [C(1), C(2)]),
            ("seq", "KList", []), ("seq", "KTuple", []), ("seq", "KList", [("star", N(1))]), lc,
            ("comp", "CSet",) + lc[2:], ("comp", "CGen",) + lc[2:], ("comp", "CDict", N(2), C(0), ("tname", 2), N(3), []),
            N(1), ("dict", []), ("seq", "KSet", [C(1), C(True)]), ("seq", "KTuple", [C(1)])]
    out = []
    for f in ["BList", "BTuple", "BDict", "BSet", "BIter", "BSorted", "BSum"]:
        for a in args:
            out.append(("bi", f, [] if a is None else [a]))
            if a is not None:
                out.append(("bi", f, [a, N(2)]))
                out.append(("bi", f, [a, ("kw", 0, C(True))]))
        out.append(("bi", f, [("star", N(1))]))
    return out


def gen_starred(tier, rnd, det):
    out = []
    for k in ("KList", "KTuple", "KSet"):
        for ck in ("CList", "CSet", "CGen", "CDict"):
            for elt in (N(2), F2(N(2))):
                comp = ("comp", ck, elt, C(0) if ck == "CDict" else DUMMY, ("tname", 2), N(3), [])
                out.append(("seq", k, [("star", comp)]))
                out.append(("seq", k, [("star", comp), C(1)]))
                out.append(("seq", k, [comp]))
        out.append(("seq", k, [("star", N(1))]))
    return out


# witnesses of the repaired defects (`fixed:` lines F02x-5..17): part of the deterministic families for ever
CORPUS = {
    "RSingleton": ["v1 == True", "v1 != False", "v1 == None"],
    "RDupDict": ["{1: 'a', True: 'aa', 'a': 2}", "{1: f0(1), 1: f0(3)}", "{1: 'a', 2: 'aa', 1: ''}", "{1: 'a', v1: 'aa', 1: ''}",
                 "{1: 'a', **v3, 1: ''}"],
    "REnumerate": ["[(_, v2) for _, v2 in enumerate(v3)]"],
    "RZip": ["[_ for _, v2 in zip(v3, v4)]", "[v2 for _, v2 in zip(v3, v4)]"],
    "RChained": ["sorted(list(set(list(v1))))", "list(tuple(set(sorted(v1))))", "sorted(list(v1), reverse=True)",
                 "sorted(sorted(v1, key=v2))", "set(sorted(v1, key=v2))", "reversed(list(v1))", "reversed(tuple(v1))",
                 "list(iter(reversed(sorted(v1))))", "sorted(sorted(v1, reverse=True))"],
    "RChainCasts": ["iter(itertools.chain())", "set(itertools.chain(*v1))", "list(itertools.chain(v2, *v1))"],
    "RCompCasts": ["iter([f2(v2) for v2 in v3])", "list({v2: f2(v2) for v2 in v3})", "set({v2: f2(v2) for v2 in v3})",
                   "iter({v2: 0 for v2 in v3})"],
    "RUnpacks": ["[*{1: f0()}]", "[*{**v1}]", "[*{*v1}]", "(*{*v1}, 1)", "{*{f0(): f0()}}"],
}


def corpus_terms(rid):
    return [norm_term(t_of_ast(ast.parse(src, mode="eval").body)) for src in CORPUS.get(rid, [])]


GENERATORS = {
    "RSingleton": gen_singleton, "RDupSet": gen_dup_set, "RDupDict": gen_dup_dict, "REnumerate": gen_enumerate,
    "RZip": gen_zip, "RChained": gen_chained, "RChainCasts": gen_chain_casts, "RCompCasts": gen_comp_casts,
    "RNegated": gen_negated, "RUnpacks": gen_unpacks, "RDictUnpacks": gen_dict_unpacks, "RLiterals": gen_literals,
    "RStarred": gen_starred,
}

HEADER = ("From Coq Require Import List ZArith Bool.\nImport ListNotations.\nOpen Scope Z_scope.\n"
          "Require Import Pyrefact.Base Pyrefact.RulesExprModel.\n")


# ---------------------------------------------------------------------------------------------
# known findings: site + structural predicate on a failing oracle case

def _has_obj(case):
    return any(isinstance(v, Obj) for v in case["env"].values())


def _zip_lengths(case):
    """the arguments of the zip call yield different numbers of items under the failing valuation"""
    tree = ast.parse(case["source"])
    for node in ast.walk(tree):
        if isinstance(node, ast.Call) and func_txt(node.func) in ("zip", "zip_longest", "itertools.zip_longest"):
            lens = set()
            for a in node.args:
                v, _ = run_expr(ast.unparse(a), case["env"], lambda x: len(list(x)))
                lens.add(repr(v))
            return len(lens) > 1
    return False


def _distinguishable_equal(v, depth=0):
    try:
        items = list(v) if not isinstance(v, (str, int, type(None), Obj)) else []
    except TypeError:
        return False
    for a, b in itertools.combinations(items, 2):
        try:
            if a == b and (type(a) is not type(b) or repr(a) != repr(b)):
                return True
        except Exception:  # noqa
            pass
    return False


def _stability(case):
    src = case["source"]
    return ("reversed" in src or "sorted" in src) and (
        any(_distinguishable_equal(v) for v in case["env"].values()) or "f1()" in src)   # f1() returns [2, True, 1]


def _reversed_sorted_type(case):
    return case["source"].startswith("y = reversed(sorted(") and "iterator" in case["before"] and "iterator" not in case["after"]


def _mutated_shared_node(case):
    """reversed(sorted(..)) below another redundant call: loop 3 edits the sorted() node that loop 1 yielded"""
    src = case["source"]
    return "reversed(sorted(" in src and not src.startswith("y = reversed(sorted(")


SIGS = {
    "shared_node_mutation": ("performance.remove_redundant_chained_calls", _mutated_shared_node),
    "custom_eq_none": ("fixes.singleton_eq_comparison", _has_obj),
    "zip_length": ("fixes.unused_zip_args", _zip_lengths),
    "sort_stability": ("performance.remove_redundant_chained_calls", _stability),
    "reversed_sorted_type": ("performance.remove_redundant_chained_calls", _reversed_sorted_type),
}


def match_finding(kf, site, case):
    for f in kf:
        if f.kind != "finding":
            continue
        sig = SIGS.get(f.fields.get("sig", ""))
        if not sig or sig[0] != site or f.fields.get("site") != site:
            continue
        try:
            if sig[1](case):
                return f
        except Exception:  # noqa
            continue
    return None


# ---------------------------------------------------------------------------------------------
# witness programs for rules of this tranche that have no Gallina model: (finding id, site, program)
WITNESSES = [
    ("F02x-18", "fixes.simplify_redundant_lambda",
     "def f(x):\n    return 1\ng = lambda x: f(x)\ndef f(x):\n    return 2\nprint(g(0))\n"),
]


def run_program(src: str) -> str:
    import contextlib
    import io
    out = io.StringIO()
    try:
        with contextlib.redirect_stdout(out):
            exec(compile(src, "<w>", "exec"), {"__name__": "w"})
    except Exception as e:  # noqa
        return out.getvalue() + f"<raised {type(e).__name__}>"
    return out.getvalue()


def check_witnesses(run, mods, kf) -> int:
    n = 0
    for fid, site, src in WITNESSES:
        m, f = site.split(".")
        with common.quiet():
            new = getattr(mods[m], f)(src)
        before, after = run_program(src), run_program(new)
        n += 1
        listed = [x for x in kf if x.kind == "finding" and x.id == fid and x.fields.get("site") == site]
        if before != after:
            if listed:
                run.known_finding(fid, f"{listed[0].text} [witness prints {before!r} before, {after!r} after]")
            else:
                run.violation({"tranche": "expr", "kind": "property-oracle", "site": site, "source": src, "output": new,
                               "problem": f"stdout {before!r} vs {after!r}",
                               "explanation": "witness program of an unmodelled rule prints something else after the rewrite"}, True)
        elif listed:
            common.log(f"note: known finding {fid} no longer reproduces")
    return n


# ---------------------------------------------------------------------------------------------

def oracle_case(mods, rid, source, envs):
    """property oracle on the real rule function: same observable value and same stub log"""
    rule = rule_fn(mods, rid)
    mods["core"].parse.cache_clear()
    with common.quiet():
        try:
            new = rule(source)
        except Exception as e:  # noqa
            return [{"source": source, "problem": f"rule raised {type(e).__name__}: {e}", "env": {}, "before": "",
                     "after": "crash"}], source
    mods["core"].parse.cache_clear()
    if new == source:
        return [], new
    fails = []
    try:
        ast.parse(new)
    except SyntaxError:
        return [{"source": source, "output": new, "problem": "output does not parse", "env": {}, "before": "",
                 "after": "syntax"}], new
    for env in envs:
        b, blog = run_expr(source[4:].strip(), env, observe)
        if isinstance(b, tuple) and b and b[0] == "exc":
            continue        # the property only speaks about runs of the original that terminate normally
        a, alog = run_expr(new[4:].strip(), env, observe)
        if a != b or repr(alog) != repr(blog):
            fails.append({"source": source, "output": new, "env": env, "before": repr(b), "after": repr(a),
                          "log_before": repr(blog), "log_after": repr(alog),
                          "problem": f"{source.strip()} -> {new.strip()} under {env}: {b!r} / {blog} vs {a!r} / {alog}"})
    return fails, new


def check(run, mods, wd, rnd) -> dict:
    import time
    t0 = time.time()
    timings = {}
    hist = Counter()
    tier = run.tier
    files, shards = [], []
    all_cases = []
    fired_sources = {}
    skipped = 0
    import random as _random
    det = _random.Random(20260928)       # sampling inside the deterministic families does not depend on VERIF_SEED
    random_sources = set()
    for rid, gen in GENERATORS.items():
        cases = corpus_terms(rid) + gen(tier, rnd, det)
        for term in cases:
            seeded = term[0] == "rnd"
            if seeded:
                term = term[1]
            try:
                source, cands, ignored = impl_root_yields(mods, rid, term)
            except Unsupported as e:
                skipped += 1
                hist[f"{rid}:unsupported"] += 1
                continue
            except Exception as e:  # noqa  -- the rule generator crashed
                source, cands, ignored = "y = " + p_expr(term) + "\n", [("crash", type(e).__name__)], 0
            all_cases.append((rid, term, cands, source))
            hist[f"{rid}:{'fired' if cands else 'silent'}"] += 1
            if cands:
                fired_sources.setdefault((rid, source), term)
                if seeded:
                    random_sources.add((rid, source))
                else:
                    random_sources.discard((rid, source))
    timings["impl_yields_s"] = round(time.time() - t0, 1)
    crashes = [c for c in all_cases if c[2] and c[2][0][0] == "crash"]
    items = [c for c in all_cases if not (c[2] and c[2][0][0] == "crash")]
    SH = 400
    for k in range(0, len(items), SH):
        shard = items[k:k + SH]
        body = ";\n ".join(f"({rid}, {g_expr(t)}, {glist(c, g_expr)})" for rid, t, c, _ in shard)
        p = wd / f"xrule_{k // SH}.v"
        p.write_text(HEADER + f"Definition cases : list (rule * expr * list expr) := [\n {body}\n].\n"
                              "Eval vm_compute in (bad_idx rule_case_ok cases).\n")
        files.append(p)
        shards.append(("rule", shard))

    # ---- semantics validation: CPython eval vs Gallina eval on inputs and outputs of fired cases
    envs = fixed_envs()
    sem = []
    seen = set()
    sem_terms = []
    for (rid, source), term in fired_sources.items():
        sem_terms.append(term)
        for c in next(c for r, t, c, s in items if s == source and r == rid):
            sem_terms.append(c)
    per_term = 3 if tier == "quick" else 8
    cap = 6000 if tier == "quick" else 60000
    for term in sem_terms:
        src = p_expr(term)
        if src in seen:
            continue
        seen.add(src)
        picks = [envs[(len(src) * 31 + sum(map(ord, src)) + j * 5) % len(envs)] for j in range(per_term)]
        for env in picks:
            if len(sem) >= cap:
                break
            val, log = run_expr(src, env)
            try:
                exp = "None" if (isinstance(val, tuple) and val and val[0] == "exc") else f"(Some ({g_val(val)}, {g_trace(log)}))"
                sem.append((term, env, exp, src, g_bindings({k: v for k, v in env.items()})))
            except Unsupported:
                hist["sem:unsupported-value"] += 1
    for k in range(0, len(sem), SH):
        shard = sem[k:k + SH]
        body = ";\n ".join(f"({g_expr(t)}, {gb}, {exp})" for t, _, exp, _, gb in shard)
        p = wd / f"xsem_{k // SH}.v"
        p.write_text(HEADER + "Definition cases : list (expr * list (nat * val) * option (val * trace)) := [\n "
                     f"{body}\n].\nEval vm_compute in (map sem_case_status cases).\n")
        files.append(p)
        shards.append(("sem", shard))

    timings["cpython_sem_s"] = round(time.time() - t0, 1)
    results = common.run_case_files(files)
    timings["coq_cases_s"] = round(time.time() - t0, 1)
    disagreements, sem_bad, sem_gap = [], [], 0
    for p, (kind, shard) in zip(files, shards):
        rc, out = results[p]
        idx = common.parse_nat_list(out) if rc == 0 else None
        if idx is None:
            disagreements.append({"kind": "eval-failed", "file": p.name, "log": out[-1500:]})
            continue
        if kind == "rule":
            for i in idx:
                rid, t, c, source = shard[i]
                disagreements.append({"kind": "rule-model", "rule": rid, "source": source, "impl_yields": [p_expr(x) for x in c]})
        else:
            for i, st in enumerate(idx):
                if st == 1:
                    sem_bad.append({"kind": "semantics", "expr": shard[i][3], "env": repr(shard[i][1]), "cpython": shard[i][2]})
                elif st == 2:
                    sem_gap += 1

    import os
    if os.environ.get("C02X_DEBUG"):
        with open(os.environ["C02X_DEBUG"], "w") as fh:
            json.dump({"disagreements": disagreements, "sem_bad": sem_bad}, fh, indent=1, default=str)
    # ---- property oracle (deterministic: fixed valuations) on every fired source
    from .c02_sweep import live_findings      # a `finding:` line with a later `fixed:` line is superseded
    kf = live_findings("C02")
    failures, reproduced = [], {}
    for (rid, source), term in fired_sources.items():
        if (rid, source) in random_sources:
            continue          # the sweep is seed-independent (DESIGN 0.1 "Stability")
        site = ".".join(RULES[rid])
        fails, new = oracle_case(mods, rid, source, envs)
        for f in fails:
            m = match_finding(kf, site, f)
            if m is None:
                failures.append((site, f))
            else:
                reproduced.setdefault(m.id, (m, []))[1].append(f)
    for c in crashes:
        failures.append((".".join(RULES[c[0]]), {"source": c[3], "problem": f"the rule generator raised {c[2][0][1]}"}))
    n_wit = check_witnesses(run, mods, kf)
    for fid, (f, hits) in sorted(reproduced.items()):
        run.known_finding(fid, f"{f.text} [{len(hits)} instances, e.g. {hits[0]['problem'][:300]}]")
    for f in kf:
        if f.kind == "finding" and f.fields.get("sig") in SIGS and f.id not in reproduced:
            common.log(f"note: known finding {f.id} no longer reproduces")

    timings["oracle_s"] = round(time.time() - t0, 1)
    # ---- verdicts
    seen_sites = Counter()
    for site, f in failures:
        seen_sites[site] += 1
        if seen_sites[site] <= 2:
            run.violation({"tranche": "expr", "kind": "property-oracle", "site": site, **{k: (repr(v) if k == "env" else v) for k, v in f.items()},
                           "explanation": "executing the rewritten expression gives a different value / call log"}, True)
    if not failures:
        for d in (disagreements + sem_bad)[:5]:
            run.violation({"tranche": "expr", **d, "kernel": "RulesExpr",
                           "explanation": "model and implementation (or model and CPython) disagree; the property "
                                          "oracle found no differing execution on the explored valuations"}, False)
    elif disagreements or sem_bad:
        run.notes.append(f"{len(disagreements)} correspondence / {len(sem_bad)} semantics disagreements alongside the oracle failures")
    n_fired = len(fired_sources)
    samples = [s for (_, s) in list(fired_sources)[:: max(1, n_fired // 8)]][:8]
    return {
        "evaluations": len(items) + len(sem),
        "distinct_nontrivial": n_fired,
        "rule": ("per rule: ALL small shapes of the rule's pattern over a fixed pool of operands (sizes in the histogram), "
                 "then seeded random larger shapes; non-trivial = the real generator yields a rewrite for the root; "
                 "distinct by (rule, source text). Semantics: CPython eval vs Gallina eval of every fired input and "
                 f"output under {per_term} valuations."),
        "samples": samples,
        "modelled_rules": [".".join(v) for v in RULES.values()],
        "histogram": dict(hist), "semantic_cases": len(sem), "semantic_gaps": sem_gap,
        "semantic_mismatches": len(sem_bad), "correspondence_disagreements": len(disagreements),
        "oracle_failures": len(failures), "oracle_sources": len(fired_sources) - len(random_sources),
        "seeded_random_fired": len(random_sources), "skipped_unsupported": skipped, "witness_programs": n_wit, "timings_cumulative": timings,
    }


TRUSTED_BASE = [
    "term <-> Python text printer and ast reader in harness/c02_expr.py (round trip asserted on every case)",
    "eval / bapply / py_sorted / mkset / dict_set of RulesExprModel.v are definitions, validated against CPython "
    "(value incl. type, element order, call log) on every fired input and output",
    "`simple` stands for `not core.has_side_effect` on the generated domain (names, constants, calls of unknown functions)",
]
UNMODELLED = ["fixes.simplify_redundant_lambda", "fixes.implicit_dict_keys_values_items",
              "for-statement forms of redundant_enumerate / unused_zip_args (only comprehensions are modelled)"]
ASSUMPTIONS = [
    "no floats, no user classes other than the opaque objects VObj; sets iterate in insertion order in the model "
    "(results are compared as sets)",
    "generator expressions are evaluated eagerly by the model (sound where they are consumed at once)",
    "rules are modelled at the root of the expression; below the root the same function applies to a subterm",
]


def replay(mods, data) -> int:
    if data.get("kind") == "property-oracle" and data.get("source"):
        for rid, (m, f) in RULES.items():
            if f"{m}.{f}" == data.get("site"):
                fails, new = oracle_case(mods, rid, data["source"], fixed_envs())
                print("now:", data["source"].strip(), "->", new.strip(), "failing valuations:", len(fails))
                for f_ in fails[:3]:
                    print("  ", f_["problem"])
                return 1 if fails else 0
    return 0
