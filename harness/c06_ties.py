"""C06 -- the *tie* family (round 5, seed C06-d): deterministic inputs for every place where pyrefact picks ONE of several
candidates.  In each input the candidates are equally good by the criterion the code uses (equal mention counts, equal
lengths, equal frequencies, same line, same text), so that whatever decides is NOT the criterion: if it is the
iteration order of a set the result moves with PYTHONHASHSEED (sets of str) or with the heap layout (sets of nodes).
Every module is formatted with `format_code` and handed to the rule it aims at, in fresh interpreters under >= 8 hash
seeds and several times in one process with a disturbed heap; the results are byte-compared.

The family is seed-independent.  `TIES` = [(label, module text)], `RULE_TIES` = [(rule, module text, args, kwargs)]."""
from __future__ import annotations

import itertools


def _spellings(conventional: str):
    """non-conventional spellings of one snake_case name, all different, all mapping to it"""
    parts = conventional.split("_")
    camel = parts[0] + "".join(p.title() for p in parts[1:])
    pascal = "".join(p.title() for p in parts)
    upper = conventional.upper()
    mixed = parts[0].title() + "_" + "_".join(p.title() for p in parts[1:])
    return [camel, pascal, upper, mixed]


def colliding_names():
    out = []
    # -- locals: 2 and 3 spellings of one conventional name, each written the same number of times (2, 3)
    for conv in ("box_width", "item_count"):
        sp = _spellings(conv)
        groups = [c for n in (2, 3) for c in itertools.combinations(sp, n)][:7]
        for gi, group in enumerate(groups if conv == "box_width" else groups[:3]):
            for uses in ((1, 2) if gi < 2 and conv == "box_width" else (1,)):
                body = "".join(f"    {s} = q + {i}\n" for i, s in enumerate(group))
                body += "".join(f"    print({s})\n" for _ in range(uses) for s in group)
                ret = "    return " + " + ".join(group) + "\n"
                out.append((f"locals:{conv}:{'/'.join(group)}:uses={uses}",
                            f"def f(q):\n{body}{ret}\n\nprint(f(1))\n"))
        # tie among the most written, a third spelling written less often
        a, b, c = sp[0], sp[1], sp[3]
        out.append((f"locals:{conv}:tie-of-two-above-a-third",
                    f"def f(q):\n    {a} = q\n    {b} = q + 1\n    {c} = q + 2\n    print({a}, {b})\n    return {a} + {b} + {c}\n\n\nprint(f(1))\n"))
    # -- module level constants (convention UPPER_CASE): lower/camel/mixed spellings
    for group in (("maxItems", "Max_Items"), ("max_items", "maxItems"), ("max_items", "Max_Items", "maxItems")):
        body = "".join(f"{s} = {10 + i}\n" for i, s in enumerate(group))
        out.append((f"module:{'/'.join(group)}", body + "print(" + ", ".join(group) + ")\n"))
        out.append((f"module:{'/'.join(group)}:used-twice", body + "print(" + ", ".join(group) + ")\nprint(" + ", ".join(group[::-1]) + ")\n"))
    # -- functions (snake_case) and classes (PascalCase)
    for group in (("loadData", "LoadData"), ("loadData", "Load_Data"), ("loadData", "LoadData", "Load_Data")):
        defs = "".join(f"def {s}(x):\n    return x + {i}\n\n\n" for i, s in enumerate(group))
        out.append((f"functions:{'/'.join(group)}", defs + "print(" + ", ".join(f"{s}(1)" for s in group) + ")\n"))
    for group in (("data_loader", "dataLoader"), ("data_loader", "Data_Loader"), ("dataLoader", "Data_Loader", "data_loader")):
        defs = "".join(f"class {s}:\n    value = {i}\n\n\n" for i, s in enumerate(group))
        out.append((f"classes:{'/'.join(group)}", defs + "print(" + ", ".join(f"{s}()" for s in group) + ")\n"))
    # -- methods / class attributes / nested function
    out.append(("methods:getValue/GetValue",
                "class Box:\n    def getValue(self):\n        return 1\n\n    def GetValue(self):\n        return 2\n\n\nb = Box()\nprint(b.getValue(), b.GetValue())\n"))
    out.append(("attributes:maxSize/MaxSize",
                "class Box:\n    maxSize = 1\n    MaxSize = 2\n\n\nprint(Box.maxSize, Box.MaxSize)\n"))
    out.append(("nested:innerFn/InnerFn",
                "def outer(q):\n    def innerFn():\n        return q\n\n    def InnerFn():\n        return q + 1\n\n    return innerFn() + InnerFn()\n\n\nprint(outer(1))\n"))
    # -- a local and a function colliding on one conventional name, a loop variable, a with target
    out.append(("mixed:local-and-loopvar",
                "def f(rows):\n    rowCount = 0\n    for RowCount in rows:\n        print(RowCount)\n    return rowCount\n\n\nprint(f([1]))\n"))
    out.append(("mixed:two-functions-same-local-names",
                "def f(q):\n    aB = q\n    AB = q + 1\n    return aB + AB\n\n\ndef g(q):\n    AB = q\n    aB = q + 1\n    return aB - AB\n\n\nprint(f(1), g(1))\n"))
    return out


def equal_constants():
    """overused constants with equal lengths and equal counts (which one is extracted first / gets which name)"""
    out = []
    pairs = [("'some/long/constant/string/AAAA'", "'some/long/constant/string/BBBB'"),
             ("('alpha', 'beta', 'gamma', 'delta')", "('alpha', 'beta', 'gamma', 'omega')"),
             ("{'host': 'localhost', 'port': 8080}", "{'host': 'localhost', 'port': 8081}")]
    for a, b in pairs:
        body = "".join(f"    u{i} = q({a})\n    v{i} = q({b})\n" for i in range(5))
        ret = "    return " + ", ".join(f"u{i}, v{i}" for i in range(5)) + "\n"
        out.append((f"constants:{a[:14]}:one-function", f"def f(q):\n{body}{ret}\n\nprint(f(len))\n"))
        two = (f"def f(q):\n" + "".join(f"    u{i} = q({a})\n" for i in range(3)) + "    return u0, u1, u2\n\n\n"
               f"def g(q):\n" + "".join(f"    v{i} = q({a})\n" for i in range(3)) + "    return v0, v1, v2\n\n\nprint(f(len), g(len))\n")
        out.append((f"constants:{a[:14]}:two-functions-equal-counts", two))
    # same constant text, nested scopes starting on one line
    out.append(("constants:class-and-method", "class K:\n    def m(self, q):\n" + "".join(
        f"        w{i} = q('some/long/constant/string/value')\n" for i in range(6)) + "        return w0, w1, w2, w3, w4, w5\n\n\nprint(K().m(len))\n"))
    return out


def equal_imports():
    out = []
    out.append(("imports:equal-frequency", "import os\nimport sys\nimport re\nimport json\n\nprint(os.sep, sys.argv, re.M, json.dumps(1))\nprint(sys.path, os.curdir, json.loads('1'), re.S)\n"))
    out.append(("imports:duplicates-both-forms", "import os\nimport os\nfrom os import path, sep\nfrom os import sep, path\nimport os.path\n\nprint(os.getcwd(), path, sep)\n"))
    out.append(("imports:same-name-two-aliases", "from os import path, path as p, path as q\nimport sys as s, sys as t, sys\n\nprint(path, p, q, s, t, sys)\n"))
    out.append(("imports:same-module-two-levels", "def f():\n    import os\n    return os.sep\n\n\ndef g():\n    import os\n    return os.curdir\n\n\ndef h():\n    import sys\n    return sys.argv\n\n\nprint(f(), g(), h())\n"))
    out.append(("imports:missing-several", "print(os.sep, sys.argv, re.M, json.dumps(1), math.pi, itertools.chain, np.zeros(1), pd.NA)\n"))
    out.append(("imports:one-line", "import os; import sys; import re\nprint(os.sep, sys.argv, re.M)\n"))
    return out


def equal_duplicates():
    """equally good duplicates: functions with the same body (two, three; both / none preserved by a use), duplicate
    dict keys / set elements, identical branches"""
    out = []
    body = "    y = x + 1\n    return y * 2\n\n\n"
    for names in (("first", "second"), ("beta", "alpha"), ("f1", "f2", "f3")):
        out.append((f"dupfuncs:{'/'.join(names)}",
                    "".join(f"def {n}(x):\n{body}" for n in names) + "print(" + ", ".join(f"{n}(1)" for n in names) + ")\n"))
    out.append(("dupfuncs:methods", "class A:\n    def one(self, x):\n        return x + 1\n\n    def two(self, x):\n        return x + 1\n\n\na = A()\nprint(a.one(1), a.two(1))\n"))
    out.append(("dupfuncs:one-line", "def f(x): return x + 1\ndef g(x): return x + 1\nprint(f(1), g(1))\n"))
    out.append(("dupkeys", "d = {'a': 1, 'b': 2, 'a': 3, 'b': 4}\ns = {'x', 'y', 'x', 'y', 1, 1.0, True}\nprint(d, s)\n"))
    out.append(("same-branches", "def f(x, y):\n    if x:\n        print(1)\n        return y\n    elif y:\n        print(1)\n        return y\n    else:\n        print(1)\n        return y\n\n\nprint(f(1, 2))\n"))
    out.append(("same-branches-two-ifs", "def f(x, y):\n    if x:\n        a = 1\n        b = 2\n    else:\n        a = 1\n        b = 3\n    if y:\n        c = 1\n        b = 2\n    else:\n        c = 1\n        b = 3\n    return a, b, c\n\n\nprint(f(1, 2))\n"))
    return out


def same_line_statements():
    """several candidate statements on ONE physical line: keys like `lineno` tie"""
    out = []
    out.append(("same-line:loop-invariants", "def f(n):\n    out = []\n    for i in range(n):\n        a = 10; b = 20\n        out.append(a + b + i)\n    return out\n\n\nprint(f(3))\n"))
    out.append(("same-line:unused", "def f():\n    a = 1; b = 2; a = 3; b = 4\n    return a + b\n\n\nprint(f())\n"))
    out.append(("same-line:early-definitions", "def f(c):\n    a = 1; b = 2\n    if c:\n        return 0\n    return a + b\n\n\nprint(f(0))\n"))
    out.append(("same-line:imports-in-function", "def f():\n    import os; import sys\n    return os.sep, sys.argv\n\n\nprint(f())\n"))
    out.append(("same-line:defaultdict", "def f(xs):\n    d = {}; e = {}\n    for x in xs:\n        if x in d:\n            d[x].append(x)\n        else:\n            d[x] = [x]\n        if x in e:\n            e[x].add(x)\n        else:\n            e[x] = {x}\n    return d, e\n\n\nprint(f([1]))\n"))
    return out


def string_formattings():
    out = []
    out.append(("strings:equal-quotes", "a = 'abc'\nb = \"abc\"\nc = '''abc'''\nz = foo('abc') == None\nprint(a, b, c, z)\n"))
    out.append(("strings:equal-prefixes", "a = r'ab\\d'\nb = R\"ab\\d\"\nc = 'ab\\\\d'\nz = foo(r'ab\\d') == None\nprint(a, b, c, z)\n"))
    out.append(("strings:fstrings", "a = f'{q}abc'\nb = f\"{q}abc\"\nc = F'{q}abc'\nz = foo(f'{q}abc') == None\nprint(a, b, c, z)\n"))
    return out


def ties():
    fam = (colliding_names() + equal_constants() + equal_imports() + equal_duplicates() + same_line_statements()
           + string_formattings())
    seen, out = set(), []
    for label, src in fam:
        if src not in seen:
            seen.add(src)
            out.append((label, src))
    return out


def rule_ties():
    """the rule each tie aims at (format_code may mask or undo a rule-level difference, and vice versa)"""
    ops = []
    for label, src in ties():
        kind = label.split(":")[0]
        if kind in ("locals", "module", "functions", "classes", "methods", "attributes", "nested", "mixed"):
            ops.append(("fixes.align_variable_names_with_convention", src, (), {"preserve": frozenset()}))
            ops.append(("fixes.align_variable_names_with_convention", src, (), {}))
        elif kind == "constants":
            ops.append(("abstractions.overused_constant", src, (), {"root_is_static": True}))
            ops.append(("abstractions.overused_constant", src, (), {"root_is_static": False}))
        elif kind == "imports":
            for r in ("fixes.sort_imports", "fixes.fix_duplicate_imports", "fixes.move_imports_to_toplevel",
                      "fixes.add_missing_imports", "tracing.fix_reimported_names"):
                ops.append((r, src, (), {}))
        elif kind in ("dupfuncs",):
            ops.append(("fixes.remove_duplicate_functions", src, (), {"preserve": frozenset()}))
            ops.append(("fixes.remove_duplicate_functions", src, (), {"preserve": frozenset({"first", "second", "alpha", "beta", "f1", "f2", "f3", "one", "two", "f", "g"})}))
            ops.append(("abstractions.create_abstractions", src, (), {}))
        elif kind in ("dupkeys",):
            ops.append(("fixes.remove_duplicate_dict_keys", src, (), {}))
            ops.append(("fixes.remove_duplicate_set_elts", src, (), {}))
        elif kind.startswith("same-branches"):
            ops.append(("fixes.breakout_common_code_in_ifs", src, (), {}))
            ops.append(("abstractions.simplify_if_control_flow", src, (), {}))
        elif kind == "same-line":
            for r in ("fixes.move_before_loop", "fixes.early_return", "fixes.move_imports_to_toplevel", "fixes.implicit_defaultdict"):
                ops.append((r, src, (), {}))
            ops.append(("fixes.undefine_unused_variables", src, (), {"preserve": frozenset()}))
        elif kind == "strings":
            ops.append(("fixes.singleton_eq_comparison", src, (), {}))
    return ops
