"""C06 -- Results are deterministic across processes, hash seeds and worker schedules.
Kernels: K1 (coq/theories/SchedModel.v, SchedPermProofs.v), K7 file part (FilesModel.v, FilesProofs.v);
property theorems coq/props/C06.v.

Against the real code ($VERIF_REPO):
  1. scheduler: processing._schedule_rewrites on every permutation of small yield groups vs SchedModel.schedule
     (exact correspondence) + the statement of T06.1/R06.2 evaluated on what the real scheduler did;
  2. format_files with format_file replaced by a scripted change table vs FilesModel.format_files_model
     (dispatch log pass by pass, return value), for shuffled/duplicated file lists and several worker counts;
  3. direct runs (what the models cannot exhibit: string-hash seeds, address-space layout, real pool workers):
     format_code and every rule on the harvested corpus + generated multi-candidate modules in fresh
     processes under PYTHONHASHSEED in {0..k} (the children's hash seed is set per child, never pinned),
     in-process allocation perturbation, format_files(n_cores=1) vs n_cores in {2,4,16} with shuffled lists
     on generated trees, parallel vs one-after-the-other, and package batches with intra-batch imports
     formatted in both sequential orders (T06.4)."""
from __future__ import annotations

import ast
import itertools
import json
import os
import random
import shutil
import subprocess
import sys
import textwrap
import time
from collections import Counter, defaultdict
from concurrent.futures import ThreadPoolExecutor
from pathlib import Path

from . import common, c05, c05_corpus, c10, c06_audit, c06_ties
from .common import glist, gbool

PID = "C06"
CHILD = Path(__file__).resolve().parent / "c06_child.py"
PYTHON = sys.executable
ALLOW_LIST = common.VERIF / "corpus" / "c06" / "set_order_sites.json"


# ------------------------------------------------------------------------------------------------
# 1. scheduler permutations


RANGES = [(0, 1), (1, 2), (0, 2), (2, 3), (1, 3), (3, 4), (1, 1), (3, 3)]      # line indices; (i, i) = insertion
TEXTS = ["m1\n", "m2\n"]


def conflict_free(group) -> bool:
    rs = [(i, j, t) for (i, j, t, _) in group]
    if len(set(rs)) < len(rs):
        return False
    return not any(a[0] < b[1] and b[0] < a[1] for a, b in itertools.combinations(rs, 2))


def sched_groups(tier, rnd):
    """Base groups (default transaction numbers), each later run in every yield order."""
    items = [(i, j, t, None) for (i, j) in RANGES for t in TEXTS]
    groups = [list(c) for n in (2, 3) for c in itertools.combinations(items, n)]
    # with an insertion duplicate / an equal pair
    groups += [[a, a] for a in items[:6]]
    n4 = 30 if tier == "quick" else 600
    all4 = list(itertools.combinations(items, 4))
    groups += [list(c) for c in rnd.sample(all4, n4)]
    # prefer a healthy share of conflict-free groups among the 4-element ones
    free4 = [list(c) for c in all4 if conflict_free(c)]
    groups += rnd.sample(free4, min(len(free4), 25 if tier == "quick" else 300))
    if tier == "quick":
        # all pairs, all conflict-free triples, a seeded third of the other triples
        groups = [g for g in groups if len(g) != 3 or conflict_free(g) or rnd.random() < 0.12]
    return groups


def sched_cases(tier, rnd):
    """(base index, case) for every permutation of every base group, framed by a fixed group before and after."""
    pre = [(4, 5, "p\n", None)]
    post = [(0, 1, "q\n", None), (5, 6, "q\n", None)]
    out = []
    for bi, g in enumerate(sched_groups(tier, rnd)):
        ignored = (2,) if bi % 5 == 0 else ()
        for perm in sorted(set(itertools.permutations(g))):
            out.append((bi, g, c10.build_case(7, ignored, [pre, list(perm), post])))
    return out


# ------------------------------------------------------------------------------------------------
# 2. format_files with a scripted format_file


FAKE_TABLES: dict[str, set] = {}      # root dir -> {(relative name, pass number)} where a change is reported
FAKE_DELAYS: dict[str, dict] = {}     # root dir -> {relative name: seconds}: how long format_file takes on that file


def _fake_format_file(filename, preserve=frozenset(), safe=False):
    p = Path(filename)
    root = next(r for r in FAKE_TABLES if str(p).startswith(r + os.sep))
    n = int(p.read_text() or "0") + 1
    p.write_text(str(n))
    rel = str(p.relative_to(root))
    delay = FAKE_DELAYS.get(root, {}).get(rel, 0)
    if delay:
        time.sleep(delay)          # a big file: its worker finishes after the workers of later, smaller files
    with open(os.path.join(root, "dispatch.log"), "a") as fh:       # O_APPEND: atomic for short lines
        fh.write(rel + "\n")
    return (rel, n) in FAKE_TABLES[root]


def files_structures():
    """(folder, name) lists: up to 3 folders x up to 2 files."""
    out = []
    for sizes in [(1,), (2,), (1, 1), (2, 1), (1, 2), (2, 2), (1, 1, 1), (2, 1, 2)]:
        out.append([(d, f) for d, n in enumerate(sizes) for f in range(n)])
    return out


def files_cases(tier, rnd):
    cases = []
    for files in files_structures():
        for passes in (0, 1, 2, 3):
            cells = [(f, p) for f in files for p in range(1, passes + 1)]
            if len(cells) <= (6 if tier == "quick" else 9):
                tables = [set(c for c, b in zip(cells, bits) if b) for bits in itertools.product([0, 1], repeat=len(cells))]
            else:
                tables = [set(c for c in cells if rnd.random() < q) for q in (0.2, 0.5, 0.8) for _ in range(8 if tier == "quick" else 60)]
                tables += [set(), set(cells)]
            for tb in tables:
                given = list(files)
                rnd.shuffle(given)
                if rnd.random() < 0.25:
                    given.append(rnd.choice(files))              # the same path twice
                cases.append({"passes": passes, "files": given, "table": sorted(tb),
                              "n_cores": rnd.choice([1, 1, 2, 3])})
    return cases


def run_files_case(mainmod, base: Path, idx: int, case) -> dict:
    root = base / f"t{idx}"
    if root.exists():
        shutil.rmtree(root)
    name = lambda f: f"d{f[0]}/m{f[1]}.py"          # noqa
    for f in set(case["files"]):
        (root / f"d{f[0]}").mkdir(parents=True, exist_ok=True)
        (root / name(f)).write_text("0")
    FAKE_TABLES[str(root)] = {(name(f), p) for (f, p) in map(tuple, case["table"])}
    FAKE_DELAYS[str(root)] = {name(tuple(f)): d for (f, d) in case.get("delays", [])}
    try:
        with common.quiet():
            ret = mainmod.format_files([root / name(f) for f in case["files"]], n_cores=case["n_cores"],
                                       max_passes=case["passes"])
        log = (root / "dispatch.log").read_text().split() if (root / "dispatch.log").exists() else []
        counts = {name(f): int((root / name(f)).read_text()) for f in set(case["files"])}
        return {"ret": bool(ret), "log": log, "counts": counts}
    finally:
        FAKE_TABLES.pop(str(root), None)
        FAKE_DELAYS.pop(str(root), None)
        shutil.rmtree(root, ignore_errors=True)


def delay_cases():
    """Schedule sweep on the driver itself (seed-independent): a scripted format_file that is SLOW on the files
    that sort first, so that with >= 2 workers the completion order differs from the submission order; >= 2
    folders, max_passes >= 2.  Each case is run with one worker without delays (one after the other) and with
    2 and 3 workers with delays; files formatted (count per file) and return value must agree."""
    out = []
    for sizes in [(1, 1), (2, 1), (1, 2), (1, 1, 1)]:
        files = [(d, f) for d, n in enumerate(sizes) for f in range(n)]
        folders = sorted({d for d, _ in files})
        for passes in (2, 3):
            for changing in folders:                        # exactly this folder keeps changing until the last pass
                table = sorted(((d, f), p) for (d, f) in files if d == changing for p in range(1, passes))
                for slow in ("first", "changing"):
                    slow_files = [f for f in files if (f[0] == folders[0] if slow == "first" else f[0] == changing)]
                    delays = [(f, 0.25) for f in slow_files]
                    out.append({"passes": passes, "files": files, "table": table, "delays": delays})
    return out


def py_files_model(case):
    """Python transliteration of FilesModel.format_files_model, used only to split the implementation's flat
    dispatch log into passes (the comparison itself is done by the Gallina model in Coq)."""
    fs = sorted(case["files"])
    folders = list(dict.fromkeys(f[0] for f in fs))
    st = {d: (True, case["passes"]) for d in folders}
    table = set(map(lambda c: (tuple(c[0]), c[1]), case["table"]))
    log, any_changes = [], False
    for p in range(1, case["passes"] + 1):
        todo = sorted({f for f in fs if st[f[0]][0] and st[f[0]][1] > 0})
        if not todo:
            break
        res = {f: (f, p) in table for f in todo}
        any_changes = any_changes or any(res.values())
        st = {d: (any(res.get(f, False) for f in fs if f[0] == d), st[d][1] - 1) for d in folders}
        log.append(todo)
    return log, any_changes


def g_file(f):
    return f"({f[0]}, {f[1]})"


def g_files_case(case, log_batches, ret) -> str:
    tb = glist([f"({g_file(f)}, {p})" for (f, p) in case["table"]])
    return (f"(mkFCase {case['passes']} {glist(case['files'], g_file)} {tb} "
            f"{glist([glist(b, g_file) for b in log_batches])} {gbool(ret)})")


# ------------------------------------------------------------------------------------------------
# 2b. the list model of max / min with a key (PickModel.argmax / argmin) vs CPython


def pick_cases(rnd):
    """every list of up to 3 (identity, key) pairs over 3 identities x 2 keys (259, exhaustive: all tie patterns and
    all iteration orders of them), plus seeded longer ones"""
    elems = [(i, k) for i in range(3) for k in range(2)]
    lists = [list(c) for n in range(4) for c in itertools.product(elems, repeat=n)]
    for _ in range(140):
        lists.append([(rnd.randint(0, 9), rnd.randint(-2, 3)) for _ in range(rnd.randint(4, 9))])
    return lists


def g_pick_case(l) -> str:
    pair = lambda p: f"({p[0]}, {p[1]})"          # noqa
    opt = lambda p: "None" if p is None else f"(Some {pair(p)})"          # noqa
    mx = max(l, key=lambda p: p[1]) if l else None          # CPython: the reference
    mn = min(l, key=lambda p: p[1]) if l else None
    return f"({glist(l, pair)}, {opt(mx)}, {opt(mn)})"


# ------------------------------------------------------------------------------------------------
# 3. direct runs


def spawn_child(wd: Path, tag: str, job: dict, hashseed, timeout=900):
    jp, op = wd / f"job_{tag}.json", wd / f"out_{tag}.json"
    jp.write_text(json.dumps(job))
    env = {k: v for k, v in os.environ.items() if k not in ("PYTHONHASHSEED", "PYTHONPATH")}
    if hashseed is not None:
        env["PYTHONHASHSEED"] = str(hashseed)          # chosen per child; the harness's own pin is dropped
    env["PYTHONDONTWRITEBYTECODE"] = "1"
    cwd = job.get("cwd") or str(common.VERIF)
    try:
        r = subprocess.run(["nice", PYTHON, str(CHILD), str(jp), str(op)], env=env, cwd=cwd,
                           capture_output=True, text=True, timeout=timeout)
    except subprocess.TimeoutExpired:
        return {"error": "timeout"}
    if r.returncode != 0 or not op.exists():
        return {"error": (r.stderr or "")[-1500:] or f"exit {r.returncode}"}
    return json.loads(op.read_text())


def valid_module(s: str):
    d = textwrap.dedent(s).strip("\n") + "\n"
    try:
        ast.parse(d)
    except (SyntaxError, ValueError):
        return None
    return d


def generated_modules(pool):
    """Per rule, its valid examples concatenated three at a time: several candidates for the same rule in
    one module, which is where an order of iteration over a set of nodes can show."""
    by_rule = defaultdict(list)
    for (q, s, a, k) in pool:
        d = valid_module(s)
        if d and d not in by_rule[q]:
            by_rule[q].append(d)
    mods = []
    for q, l in sorted(by_rule.items()):
        for i in range(0, len(l), 3):
            if len(l[i:i + 3]) >= 2:
                mods.append("\n\n".join(l[i:i + 3]))
    mods += explicit_modules()
    return mods


def explicit_family():
    """Multi-candidate modules that survive format_code (everything is used): two and three distinct overused
    constants that get generated names, in a function starting on line 1 / after an import; several
    independent candidates of the same rule in one scope."""
    c1, c2, c3 = "{'host': 'localhost', 'port': 8080}", "('alpha', 'beta', 'gamma', 'delta')", "[10, 20, 30, 40, 50, 60]"
    out = []
    for consts in ([c1, c2], [c1, c2, c3], [c3, c1]):
        body = "".join(f"    v{i}_{j} = q({c})\n" for i, c in enumerate(consts) for j in range(5))
        ret = "    return " + ", ".join(f"v{i}_{j}" for i in range(len(consts)) for j in range(5)) + "\n"
        out.append("def f(q):\n" + body + ret + "\n\nprint(f(len))\n")
        out.append("import os\n\n\ndef f(q):\n" + body + ret + "\n\nprint(f(len), os.sep)\n")
    out.append("def f():\n" + "".join(f"    a{i} = 'some/long/constant/string/value'\n" for i in range(6))
               + "    return a0, a1, a2, a3, a4, a5\n\n\nprint(f())\n")
    out.append("def f(q):\n" + "".join(f"    a{i} = q('some/long/constant/string/value', {c2})\n" for i in range(6))
               + "    return a0, a1, a2, a3, a4, a5\n\n\nprint(f(len))\n")
    # several bounds in the same direction on one comprehension (F06-4)
    out.append("y = [x for x in range(10) if x > 3 if x > 5]\nz = [x for x in range(20) if x < 7 if x < 9 if x <= 5]\nprint(y, z)\n")
    return out


# rule-level inputs for sites where an order of iteration can reach the text (found by reading; each is a
# regression witness of a repaired defect or a watch-point)
EXPLICIT_RULE_OPS = [
    ("fixes.singleton_eq_comparison", "a = \"abc\"\nb = \"\"\"abc\"\"\"\nz = foo(\"abc\") == None\nprint(a, b, z)\n", (), {}),
    ("fixes.singleton_eq_comparison", "a = f\"{q}abc\"\nb = f\"\"\"{q}abc\"\"\"\nz = foo(f\"{q}abc\") == None\nprint(a, b, z)\n", (), {}),
    ("fixes.undefine_unused_variables", "x = 1; x = 2\nprint(x)\n", (), {"preserve": frozenset()}),
    ("fixes.undefine_unused_variables", "def f():\n    y = 1; y = 2; y = 3\n    return y\n\n\nprint(f())\n", (), {"preserve": frozenset()}),
    ("fixes.swap_if_else", "def f(x):\n    if x:\n        a()\n        b()\n        c()\n        d()\n        return 1\n    return 2\n\n\n"
                           "for y in z:\n    if y:\n        a()\n        b()\n        c()\n        d()\n        continue\n    break\n", (), {}),
    ("fixes.missing_context_manager", "f = open(\"a\")\nx = f.read()\ndef g():\n    h = open(\"b\")\n    y = h.read()\n    return y\nprint(g(), x)\n", (), {}),
    ("object_oriented.fix_unconventional_class_definitions", "class A:\n    class B:\n        z = 1\n    B.x = 1\n    q = 2\nA.y = 2\n", (), {}),
    ("tracing.fix_reimported_names", "from pyrefact.fixes import Path, Path as P\nprint(Path, P)\n", (), {}),
]


def tie_modules():
    return [src for _, src in c06_ties.ties()]


def explicit_rule_ops():
    return EXPLICIT_RULE_OPS + c06_ties.rule_ties()


def explicit_modules():
    # the tie family first: its minimal witnesses (round 5, seed C06-d) run before everything else
    return tie_modules() + explicit_family() + [op[1] for op in EXPLICIT_RULE_OPS] + folding_family()


# constant folding of values that are not constants of the program (hunt C06-0..2; site core.literal_value, owner c15h):
# order of a set of strings, str hashes, reprs with addresses.  Shapes x folding contexts.
def folding_family():
    unstable = {
        "set-order": ['list({"a", "b", "c"}) == ["a", "b", "c"]', '"-".join({"a", "b", "c"}) == "a-b-c"',
                      'str({"a", "b"}) == "{\'a\', \'b\'}"', 'tuple({"x", "y", "z"})[0] == "x"'],
        "str-hash": ['"abc".__hash__() % 2 == 0', '"k".__hash__() > 0'],
        "address-repr": ['str(zip((1,), (2,))) < "<zip object at 0x7f8"', '"".join(reversed(str(zip((1,), (2,))))) < ">08"',
                         'repr(enumerate(())) < "<enumerate object at 0x7f8"'],
    }
    out = []
    for kind, exprs in unstable.items():
        for e in exprs:
            out.append(f"if {e}:\n    print(1)\nelse:\n    print(2)\n")
            out.append(f"x = {e}\nprint(x)\n")
    return out


def raising_file_tree():
    """hunt C06-3: 12 files in one folder, one of them valid Python that is not utf-8 (format_file raises
    UnicodeDecodeError): which OTHER files get formatted must not depend on the number of workers."""
    files = {f"pkg/m{i:02d}.py": "import os\nprint(1)\n" for i in range(12)}
    files["pkg/m04.py"] = b"# -*- coding: latin-1 -*-\nimport os\nprint('caf\xe9')\n"
    return files


def disturb_heap(rnd):
    """Objects of every pymalloc size class (and some above), in random numbers: what is parsed next lands on
    other addresses, so sets of ast nodes iterate in another order."""
    keep = [[bytes(size) + b"" for _ in range(rnd.randint(0, 40))] for size in range(0, 520, 8)]
    keep.append([ast.Name(id="x") for _ in range(rnd.randint(0, 1500))])
    keep.append([{} for _ in range(rnd.randint(0, 60))])
    keep.append([object() for _ in range(rnd.randint(0, 500))])
    return keep


class YieldProbe:
    """Wraps processing._schedule_rewrites for one call: records the sequence of yields of every rule function
    and tests whether scheduling the SAME yields in reversed order would change the text of the pass
    (R06.2: only then can the order in which a rule walks a set matter)."""

    def __init__(self, mods):
        self.processing, self.core = mods["processing"], mods["core"]
        self.orig = self.processing._schedule_rewrites
        self.signature = []          # per scheduling call: per function: [(start, end, text, explicit transaction)]
        self.sensitive = False

    def __enter__(self):
        self.processing._schedule_rewrites = self.wrapped
        return self

    def __exit__(self, *exc):
        self.processing._schedule_rewrites = self.orig

    def wrapped(self, source, funcs):
        mats = []
        for (func, args, kwargs) in funcs:
            mats.append((func, list(func(*args, **kwargs))))

        def replay(items, name):
            def gen(*_a, **_k):
                yield from items
            gen.__name__ = name
            return gen

        def sched(order):
            return self.orig(source, [(replay(order(items), f.__name__), [source], {}) for f, items in mats])

        base = sched(lambda items: items)
        sig = []
        for f, items in mats:
            row = []
            for it in items:
                try:
                    old, new = it[0], it[1]
                    rng = old if isinstance(old, self.core.Range) else self.core.get_charnos(new if old is None else old, source)
                    text = new if isinstance(new, str) or new is None else self.core.unparse(new)
                    row.append((rng[0], rng[1], text or "", it[2] if len(it) > 2 else None))
                except Exception:  # noqa
                    row.append(("?",))
            sig.append((f.__name__, row))
        self.signature.append(sig)
        if any(len(items) > 1 for _, items in mats):
            try:
                rev = sched(lambda items: items[::-1])
                a = self.processing._apply_rewrites(source, base)
                b = self.processing._apply_rewrites(source, rev)
                if a != b:
                    self.sensitive = True
            except Exception:  # noqa
                self.sensitive = True
        return base


def job_perturb(job):
    """In a fork of the pristine zygote: run each call `reps` times; between the runs all caches are cleared
    and the heap is disturbed, so that freshly parsed nodes land on other addresses.  Per call: the results,
    whether the order of the yields was the same in all runs, whether reversing the yields changes the text."""
    mods = c05.MODS
    rnd = random.Random(job["seed"])
    keep = []
    out = []
    for op in job["ops"]:
        results, sigs, sensitive = [], [], False
        for _ in range(job["reps"] if op not in job.get("more", []) else job["more_reps"]):
            c05.clear_all_caches()
            keep = disturb_heap(rnd)
            if job.get("probe") and op[0] == "rule":
                with YieldProbe(mods) as probe:
                    results.append(c05.run_op(mods, op))
                sigs.append(json.dumps(probe.signature, default=str))
                sensitive = sensitive or probe.sensitive
            else:
                results.append(c05.run_op(mods, op))
        out.append({"results": results, "stable_yield_order": len(set(sigs)) <= 1, "order_sensitive": sensitive})
    del keep
    return out


c05.JOBS["perturb"] = job_perturb


def job_files_cases(job):
    """In a fork of the pristine zygote (single-threaded): the real format_files with format_file scripted."""
    mainmod = c05.MODS["main"]
    _fake_format_file.__module__, _fake_format_file.__qualname__ = "pyrefact.main", "format_file"
    _fake_format_file.__name__ = "format_file"
    mainmod.format_file = _fake_format_file
    return [_safe(run_files_case, mainmod, Path(job["base"]), idx, case) for idx, case in job["cases"]]


c05.JOBS["files_cases"] = job_files_cases


def job_delay_cases(job):
    """In a fork of the pristine zygote: every delay case with 1 worker (no delays) and with 2 and 3 workers."""
    mainmod = c05.MODS["main"]
    _fake_format_file.__module__, _fake_format_file.__qualname__ = "pyrefact.main", "format_file"
    _fake_format_file.__name__ = "format_file"
    mainmod.format_file = _fake_format_file
    out = []
    for idx, case in job["cases"]:
        ref = _safe(run_files_case, mainmod, Path(job["base"]), f"{idx}_ref", dict(case, n_cores=1, delays=[]))
        runs = [(n, _safe(run_files_case, mainmod, Path(job["base"]), f"{idx}_{n}", dict(case, n_cores=n))) for n in (2, 3)]
        out.append({"ref": ref, "runs": runs})
    return out


c05.JOBS["delay_cases"] = job_delay_cases


def build_tree(root: Path, files: dict[str, str]):
    for rel, text in files.items():
        (root / rel).parent.mkdir(parents=True, exist_ok=True)
        (root / rel).write_bytes(text if isinstance(text, bytes) else text.encode())


def tree_families(pool, mods):
    """Deterministic temp trees: 3 folders x 3 files of independent modules taken from the corpus (only
    modules that format_code accepts: a crash of the formatter is C04's subject, not a schedule effect)."""
    cands = []
    for (q, s, a, k) in pool:
        d = valid_module(s)
        if d and d not in cands and "import *" not in d and len(d) > 60:
            cands.append(d)
    srcs = []
    for d in cands[::max(1, len(cands) // 60)]:
        try:
            with common.quiet():
                mods["main"].format_code(d)
            srcs.append(d)
        except Exception:  # noqa
            pass
        if len(srcs) >= 24:
            break
    trees = []
    for t in range(2):
        files = {}
        for d in range(3):
            for f in range(3):
                files[f"pkg{d}/mod{f}.py"] = srcs[(t * 9 + d * 3 + f) % len(srcs)]
        trees.append(files)
    return trees


PACKAGE_FAMILIES = {
    # files, orders to compare, safe
    "independent": ({"a.py": "import os\n\n\ndef f(x):\n    if x == None:\n        return os.getcwd()\n    else:\n        return 1\n\n\nprint(f(1))\n",
                     "b.py": "def g(y):\n    out = []\n    for v in y:\n        out.append(v)\n    return out\n\n\nprint(g([1]))\n"}, False),
    "star_import": ({"a.py": "from b import *\n\n\nprint(helper(1), CONSTANT)\n",
                     "b.py": "import os\n\nCONSTANT = 3\n\n\ndef helper(x):\n    return x + 1\n\n\ndef other(y):\n    return os.getcwd()\n"}, False),
    "star_import_safe": ({"a.py": "from b import *\n\n\nprint(helper(1), CONSTANT)\n",
                          "b.py": "import os\n\nCONSTANT = 3\n\n\ndef helper(x):\n    return x + 1\n\n\ndef other(y):\n    return os.getcwd()\n"}, True),
    "reimport": ({"a.py": "from b import helper\n\n\nprint(helper(1))\n",
                  "b.py": "from c import helper\n\n\ndef user():\n    return 1\n\n\nprint(user())\n",
                  "c.py": "def helper(x):\n    return x + 1\n\n\nprint(helper(2))\n"}, False),
}


def sig_intra_batch_import(files: dict[str, str], differing: list[str]) -> bool:
    """Predicate of finding F06-3: every file whose result depends on the order imports (star or by name) a
    module that belongs to the same batch."""
    mods = {Path(f).stem for f in files}
    for f in differing:
        try:
            tree = ast.parse(files[f])
        except SyntaxError:
            return False
        imported = {n.module for n in ast.walk(tree) if isinstance(n, ast.ImportFrom) and n.module}
        imported |= {a.name for n in ast.walk(tree) if isinstance(n, ast.Import) for a in n.names}
        if not (imported & (mods - {Path(f).stem})):
            return False
    return True


def _fold_kind(source):
    """which of the three unstable-folding shapes the text contains"""
    kinds = set()
    try:
        tree = ast.parse(source)
    except SyntaxError:
        return kinds
    lazy = {"zip", "enumerate", "reversed", "map", "filter", "iter"}
    for n in ast.walk(tree):
        if not isinstance(n, ast.Call):
            continue
        if isinstance(n.func, ast.Attribute) and n.func.attr == "__hash__" and isinstance(n.func.value, ast.Constant):
            kinds.add("str-hash")
        name = n.func.id if isinstance(n.func, ast.Name) else n.func.attr if isinstance(n.func, ast.Attribute) else ""
        if name in ("len", "min", "max", "sum", "sorted", "any", "all", "bool", "set", "frozenset"):
            continue
        for a in n.args:
            if isinstance(a, ast.Set) and any(isinstance(e, ast.Constant) and isinstance(e.value, (str, bytes)) for e in a.elts):
                kinds.add("set-order")
            if name in ("str", "repr", "ascii", "format", "join") and isinstance(a, ast.Call) \
                    and isinstance(a.func, ast.Name) and a.func.id in lazy:
                kinds.add("address-repr")
    return kinds


SIGS = {"intra_batch_import": sig_intra_batch_import,
        # hash-seed dependent folding: only differences between hash seeds are explained by it
        "folds_order_of_str_set": lambda src, kind="": "set-order" in _fold_kind(src) and kind != "address-dependent-result",
        "folds_str_hash": lambda src, kind="": "str-hash" in _fold_kind(src) and kind != "address-dependent-result",
        "folds_repr_with_address": lambda src, kind="": "address-repr" in _fold_kind(src)}


# ------------------------------------------------------------------------------------------------


def check(run: common.Run):
    t_start = time.time()
    wd = common.workdir(PID)
    c05.MODS = common.import_impl()
    mods = c05.MODS
    farm = c05.Farm()                  # pristine forks for the perturbation jobs
    try:
        c05.fail_closed(run, _check, run, wd, mods, farm, t_start)
    finally:
        farm.close()


def _check(run, wd, mods, farm, t_start):
    ps = common.proof_step(run, PID, wd)
    rnd = random.Random(run.seed)
    quick = run.tier == "quick"
    hist, timing = Counter(), {}
    failures = []          # (kind, payload) with a concrete failing input
    disagreements = []     # (kernel, payload)

    # ---- the hash-seed children start first (they run in the background while the rest proceeds)
    t0 = time.time()
    pool, hstats = c05.harvest_isolated(farm)
    rules = []
    for r in pool:
        try:
            rules.append([r[0], r[1], c05.enc(tuple(r[2])), c05.enc(dict(r[3]))])
        except TypeError:
            pass
    fsrc = sorted({r[1] for r in pool}, key=lambda s: (len(s), s))
    gen = generated_modules(pool)
    if quick:
        fsrc_used = fsrc[::max(1, len(fsrc) // 90)]
        gen_used = gen[::max(1, len(gen) // 45)]
        seeds = [0, 1, 2, 3]
    else:
        fsrc_used, gen_used, seeds = fsrc, gen, list(range(12))
    gen_used = explicit_modules() + [m for m in gen_used if m not in explicit_modules()]
    fmt_inputs = gen_used + fsrc_used
    ties = tie_modules()
    tie_index = [fmt_inputs.index(m) for m in ties]
    rules = [[q, src, c05.enc(tuple(a)), c05.enc(dict(k))] for (q, src, a, k) in explicit_rule_ops()] + rules
    code_job = {"repo": str(common.REPO), "mode": "code", "format": fmt_inputs, "rules": rules}
    ex = ThreadPoolExecutor(max_workers=8)
    rule_seeds = [s for s in (range(8) if quick else range(24)) if s not in seeds]     # rules only: cheap
    code_futs = {s: ex.submit(spawn_child, wd, f"code{s}", dict(code_job, junk=[0, 1000, 50000, 7, 333, 90000][s % 6] + s), s)
                 for s in seeds}
    for s in rule_seeds:
        code_futs[s] = ex.submit(spawn_child, wd, f"code{s}", dict(code_job, format=ties, junk=977 * s), s)
    timing["harvest_s"] = round(time.time() - t0, 1)

    # ---- real format_files on generated trees, and package batches (children, background)
    trees = tree_families(pool, mods)
    file_futs = []
    for ti, files in enumerate(trees):
        names = sorted(files)
        configs = [("ref-1core-sorted", names, 1, 3, False), ("2cores-shuffled", None, 2, 3, False),
                   ("4cores-shuffled", None, 4, 3, False), ("16cores-reversed", names[::-1], 16, 3, False),
                   ("1pass-3cores", None, 3, 1, False), ("1pass-sequential", names, 1, 1, True)]
        if quick and ti > 0:
            configs = configs[:3]
        for ci, (label, order, n_cores, passes, sequential) in enumerate(configs):
            if order is None:
                order = list(names)
                random.Random(1000 * ti + ci).shuffle(order)        # fixed: the sweep is seed-independent
            root = wd / f"tree{ti}_{ci}"
            build_tree(root, files)
            job = {"repo": str(common.REPO), "mode": "files", "root": str(root), "files": order, "n_cores": n_cores,
                   "max_passes": passes, "sequential": sequential, "junk": 100 * ci}
            file_futs.append((ti, label, passes, ex.submit(spawn_child, wd, f"files{ti}_{ci}", job, ci % 4)))
    rfiles = raising_file_tree()
    raise_futs = []
    for n_cores in (1, 2, 4):
        root = wd / f"raise_{n_cores}"
        build_tree(root, rfiles)
        job = {"repo": str(common.REPO), "mode": "files", "root": str(root), "files": sorted(rfiles), "n_cores": n_cores,
               "max_passes": 1, "sequential": False}
        raise_futs.append((n_cores, ex.submit(spawn_child, wd, f"raise_{n_cores}", job, 0)))
    pkg_futs = []
    for fam, (files, safe) in PACKAGE_FAMILIES.items():
        for oi, order in enumerate(itertools.permutations(sorted(files))):
            root = wd / f"pkg_{fam}_{oi}"
            build_tree(root, files)
            job = {"repo": str(common.REPO), "mode": "files", "root": str(root), "files": list(order), "sequential": True,
                   "safe": safe, "cwd": str(root), "n_cores": 1, "max_passes": 1}
            pkg_futs.append((fam, order, ex.submit(spawn_child, wd, f"pkg_{fam}_{oi}", job, 0)))

    # ---- 1. scheduler permutations: correspondence + T06.1 / R06.2 on the real scheduler
    t0 = time.time()
    scases = sched_cases(run.tier, rnd)
    items, by_base = [], defaultdict(list)
    for bi, g, c in scases:
        try:
            flat, out = c10.run_impl(mods, c)[:2]
        except Exception as e:  # noqa
            failures.append(("scheduler-crash", {"case": c, "error": f"{type(e).__name__}: {e}"}))
            continue
        items.append((c, flat, c10.py_splice(c["source"], flat)))
        by_base[bi].append((g, c, flat, out))
    n_free = n_conf = 0
    sched_distinct = set()
    for bi, runs in by_base.items():
        g = runs[0][0]
        sets = [sorted((s, e, n) for (_, _, s, e, n) in flat) for (_, _, flat, _) in runs]
        outs = {out for (_, _, _, out) in runs}
        if len(runs) > 1:
            sched_distinct.add(json.dumps(g))
        if conflict_free(g):
            n_free += 1
            if any(s != sets[0] for s in sets) or len(outs) > 1:
                failures.append(("yield-order-dependence-without-conflict",
                                 {"group": g, "cases": [r[1] for r in runs[:2]], "scheduled_sets": sets[:6],
                                  "explanation": "a conflict-free group of default-numbered yields is scheduled "
                                                 "differently in two yield orders (T06.1 fails on the real scheduler)"}))
        else:
            n_conf += 1
            hist["sched:order-dependent" if any(s != sets[0] for s in sets) else "sched:order-independent-with-conflict"] += 1
    files_v, shards = [], []
    SH = 400
    for k in range(0, len(items), SH):
        p = wd / f"sched_{k // SH}.v"
        c10.write_case_file(p, items[k:k + SH])
        files_v.append(p)
        shards.append(("sched", items[k:k + SH]))
    timing["scheduler_impl_s"] = round(time.time() - t0, 1)

    # ---- 2. format_files bookkeeping vs FilesModel
    t0 = time.time()
    fcases = files_cases(run.tier, rnd)
    fitems = []
    base = wd / "ff"
    base.mkdir()
    FCH = 40
    fchunks = [list(enumerate(fcases))[i:i + FCH] for i in range(0, len(fcases), FCH)]
    fjobs = farm.map([{"kind": "files_cases", "base": str(base), "cases": ch, "timeout": 600} for ch in fchunks])
    fres = []
    for ch, (st, *rest) in zip(fchunks, fjobs):
        fres += rest[0] if st == "ok" else [{"error": rest[0]}] * len(ch)
    files_distinct = set()
    for case, res in zip(fcases, fres):
        if "error" in res:
            failures.append(("format_files-crash", {"case": case, "error": res["error"]}))
            continue
        mlog, mret = py_files_model(case)
        # split the flat dispatch log by the model's batch sizes; within a pass the completion order of the
        # workers is free (sorted before comparing) unless there is a single worker
        flat, batches, pos = res["log"], [], 0
        name = lambda f: f"d{f[0]}/m{f[1]}.py"          # noqa
        inv = {name(f): list(f) for f in case["files"]}
        for b in mlog:
            chunk = flat[pos:pos + len(b)]
            pos += len(b)
            if case["n_cores"] > 1:
                chunk = sorted(chunk)
            batches.append([inv.get(x, [99, 99]) for x in chunk])
        if pos < len(flat):
            batches.append([inv.get(x, [99, 99]) for x in flat[pos:]])
        fitems.append((case, batches, res["ret"]))
        hist[f"files:passes={case['passes']}:cores={case['n_cores']}"] += 1
        if len(mlog) >= 2:
            files_distinct.add(json.dumps([case["passes"], sorted(case["files"]), case["table"]]))
    # schedule sweep on the driver: slow files first, several workers (completion order != submission order)
    dcases = delay_cases()
    dbase = wd / "ffd"
    dbase.mkdir()
    dchunks = [list(enumerate(dcases))[i::6] for i in range(6)]
    djobs = farm.map([{"kind": "delay_cases", "base": str(dbase), "cases": ch, "timeout": 600} for ch in dchunks if ch])
    n_delay = 0
    for ch, (st, *rest) in zip([c for c in dchunks if c], djobs):
        if st != "ok":
            failures.append(("delay-job-failed", {"error": rest[0]}))
            continue
        for (idx, case), r in zip(ch, rest[0]):
            ref = r["ref"]
            for n, got in r["runs"]:
                n_delay += 1
                if "error" in ref or "error" in got:
                    failures.append(("format_files-crash", {"case": case, "error": ref.get("error") or got.get("error")}))
                elif got["counts"] != ref["counts"] or got["ret"] != ref["ret"]:
                    failures.append(("completion-order-dependent-driver",
                                     {"site": "main.format_files", "case": case, "n_cores": n,
                                      "one_after_the_other": {"times_formatted": ref["counts"], "return": ref["ret"]},
                                      "parallel": {"times_formatted": got["counts"], "return": got["ret"]},
                                      "explanation": "format_files with a scripted format_file (reports a change for the "
                                                     "(file, pass) pairs of the table, is slow on the listed files): with "
                                                     "several workers other files are re-formatted than one after the other"}))
    for k in range(0, len(fitems), SH):
        p = wd / f"files_{k // SH}.v"
        body = ";\n ".join(g_files_case(c, b, r) for (c, b, r) in fitems[k:k + SH])
        p.write_text("From Coq Require Import List Arith Bool.\nImport ListNotations.\n"
                     "Require Import Pyrefact.Base Pyrefact.FilesModel.\n"
                     f"Definition cases : list files_case := [\n {body}\n].\n"
                     "Eval vm_compute in (bad_idx files_case_ok cases).\n")
        files_v.append(p)
        shards.append(("files", fitems[k:k + SH]))
    pcases = pick_cases(rnd)
    p = wd / "pick_0.v"
    p.write_text("From Coq Require Import List ZArith Bool.\nImport ListNotations.\n"
                 "Require Import Pyrefact.Base Pyrefact.PickModel.\nOpen Scope Z_scope.\n"
                 "Definition cases : list pick_case := [\n " + ";\n ".join(g_pick_case(l) for l in pcases) + "\n].\n"
                 "Eval vm_compute in (bad_idx pick_case_ok cases).\n")
    files_v.append(p)
    shards.append(("pick", pcases))
    timing["format_files_impl_s"] = round(time.time() - t0, 1)

    t0 = time.time()
    cres = c05.run_case_files_retry(files_v)
    for p, (kind, shard) in zip(files_v, shards):
        rc, out = cres[p]
        idx = common.parse_nat_list(out) if rc == 0 else None
        if idx is None:
            disagreements.append((kind, {"kind": "model-evaluation-failed", "file": p.name, "log": out[-1200:]}))
            continue
        for i in idx:
            disagreements.append((kind, shard[i]))
    timing["coq_cases_s"] = round(time.time() - t0, 1)

    # ---- 3b. in-process allocation perturbation (forked workers)
    t0 = time.time()
    reps = 2 if quick else 6
    deep_reps = 6 if quick else 30
    pops = [c05.rec_op(r) for r in pool if _encodable(r)]
    if quick:
        pops = pops[::2]              # fixed stride (seed-independent); the children run all of them
    pops += [("format", s, "default") for s in (gen_used if quick else gen)]
    explicit = [("format", s, "default") for s in explicit_modules()]
    explicit += [("rule", q, src, tuple(a), dict(k)) for (q, src, a, k) in explicit_rule_ops()]
    explicit += [("rule", "abstractions.overused_constant", s, (), {"root_is_static": True}) for s in explicit_family()]
    explicit += [("rule", "symbolic_math.simplify_constrained_range", s, (), {}) for s in explicit_family()[-1:]]
    CH = 60
    n_perturb = 0
    order_sensitive, unstable_order = Counter(), Counter()
    suspicious = []

    def perturb_round(ops, nreps, probe):
        nonlocal n_perturb
        chunks = [ops[i:i + CH] for i in range(0, len(ops), CH)]
        pres = farm.map([{"kind": "perturb", "ops": ch, "reps": nreps, "seed": 7 * i + nreps, "probe": probe, "timeout": 900}
                         for i, ch in enumerate(chunks)])
        for ch, (st, *rest) in zip(chunks, pres):
            if st != "ok":
                failures.append(("perturbation-job-failed", {"error": rest[0], "first_op": c05.enc(ch[0])}))
                continue
            for op, r in zip(ch, rest[0]):
                results = r["results"]
                n_perturb += len(results)
                site = op[1] if op[0] == "rule" else "format_code"
                if probe:
                    if r["order_sensitive"]:
                        order_sensitive[site] += 1
                    if not r["stable_yield_order"]:
                        unstable_order[site] += 1
                    if r["order_sensitive"] and not r["stable_yield_order"]:
                        suspicious.append(op)       # R06.2 applies and the order really moves: look closer
                if len({json.dumps(x) for x in results}) > 1:
                    failures.append(("address-dependent-result",
                                     {"op": c05.enc(op), "source": op[2] if op[0] == "rule" else op[1],
                                      "results": sorted({json.dumps(x) for x in results})[:4], "site": site,
                                      "runs": len(results),
                                      "explanation": "the same call gives different results in one process when only the "
                                                     "addresses of the parsed nodes change (iteration over a set of nodes)"}))

    perturb_round(pops, reps, True)
    perturb_round(explicit + suspicious[:40], deep_reps, False)
    timing["perturbation_s"] = round(time.time() - t0, 1)

    # ---- 3e. the same text twice in one interpreter with > maxsize other parses in between, vs a fresh interpreter
    #          (output must not depend on how many files a pool worker happened to format before: class of seed C06-c)
    t0 = time.time()
    sv = c05.sentinel_eviction_histories([r for r in pool if _encodable(r)])
    sfail, n_sentinel = c05.run_histories_vs_fresh(farm, sv, "through", "window")
    for kind, ops, detail in sfail:
        i = detail.get("call", len(ops) - 1)
        op = ops[min(i, len(ops) - 1)]
        failures.append(("result-depends-on-files-formatted-before" if kind != "job-error" else "sentinel-job-failed",
                         {"site": op[1] if op[0] in ("rule", "rejected") else "format_code", "call_index": i,
                          "op": c05.enc(op), "history_len": len(ops), **{k: v for k, v in detail.items() if k != "problems"},
                          "cache_problems": detail.get("problems"),
                          "explanation": "a call returns something else after the interpreter has parsed more than 100 other "
                                         "sources than in a fresh interpreter: the result depends on how many files the "
                                         "worker formatted before (worker count / file order)"}))
    timing["sentinel_s"] = round(time.time() - t0, 1)

    # ---- 3a. collect the hash-seed children
    t0 = time.time()
    code_out = {s: f.result() for s, f in code_futs.items()}
    ref_seed = seeds[0]
    n_code = 0
    for s, o in code_out.items():
        if "error" in o:
            failures.append(("hashseed-child-failed", {"hashseed": s, "error": o["error"]}))
    if "error" not in code_out[ref_seed]:
        ref = code_out[ref_seed]
        for s in seeds[1:] + rule_seeds:
            o = code_out[s]
            if "error" in o:
                continue
            fidx = list(range(len(fmt_inputs))) if s in seeds else tie_index       # rule-only children: the tie family
            for i, b in zip(fidx, o["format"]):
                a = ref["format"][i]
                n_code += 1
                if a != b:
                    failures.append(("hashseed-dependent-result",
                                     {"site": "format_code", "source": fmt_inputs[i], "hashseeds": [ref_seed, s],
                                      "outputs": [a, b]}))
            for i, (a, b) in enumerate(zip(ref["rules"], o["rules"])):
                n_code += 1
                if a != b:
                    failures.append(("hashseed-dependent-result",
                                     {"site": rules[i][0], "source": rules[i][1], "args": rules[i][2:],
                                      "hashseeds": [ref_seed, s], "outputs": [a, b]}))
        hist["code:exceptions"] = sum(1 for x in ref["format"] + ref["rules"] if isinstance(x, str) and x.startswith("EXC:"))
    timing["hashseed_children_wait_s"] = round(time.time() - t0, 1)

    # ---- 3c. real format_files: worker counts / list orders / parallel vs sequential
    t0 = time.time()
    by_tree = defaultdict(list)
    for ti, label, passes, fut in file_futs:
        by_tree[(ti, passes)].append((label, fut.result()))
    n_tree_cmp = 0
    for (ti, passes), runs in by_tree.items():
        ok_runs = [(l, o) for l, o in runs if "error" not in o]
        for l, o in runs:
            if "error" in o:
                failures.append(("format_files-child-failed", {"tree": ti, "config": l, "error": o["error"],
                                                               "traceback": o.get("traceback")}))
        if len(ok_runs) < 2:
            continue
        l0, o0 = ok_runs[0]
        for l, o in ok_runs[1:]:
            n_tree_cmp += 1
            diff = sorted(f for f in o0["tree"] if o0["tree"][f] != o["tree"].get(f))
            if diff or o0["ret"] != o["ret"]:
                failures.append(("schedule-dependent-tree",
                                 {"tree": trees[ti], "configs": [l0, l], "differing_files": diff,
                                  "return_values": [o0["ret"], o["ret"]],
                                  "outputs": {f: [o0["tree"][f], o["tree"].get(f)] for f in diff[:3]}}))
        hist[f"trees:passes={passes}:changed_files"] = sum(1 for f in trees[ti] if o0["tree"][f] != trees[ti][f])
        # the change report: True iff files were rewritten (what formatting one after the other reports)
        for l, o in ok_runs:
            rewritten = sorted(f for f in trees[ti] if o["tree"].get(f) != trees[ti][f].encode().decode("latin-1"))
            if isinstance(o["ret"], bool) and o["ret"] != bool(rewritten):
                failures.append(("change-report-differs-from-sequential",
                                 {"site": "main.format_files", "tree": trees[ti], "config": l, "max_passes": passes,
                                  "returned": o["ret"], "files_rewritten": rewritten,
                                  "explanation": "format_files returned %r although %d files were rewritten; formatting "
                                                 "the files one after the other reports any(format_file(f))"
                                                 % (o["ret"], len(rewritten))}))
                break
    # one file raises: the other files
    rres = [(n, f.result()) for n, f in raise_futs]
    for n, o in rres:
        if "error" in o:
            failures.append(("format_files-child-failed", {"tree": "raising-file", "config": f"{n} cores", "error": o["error"]}))
    rok = [(n, o) for n, o in rres if "error" not in o]
    for n, o in rok[1:]:
        n_tree_cmp += 1
        n0, o0 = rok[0]
        diff = sorted(f for f in o0["tree"] if o0["tree"][f] != o["tree"].get(f))
        if diff or o0["ret"] != o["ret"]:
            failures.append(("worker-count-dependent-tree-after-exception",
                             {"site": "main.format_files", "tree": {k: (v if isinstance(v, str) else v.decode("latin-1")) for k, v in rfiles.items()},
                              "n_cores": [n0, n], "results": [o0["ret"], o["ret"]], "differing_files": diff,
                              "left_unformatted": {str(n0): sorted(f for f in o0["tree"] if o0["tree"][f] == "import os\nprint(1)\n"),
                                                   str(n): sorted(f for f in o["tree"] if o["tree"][f] == "import os\nprint(1)\n")},
                              "explanation": "formatting one file raises; which OTHER files were formatted depends on the "
                                             "number of workers"}))
            break
    # ---- 3d. package batches in both sequential orders (T06.4)
    kf = [f for f in common.load_findings(PID) if f.kind == "finding"]
    reproduced = defaultdict(list)
    reproduced_fold = defaultdict(list)
    by_fam = defaultdict(list)
    for fam, order, fut in pkg_futs:
        by_fam[fam].append((order, fut.result()))
    for fam, runs in by_fam.items():
        files, safe = PACKAGE_FAMILIES[fam]
        ok_runs = [(o, r) for o, r in runs if "error" not in r]
        for o, r in runs:
            if "error" in r:
                failures.append(("package-child-failed", {"family": fam, "order": o, "error": r["error"]}))
        if len(ok_runs) < 2:
            continue
        o0, r0 = ok_runs[0]
        for o, r in ok_runs[1:]:
            diff = sorted(f for f in r0["tree"] if r0["tree"][f] != r["tree"].get(f))
            if not diff:
                continue
            payload = {"family": fam, "files": files, "safe": safe, "orders": [list(o0), list(o)],
                       "differing_files": diff, "outputs": {f: [r0["tree"][f], r["tree"].get(f)] for f in diff}}
            match = next((f for f in kf if f.fields.get("site") == "main.format_files"
                          and SIGS.get(f.fields.get("sig"), lambda *_: False)(files, diff)), None)
            if match is not None:
                reproduced[match.id].append(payload)
            else:
                failures.append(("order-dependent-batch", payload))
        hist[f"packages:{fam}:order-dependent"] = int(any(r0["tree"] != r["tree"] for _, r in ok_runs[1:]))
    for f in kf:
        if reproduced.get(f.id):
            p = reproduced[f.id][0]
            run.known_finding(f.id, f"{f.text} [{len(reproduced[f.id])} order pairs, e.g. family {p['family']}: "
                                    f"orders {p['orders'][0]} vs {p['orders'][1]} differ in {p['differing_files']}]")
        else:
            common.log(f"note: known finding {f.id} no longer reproduces")
    timing["trees_packages_wait_s"] = round(time.time() - t0, 1)
    ex.shutdown(wait=True)

    # ---- known findings on constant folding (site core.literal_value): suppressed only by the structural predicate
    fold_f = [f for f in kf if f.fields.get("sig") in SIGS and f.fields.get("site") == "core.literal_value"]
    kept = []
    for kind, payload in failures:
        src = payload.get("source")
        m = None
        if kind in ("hashseed-dependent-result", "address-dependent-result") and isinstance(src, str):
            m = next((f for f in fold_f if SIGS[f.fields["sig"]](src, kind)), None)
        if m is None:
            kept.append((kind, payload))
        else:
            reproduced_fold[m.id].append((kind, payload))
    failures = kept
    for f in fold_f:
        hits = reproduced_fold.get(f.id)
        if hits:
            k0, p0 = hits[0]
            run.known_finding(f.id, f"{f.text} [{len(hits)} differing results, e.g. {k0} at {p0.get('site')}: "
                                    f"{p0['source'][:70]!r}]")
        else:
            common.log(f"note: known finding {f.id} no longer reproduces")

    # ---- 4. static audit of order-sensitive consumers of hash-ordered collections (fail-closed; allow-list in the corpus)
    t0 = time.time()
    audit_new, audit_stale, audit_errors, audit_keyed, _ = c06_audit.compare(Path(common.REPO) / "pyrefact", ALLOW_LIST)
    audit_unexhibited = []
    for site in audit_new:
        q = f"{site['module']}.{site['function']}"
        hit = [p for k, p in failures if p.get("site") == q]
        if hit:
            hit[0].setdefault("audit_sites", []).append(site)          # the tie family exhibits it: that is the witness
        else:
            audit_unexhibited.append(site)
    timing["audit_s"] = round(time.time() - t0, 1)
    hist["audit:sites"] = len(audit_keyed)
    hist["audit:new"] = len(audit_new)

    # ---- verdicts
    seen, n_rep = set(), 0
    site_hist = Counter(f"{k}:{p.get('site', p.get('family', ''))}" for k, p in failures)
    for kind, payload in failures:
        key = f"{kind}:{payload.get('site', payload.get('family', ''))}"
        if key in seen or n_rep >= 8:
            continue
        seen.add(key)
        n_rep += 1
        has_input = not kind.endswith("-failed")
        run.violation({"kind": kind, **payload}, has_input)
    for site in audit_unexhibited[:6]:
        run.violation({"kind": "unlisted-set-order-site", **site,
                       "exhibited_at_format_code": [p.get("source") for k, p in failures if p.get("site") == "format_code"][:2],
                       "explanation": "pyrefact consumes a hash-ordered collection in an order-sensitive way at a place that is "
                                      "not on the justified allow-list corpus/c06/set_order_sites.json (the result of "
                                      "max/min/sorted with a key, next(iter()), pop(), or an iteration feeding yields can follow "
                                      "the iteration order of a set: PYTHONHASHSEED for str, heap layout for nodes); the tie "
                                      "family found no input at this rule that shows it"}, False)
    for e in audit_errors[:3]:
        run.violation({"kind": "audit-could-not-parse", **e,
                       "explanation": "a pyrefact module could not be parsed by the static audit (fail-closed)"}, False)
    if not failures:
        for kind, d in disagreements[:5]:
            if isinstance(d, dict):
                run.violation(dict(d, kernel=kind, explanation="correspondence could not be evaluated"), False)
            elif kind == "pick":
                run.violation({"kind": "correspondence", "kernel": "PickModel.argmax/argmin vs CPython max/min with key",
                               "case": d, "cpython": [max(d, key=lambda p: p[1]) if d else None,
                                                       min(d, key=lambda p: p[1]) if d else None],
                               "explanation": "the list model of max/min with a key disagrees with CPython"}, False)
            elif kind == "sched":
                c, flat, cand = d
                run.violation({"kind": "correspondence", "kernel": "K1 SchedModel.schedule (yield permutations)",
                               "case": c, "impl_schedule": flat, "impl_candidate": cand,
                               "model": c10.model_outputs(wd, c, flat, cand),
                               "explanation": "model and real scheduler disagree on this yield order; the direct runs "
                                              "found no nondeterministic input"}, False)
            else:
                c, batches, ret = d
                run.violation({"kind": "correspondence", "kernel": "K7 FilesModel.format_files_model", "case": c,
                               "impl_dispatch": batches, "impl_return": ret, "model": py_files_model(c),
                               "explanation": "format_files dispatched/returned something else than the model on this "
                                              "scripted change table; the direct runs found no schedule-dependent tree"},
                              False)
    if ps.get("props") and not ps["props"]["ok"]:
        pr = ps["props"]
        run.violation({"kind": "proof", "file": pr["file"], "broken": pr.get("broken"), "log": pr["log"],
                       "explanation": "a property theorem no longer checks"}, bool(failures))

    timing["total_s"] = round(time.time() - t_start, 1)
    run.coverage.update(
        evaluations=len(items) + len(fitems) + len(pcases) + n_code + n_perturb + n_tree_cmp + len(pkg_futs),
        distinct_nontrivial=len(sched_distinct) + len(files_distinct),
        rule=("scheduler: every yield order of base groups of 2-4 default-numbered rewrites over 8 line-aligned ranges "
              "(incl. insertions) x 2 texts, framed by a group before and after, every 5th with an ignored line -- all "
              "pairs, conflict-free triples and a share of the others (all in thorough), seeded 4-element groups; non-trivial "
              "= a base group with >= 2 distinct orders. format_files: scripted change tables over 8 folder structures "
              "(<= 3 folders x <= 2 files) x max_passes 0..3 -- all tables up to 6 cells (9 in thorough), seeded beyond; "
              "shuffled and duplicated file lists, 1-3 workers; non-trivial = at least two passes dispatched; distinct by "
              "(passes, file set, table)."),
        samples=[{"scheduler": scases[len(scases) // 2][2]["groups"] if scases else None},
                 {"format_files": fcases[len(fcases) // 2]}, {"generated_module": gen[-1][:300]}],
        exhaustive=False, scheduler_cases=len(items), scheduler_base_groups=len(by_base),
        conflict_free_groups=n_free, conflicting_groups=n_conf, format_files_cases=len(fitems), pick_cases=len(pcases),
        sweep={"hashseeds": seeds, "hashseeds_rules_only": rule_seeds, "suspicious_ops_rerun": len(suspicious),
               "format_code_inputs": len(fmt_inputs), "rule_inputs": len(rules),
               "generated_modules": len(gen), "comparisons": n_code, "perturbation_calls": n_perturb,
               "perturbation_reps": reps, "trees": len(trees), "tree_comparisons": n_tree_cmp, "delayed_driver_runs": n_delay, "sentinel_history_calls": n_sentinel,
               "package_families": sorted(PACKAGE_FAMILIES), "package_runs": len(pkg_futs)},
        corpus_size=len(pool), corpus_harvest=hstats, histogram=dict(hist), timing=timing,
        failure_sites=dict(site_hist), correspondence_disagreements=len(disagreements),
        yield_order_sensitive_rules=dict(order_sensitive), yield_order_unstable_rules=dict(unstable_order),
        tie_family={"modules": len(ties), "rule_calls": len(c06_ties.rule_ties()), "hashseeds": sorted(set(seeds) | set(rule_seeds)),
                    "kinds": dict(Counter(l.split(":")[0] for l, _ in c06_ties.ties()))},
        set_order_audit={"sites": len(audit_keyed), "by_kind": dict(Counter(v["kind"] for v in audit_keyed.values())),
                         "not_on_allow_list": [v["key"] for v in audit_new], "stale_allow_list_entries": audit_stale,
                         "allow_list": str(ALLOW_LIST.relative_to(common.VERIF))},
        property_oracle_failures=len(failures),
        unmodelled=["real pool interleavings and address-space layout (direct runs only)",
                    "explicit transaction numbers in T06.1 (its hypothesis is one transaction per yield)",
                    "concurrent read of a sibling module while a worker rewrites it (F06-3 covers the sequential orders)"],
        trusted_base=common.TRUSTED_BASE_COMMON + [
            "multiprocessing.Pool.starmap returns results in argument order (abstracted as map)",
            "format_file is abstracted to its boolean change result per (file, pass) in FilesModel",
            "the direct runs sample hash seeds / layouts; they are a falsification sweep, not a proof"],
    )
    run.assumptions += [
        "T06.1 assumes default transaction numbers (one transaction per yield) and pairwise distinct, non-overlapping "
        "rewrites in the permuted group; with a conflict R06.2 shows the first yield wins",
        "T06.3 assumes formatting a file does not read other files of the batch (T06.4); batches with intra-batch "
        "imports violate it (known finding F06-3)",
        "determinism over ALL hash seeds and layouts is sampled (seeds listed under coverage.sweep), not proved",
        "the static audit recognises sets syntactically (displays, comprehensions, set()/frozenset(), set operators and "
        "methods, annotated parameters, locals assigned such, defaultdict(set) values, pyrefact functions returning such); a set "
        "behind an unannotated parameter is seen only by the pickers that are always listed (max/min with key, next(iter), "
        "most_common)"]


def _encodable(r) -> bool:
    try:
        c05.op_key(c05.rec_op(r))
        return True
    except TypeError:
        return False


def _safe(fn, *a):
    try:
        return fn(*a)
    except Exception as e:  # noqa
        return {"error": f"{type(e).__name__}: {e}"}


# ------------------------------------------------------------------------------------------------


def replay(path: str) -> int:
    data = json.loads(Path(path).read_text())
    print(json.dumps({k: data[k] for k in data if k in ("kind", "explanation", "site", "family", "hashseeds", "configs",
                                                         "differing_files")}, indent=1))
    wd = common.workdir(PID + "-replay")
    kind = data.get("kind")
    if kind == "hashseed-dependent-result":
        job = {"repo": str(common.REPO), "mode": "code", "junk": 0}
        if data["site"] == "format_code":
            job["format"] = [data["source"]]
        else:
            job["rules"] = [[data["site"], data["source"], *data.get("args", [{"__tuple__": []}, {"__dict__": []}])]]
        for s in list(data.get("hashseeds", [0, 1])) + [2, 3]:
            o = spawn_child(wd, f"r{s}", job, s)
            print(f"PYTHONHASHSEED={s}:", repr((o.get("format") or o.get("rules") or [o])[0])[:400])
    elif kind == "address-dependent-result":
        c05.MODS = common.import_impl()
        farm = c05.Farm(1)
        try:
            op = tuple(c05.dec(x) for x in c05.dec(data["op"]))
            st, *rest = farm._one({"kind": "perturb", "ops": [op], "reps": 12, "seed": 0})
            print("results over 12 perturbed runs:", Counter(json.dumps(r)[:300] for r in rest[0][0]["results"]) if st == "ok" else rest)
        finally:
            farm.close()
    elif kind in ("order-dependent-batch",):
        for oi, order in enumerate(data["orders"]):
            root = wd / f"pkg{oi}"
            build_tree(root, data["files"])
            o = spawn_child(wd, f"p{oi}", {"repo": str(common.REPO), "mode": "files", "root": str(root), "files": order,
                                           "sequential": True, "safe": data.get("safe", False), "cwd": str(root),
                                           "n_cores": 1, "max_passes": 1}, 0)
            print("order", order, "->", json.dumps(o.get("tree", o), indent=1)[:1500])
    elif kind == "completion-order-dependent-driver":
        c05.MODS = common.import_impl()
        farm = c05.Farm(1)
        try:
            case = data["case"]
            case["files"] = [tuple(f) for f in case["files"]]
            case["table"] = [(tuple(f), p) for f, p in case["table"]]
            case["delays"] = [(tuple(f), d) for f, d in case["delays"]]
            (wd / "ffd").mkdir(exist_ok=True)
            st, *rest = farm._one({"kind": "delay_cases", "base": str(wd / "ffd"), "cases": [(0, case)]})
            if st == "ok":
                r = rest[0][0]
                print("one after the other:", r["ref"].get("counts"), "return", r["ref"].get("ret"))
                for n, got in r["runs"]:
                    print(f"{n} workers, slow files {case['delays']}:", got.get("counts"), "return", got.get("ret"),
                          "" if got.get("counts") == r["ref"].get("counts") and got.get("ret") == r["ref"].get("ret") else "  <-- DIFFERS")
            else:
                print(rest)
        finally:
            farm.close()
    elif kind == "schedule-dependent-tree":
        cfgs = {"ref-1core-sorted": (1, 3, False, "sorted"), "2cores-shuffled": (2, 3, False, "shuffled"),
                "4cores-shuffled": (4, 3, False, "shuffled"), "16cores-reversed": (16, 3, False, "reversed"),
                "1pass-3cores": (3, 1, False, "shuffled"), "1pass-sequential": (1, 1, True, "sorted")}
        outs = []
        for ci, label in enumerate(data["configs"]):
            n_cores, passes, sequential, how = cfgs[label]
            names = sorted(data["tree"])
            order = names if how == "sorted" else names[::-1] if how == "reversed" else random.Random(ci).sample(names, len(names))
            root = wd / f"tree{ci}"
            build_tree(root, data["tree"])
            o = spawn_child(wd, f"t{ci}", {"repo": str(common.REPO), "mode": "files", "root": str(root), "files": order,
                                           "n_cores": n_cores, "max_passes": passes, "sequential": sequential}, ci)
            outs.append(o)
            print(label, "-> return", o.get("ret"), o.get("error", ""))
        if len(outs) == 2 and all("tree" in o for o in outs):
            diff = [f for f in outs[0]["tree"] if outs[0]["tree"][f] != outs[1]["tree"].get(f)]
            print("differing files now:", diff or "none")
    elif kind == "correspondence" and "groups" in (data.get("case") or {}):
        mods = common.import_impl()
        c = data["case"]
        c["groups"] = [[tuple(x) for x in g] for g in c["groups"]]
        flat, out = c10.run_impl(mods, c)[:2]
        print("impl schedule:", flat)
        print("model        :", c10.model_outputs(wd, c, flat, c10.py_splice(c["source"], flat)))
    elif kind in ("unlisted-set-order-site", "audit-could-not-parse"):
        new, stale, errors, keyed, _ = c06_audit.compare(Path(common.REPO) / "pyrefact", ALLOW_LIST)
        print(f"{len(keyed)} order-sensitive consumers of set expressions in {common.REPO}/pyrefact; not on the allow-list:")
        for sx in new:
            print(f"  {sx['module']}.py:{sx['line']}  {sx['key']}  (iterable: {sx['iterable_type']})")
        for e in errors:
            print("  parse error:", e)
    elif kind == "proof":
        print(common.check_props(PID, wd))
    else:
        print(json.dumps(data, indent=1)[:3000])
    return 0
