"""C17 -- Boolean, comparison and range rewrites are logically equivalent (kernel K6)."""
from __future__ import annotations

import ast
import itertools
import json
import random
from collections import Counter
from pathlib import Path

from . import common
from .common import gz, glist, gbool

PID = "C17"
BOPS = ["BEq", "BNe", "BGt", "BLt", "BGe", "BLe"]
BOP_TXT = {"BEq": "==", "BNe": "!=", "BGt": ">", "BLt": "<", "BGe": ">=", "BLe": "<="}
KEYS = ["x", "y", "z"]
BOX = range(-2, 5)

# ---------------------------------------------------------------------------------------------
# operand terms:  ("cmp", key, op, c, flipped) | ("var", i) | ("const", b) | ("not", o) | ("bool", isand, [..])


def o_text(o, top=False) -> str:
    k = o[0]
    if k == "cmp":
        _, key, op, c, fl = o
        return f"{c} {BOP_TXT[op]} {KEYS[key]}" if fl else f"{KEYS[key]} {BOP_TXT[op]} {c}"
    if k == "var":
        return f"p{o[1]}"
    if k == "const":
        return "True" if o[1] else "False"
    if k == "not":
        return f"not ({o_text(o[1])})"
    if k == "bool":
        s = (" and " if o[1] else " or ").join(o_text(v) for v in o[2])
        return s if top else f"({s})"
    raise ValueError(o)


def o_coq(o) -> str:
    k = o[0]
    if k == "cmp":
        return f"(OCmp {o[1]} {o[2]} {gz(o[3])} {gbool(o[4])})"
    if k == "var":
        return f"(OVar {o[1]})"
    if k == "const":
        return f"(OConst {gbool(o[1])})"
    if k == "not":
        return f"(ONot {o_coq(o[1])})"
    return f"(OBool {gbool(o[1])} {glist(o[2], o_coq)})"


def r_coq(r) -> str:
    if r[0] == "const":
        return f"(RConst {gbool(r[1])})"
    if r[0] == "values":
        return f"(RValues {glist(r[1], o_coq)})"
    return "RNone"


def impl_bound(mods, isand, vs):
    """Run the real generator on `y = <formula>` and read what it yields for the top BoolOp."""
    core, sm = mods["core"], mods["symbolic_math"]
    source = "y = " + o_text(("bool", isand, vs), top=True) + "\n"
    with common.quiet():
        root = core.parse(source)
        top = root.body[0].value
        assert isinstance(top, ast.BoolOp) and len(top.values) == len(vs), source
        res = ("none",)
        for item in sm.simplify_boolean_expressions._fix_func(source):
            node, repl = item[0], item[1]
            if node is top:
                if isinstance(repl, ast.Constant):
                    res = ("const", bool(repl.value))
                elif isinstance(repl, ast.BoolOp) and not any(repl is v for v in top.values):
                    idx = [next(i for i, v in enumerate(top.values) if v is w) for w in repl.values]
                    res = ("values", [vs[i] for i in idx])
                else:
                    i = next(i for i, v in enumerate(top.values) if v is repl)
                    res = ("values", [vs[i]])
                break
    return source, res


def eval_all(expr_src: str, nvars=2):
    """Value of an expression for every valuation of x,y,z in the box and p0..p2 in {False, True}."""
    code = compile(expr_src, "<f>", "eval")
    out = []
    for x, y in itertools.product(BOX, repeat=2):
        for p in itertools.product([False, True], repeat=3):
            env = {"x": x, "y": y, "z": 0, "p0": p[0], "p1": p[1], "p2": p[2]}
            try:
                out.append(eval(code, {"__builtins__": {}}, env))
            except Exception as e:  # noqa
                out.append(("exc", type(e).__name__))
    return out


def property_fails(mods, source: str, rule) -> dict | None:
    """The property's own oracle on the real rule: same value before/after for every valuation."""
    with common.quiet():
        new = rule(source)
    if new == source:
        return None
    before = eval_all(source[4:].strip())
    try:
        after = eval_all(new[4:].strip())
    except SyntaxError:
        return {"source": source, "output": new, "problem": "output does not parse"}
    for b, a in zip(before, after):
        if b != a or type(b) is not type(a):
            return {"source": source, "output": new, "problem": f"value differs: {b!r} vs {a!r}"}
    return None


# ---------------------------------------------------------------------------------------------
# generators


def all_cmps(keys=(0,), consts=(0, 1, 2), flips=(False, True)):
    return [("cmp", k, op, c, fl) for k in keys for op in BOPS for c in consts for fl in flips]


def rand_operand(rnd, depth=0):
    r = rnd.random()
    if r < 0.62 or depth >= 2:
        return ("cmp", rnd.choice([0, 0, 0, 1]), rnd.choice(BOPS), rnd.choice([-1, 0, 1, 2, 3]), rnd.random() < 0.25)
    if r < 0.74:
        return ("var", rnd.randrange(3))
    if r < 0.80:
        return ("const", rnd.random() < 0.5)
    if r < 0.88:
        return ("not", rand_operand(rnd, depth + 1))
    return ("bool", rnd.random() < 0.5, [rand_operand(rnd, depth + 1) for _ in range(rnd.randint(2, 3))])


def bound_cases(tier, rnd):
    cs = all_cmps()
    cases = []
    for a, b in itertools.product(cs, cs):
        for isand in (True, False):
            cases.append((isand, [a, b]))
    n_pairs = len(cases)
    plain = all_cmps(flips=(False,))
    triples = [(isand, [a, b, c]) for a, b, c in itertools.product(plain, repeat=3) for isand in (True, False)]
    if tier == "quick":
        triples = rnd.sample(triples, 1500)
    cases += triples
    nrand = 1500 if tier == "quick" else 20000
    for _ in range(nrand):
        cases.append((rnd.random() < 0.5, [rand_operand(rnd) for _ in range(rnd.randint(2, 5))]))
    # nested same-operator forms (the flattening / direct-operand rule)
    for a, b in itertools.product(plain, plain):
        for isand in (True, False):
            cases.append((isand, [a, ("bool", isand, [b, ("var", 0)])]))
            if tier != "quick" or rnd.random() < 0.15:
                cases.append((isand, [("bool", isand, [a, ("var", 0)]), b, ("var", 1)]))
    return cases, n_pairs


# ---- negate --------------------------------------------------------------------------------
CMPOPS = ["CEq", "CNotEq", "CLt", "CLtE", "CGt", "CGtE", "CIs", "CIsNot", "CIn", "CNotIn"]
CMP_TXT = {"CEq": "==", "CNotEq": "!=", "CLt": "<", "CLtE": "<=", "CGt": ">", "CGtE": ">=", "CIs": "is",
           "CIsNot": "is not", "CIn": "in", "CNotIn": "not in"}
CMP_AST = {"Eq": "CEq", "NotEq": "CNotEq", "Lt": "CLt", "LtE": "CLtE", "Gt": "CGt", "GtE": "CGtE", "Is": "CIs",
           "IsNot": "CIsNot", "In": "CIn", "NotIn": "CNotIn"}


def c_text(c) -> str:
    k = c[0]
    if k == "not":
        return f"not ({c_text(c[1])})"
    if k == "cmp":
        return f"(t{c[1]} {CMP_TXT[c[2]]} t{c[3]})"
    if k == "atom":
        i = c[1]
        return f"a{i}" if i < 100 else f"(t{i - 100} < t1 < t2)"
    return "(" + (" and " if c[1] else " or ").join(c_text(v) for v in c[2]) + ")"


def c_coq(c) -> str:
    k = c[0]
    if k == "not":
        return f"(CNot {c_coq(c[1])})"
    if k == "cmp":
        return f"(CCmp {c[1]} {c[2]} {c[3]})"
    if k == "atom":
        return f"(CAtom {c[1]})"
    return f"(CBool {gbool(c[1])} {glist(c[2], c_coq)})"


def c_of_ast(n) -> tuple:
    if isinstance(n, ast.UnaryOp) and isinstance(n.op, ast.Not):
        return ("not", c_of_ast(n.operand))
    if isinstance(n, ast.Compare) and len(n.ops) == 1:
        return ("cmp", int(n.left.id[1:]), CMP_AST[type(n.ops[0]).__name__], int(n.comparators[0].id[1:]))
    if isinstance(n, ast.Compare):
        return ("atom", 100 + int(n.left.id[1:]))
    if isinstance(n, ast.Name):
        return ("atom", int(n.id[1:]))
    if isinstance(n, ast.BoolOp):
        return ("bool", isinstance(n.op, ast.And), [c_of_ast(v) for v in n.values])
    raise ValueError(ast.dump(n))


def rand_cond(rnd, depth=0):
    r = rnd.random()
    if r < 0.35 or depth >= 3:
        return ("cmp", rnd.randrange(3), rnd.choice(CMPOPS), rnd.randrange(3))
    if r < 0.5:
        return ("atom", rnd.choice([0, 1, 2, 100, 101]))
    if r < 0.65:
        return ("not", rand_cond(rnd, depth + 1))
    return ("bool", rnd.random() < 0.5, [rand_cond(rnd, depth + 1) for _ in range(rnd.randint(2, 3))])


def negate_cases(tier, rnd):
    cs = [("cmp", 0, op, 1) for op in CMPOPS] + [("atom", 0), ("atom", 100), ("not", ("atom", 0)),
                                                 ("not", ("cmp", 0, "CLt", 1))]
    for a, b in itertools.product(list(cs), repeat=2):
        for isand in (True, False):
            cs.append(("bool", isand, [a, b]))
    for _ in range(600 if tier == "quick" else 10000):
        cs.append(rand_cond(rnd))
    return cs


def impl_negate(mods, c):
    node = ast.parse(c_text(c), mode="eval").body
    with common.quiet():
        r = mods["fixes"]._negate_condition(node)
    try:
        term = c_of_ast(r)
    except Exception:  # a shape outside the term language (e.g. a chain with other operators)
        term = ("atom", 999)
    return term, ast.unparse(r)


def negate_property_fails(c, nc_text) -> str | None:
    """not c  vs  the real negated text under all valuations of t0..t2 in {0,1,2} and atoms in {False,True}."""
    a, b = compile("not " + c_text(c), "<c>", "eval"), compile(nc_text, "<n>", "eval")
    for t in itertools.product([0, 1, 2], repeat=3):
        for at in itertools.product([False, True], repeat=3):
            env = {"t0": t[0], "t1": t[1], "t2": t[2], "a0": at[0], "a1": at[1], "a2": at[2]}
            env2 = dict(env)
            try:
                va = eval(a, {}, env)
            except TypeError:
                continue  # `in` on ints: outside the integer-comparison claim
            try:
                vb = eval(b, {}, env2)
            except TypeError:
                continue
            if bool(va) != bool(vb):
                return f"valuation {env}: not c = {va!r}, negated = {vb!r}"
    return None


# ---- remove_redundant_boolop_values ---------------------------------------------------------
TRUTHY = ["1", "2", "3", "'a'", "(0,)", "4", "5"]
FALSY = ["0", "''", "()", "None", "False", "[]", "{}"]


def mask_source(isand, mask):
    ops, t, f, u = [], 0, 0, 0
    for m in mask:
        if m == "Truthy":
            ops.append(TRUTHY[t]); t += 1
        elif m == "Falsy":
            ops.append(FALSY[f]); f += 1
        else:
            ops.append(f"u{u}()"); u += 1
    return "y = " + (" and " if isand else " or ").join(ops) + "\n"


def impl_redundant(mods, isand, mask):
    core, fixes = mods["core"], mods["fixes"]
    source = mask_source(isand, mask)
    with common.quiet():
        root = core.parse(source)
        top = root.body[0].value
        kept = list(range(len(mask)))
        for item in fixes.remove_redundant_boolop_values._fix_func(source):
            node, repl = item[0], item[1]
            if node is top:
                if isinstance(repl, ast.BoolOp) and not any(repl is v for v in top.values):
                    kept = [next(i for i, v in enumerate(top.values) if v is w) for w in repl.values]
                else:
                    kept = [next(i for i, v in enumerate(top.values) if v is repl)]
    return source, [i not in kept for i in range(len(mask))]


def redundant_property_fails(mods, source) -> str | None:
    """execute before/after with logging stubs for the unknown operands, all truthiness valuations"""
    with common.quiet():
        new = mods["fixes"].remove_redundant_boolop_values(source)
    if new == source:
        return None
    nu = source.count("u")
    for vals in itertools.product([0, 7], repeat=max(nu, 1)):
        outs = []
        for text in (source, new):
            log = []
            env = {}
            for i in range(nu):
                env[f"u{i}"] = (lambda i=i: (log.append(i), vals[i])[1])
            try:
                exec(text, env)
                outs.append((repr(env["y"]), tuple(log)))
            except Exception as e:  # noqa
                outs.append(("exc " + type(e).__name__, tuple(log)))
        if outs[0] != outs[1]:
            return f"{source!r} -> {new!r}: values {vals}: {outs[0]} vs {outs[1]}"
    return None


# ---- sum(range(a, b)) ------------------------------------------------------------------------


def sum_cases(mods):
    """sum(range(..)) with literal and with symbolic bounds: value of the rule's output vs Python"""
    sm = mods["symbolic_math"]
    res = []
    for a in range(-4, 7):
        for b in range(-4, 7):
            for form in ("two", "one", "sym2", "sym1"):
                if form in ("one", "sym1") and a != 0:
                    continue
                pre = {"two": "", "one": "", "sym2": f"m = {a}\nn = {b}\n", "sym1": f"n = {b}\n"}[form]
                expr = {"two": f"sum(range({a}, {b}))", "one": f"sum(range({b}))", "sym2": "sum(range(m, n))",
                        "sym1": "sum(range(n))"}[form]
                src = f"{pre}y = {expr}\n"
                with common.quiet():
                    new = sm.simplify_math_iterators(src)
                env = {}
                try:
                    exec(new, env)
                    val = env["y"]
                except Exception as e:  # noqa
                    val = ("exc", type(e).__name__)
                res.append({"a": a, "b": b, "form": form, "source": src, "output": new, "value": val,
                            "python": sum(range(a, b)), "fired": new != src})
    return res


# ---------------------------------------------------------------------------------------------


def check(run: common.Run):
    wd = common.workdir(PID)
    ps = common.proof_step(run, PID, wd)
    mods = common.import_impl()
    rnd = random.Random(run.seed)
    hist = Counter()

    # ---- bound table / BoolOp branch
    cases, n_pairs = bound_cases(run.tier, rnd)
    items, distinct = [], set()
    for isand, vs in cases:
        try:
            source, res = impl_bound(mods, isand, vs)
        except Exception as e:  # noqa
            res, source = ("crash", type(e).__name__), "y = " + o_text(("bool", isand, vs), top=True)
        items.append((isand, vs, res, source))
        hist["bound:" + res[0]] += 1
        if res[0] != "none":
            distinct.add(source)
    files, shards = [], []
    SH = 500
    for k in range(0, len(items), SH):
        shard = items[k:k + SH]
        body = ";\n ".join(f"(mkBCase {gbool(i)} {glist(vs, o_coq)} {r_coq(r)})" for (i, vs, r, _) in shard)
        p = wd / f"bound_{k // SH}.v"
        p.write_text("From Coq Require Import List ZArith.\nImport ListNotations.\nOpen Scope Z_scope.\n"
                     "Require Import Pyrefact.Base Pyrefact.BoundModel.\n"
                     f"Definition cases : list bound_case := [\n {body}\n].\n"
                     "Eval vm_compute in (bad_idx bound_case_ok cases).\n")
        files.append(p); shards.append(shard)

    # ---- negate
    ncases = negate_cases(run.tier, rnd)
    nitems = []
    for c in ncases:
        nc, nc_text = impl_negate(mods, c)
        nitems.append((c, nc, nc_text))
        hist["negate:" + c[0]] += 1
        distinct.add("neg:" + c_text(c))
    for k in range(0, len(nitems), 800):
        shard = nitems[k:k + 800]
        body = ";\n ".join(f"({c_coq(c)}, {c_coq(nc)})" for c, nc, _ in shard)
        p = wd / f"negate_{k // 800}.v"
        p.write_text("From Coq Require Import List ZArith.\nImport ListNotations.\n"
                     "Require Import Pyrefact.Base Pyrefact.Ops Pyrefact.BoundModel Pyrefact.BoolRwModel.\n"
                     f"Definition cases : list (cond * cond) := [\n {body}\n].\n"
                     "Eval vm_compute in (bad_idx negate_case_ok cases).\n")
        files.append(p); shards.append([("negate", c_text(c), t) for c, nc, t in shard])

    # ---- redundant masks: exhaustive for all masks up to length 5 (quick) / 7 (thorough)
    ritems = []
    maxlen = 5 if run.tier == "quick" else 7
    for n in range(2, maxlen + 1):
        for mask in itertools.product(["Truthy", "Falsy", "Unknown"], repeat=n):
            for isand in (True, False):
                src, red = impl_redundant(mods, isand, mask)
                ritems.append((isand, mask, red, src))
                if any(red):
                    distinct.add(src)
    for k in range(0, len(ritems), 800):
        shard = ritems[k:k + 800]
        body = ";\n ".join(f"({gbool(i)}, {glist(m)}, {glist(r, gbool)})" for (i, m, r, _) in shard)
        p = wd / f"redundant_{k // 800}.v"
        p.write_text("From Coq Require Import List ZArith.\nImport ListNotations.\n"
                     "Require Import Pyrefact.Base Pyrefact.Ops Pyrefact.BoundModel Pyrefact.BoolRwModel.\n"
                     f"Definition cases : list (bool * list tri * list bool) := [\n {body}\n].\n"
                     "Eval vm_compute in (bad_idx redundant_case_ok cases).\n")
        files.append(p); shards.append([("redundant",) + it for it in shard])

    # ---- sum(range) closed forms
    sums = sum_cases(mods)
    body = ";\n ".join(f"({gz(s['a'])}, {gz(s['b'])}, {gz(int(2 * s['value']))})" for s in sums
                       if isinstance(s["value"], (int, float)) and float(2 * s["value"]).is_integer())
    p = wd / "sums.v"
    p.write_text("From Coq Require Import List ZArith.\nImport ListNotations.\nOpen Scope Z_scope.\n"
                 "Require Import Pyrefact.Base Pyrefact.Ops Pyrefact.BoundModel Pyrefact.BoolRwModel.\n"
                 f"Definition cases : list (Z * Z * Z) := [\n {body}\n].\n"
                 "Eval vm_compute in (bad_idx (fun c => let '(a, b, v) := c in sum_range_closed2 a b =? v) cases).\n")
    files.append(p)
    shards.append([("sum", s) for s in sums if isinstance(s["value"], (int, float)) and float(2 * s["value"]).is_integer()])
    sum_unrepresentable = [s for s in sums if not (isinstance(s["value"], (int, float)) and float(2 * s["value"]).is_integer())]

    results = common.run_case_files(files)
    disagreements = []
    for p, shard in zip(files, shards):
        rc, out = results[p]
        idx = common.parse_nat_list(out) if rc == 0 else None
        if idx is None:
            disagreements.append(("eval-failed", p.name, out[-1500:]))
            continue
        for i in idx:
            disagreements.append(("case", p.name, shard[i]))

    # ---- property oracle on the real rules: deterministic sweep over the exhaustive parts
    rule = mods["symbolic_math"].simplify_boolean_expressions
    failures = []
    seen_src = set()
    for (isand, vs, res, source) in items:
        if source in seen_src or res[0] in ("none",):
            continue
        seen_src.add(source)
        pf = property_fails(mods, source, rule)
        if pf:
            failures.append(("simplify_boolean_expressions", pf))
    for c, nc, nc_text in nitems[:2000]:
        pr = negate_property_fails(c, nc_text)
        if pr:
            failures.append(("_negate_condition", {"source": c_text(c), "output": nc_text, "problem": pr}))
    for (isand, mask, red, src) in ritems:
        if any(red):
            pr = redundant_property_fails(mods, src)
            if pr:
                failures.append(("remove_redundant_boolop_values", {"source": src, "problem": pr}))
    sum_viol = [s for s in sums if s["value"] != s["python"]]

    # ---- known findings
    from . import findings
    kf = common.load_findings(PID)
    unmatched_sum = []
    for s in sum_viol:
        f = findings.match(kf, "symbolic_math._sum_range", s)
        if f is None:
            unmatched_sum.append(s)
    for f in kf:
        if f.kind == "finding" and f.fields.get("site") == "symbolic_math._sum_range":
            hits = [s for s in sum_viol if findings.match([f], "symbolic_math._sum_range", s)]
            if hits:
                run.known_finding(f.id, f"{f.text} [{len(hits)} instances, e.g. {hits[0]['source'].strip()} -> "
                                        f"{hits[0]['output'].strip()} = {hits[0]['value']!r}, python {hits[0]['python']}]")
            else:
                common.log(f"note: known finding {f.id} no longer reproduces")

    # ---- verdicts
    for site, pf in failures[:5]:
        run.violation({"kind": "property-oracle", "site": site, **pf,
                       "explanation": "the rewritten expression differs in value from the original"}, True)
    for s in unmatched_sum[:3]:
        run.violation({"kind": "property-oracle", "site": "symbolic_math._sum_range", **s,
                       "explanation": "sum(range()) closed form differs from Python and is not a listed finding"}, True)
    if not failures:
        for d in disagreements[:5]:
            run.violation({"kind": "correspondence", "kernel": "K6", "detail": d,
                           "explanation": "model and implementation disagree; the property oracle found no "
                                          "differing valuation on the explored formulas"}, False)
    if ps.get("props") and not ps["props"]["ok"]:
        pr = ps["props"]
        # a broken proof obligation (e.g. regenerated REVERSE_OPERATOR_MAPPING no longer a negation)
        run.violation({"kind": "proof", "file": pr["file"], "broken": pr.get("broken"), "log": pr["log"],
                       "explanation": "a property theorem no longer checks against the regenerated tables"},
                      bool(failures))

    run.coverage.update(
        evaluations=len(items) + len(nitems) + len(ritems) + len(sums),
        distinct_nontrivial=len(distinct),
        rule=("bound table: ALL ordered pairs of comparisons of x with constants {0,1,2}, 6 operators, both "
              "literal sides, x and/or (exhaustive); triples (sampled in quick, exhaustive in thorough); nested "
              "same-operator forms; seeded random mixed formulas. negate: all single/pair conditions over 10 "
              "operators + random trees. redundant: ALL truthy/falsy/unknown masks up to length "
              f"{maxlen} x and/or (exhaustive). sums: all sum(range(a,b)), a,b in [-4,6]. Non-trivial = the rule "
              "yields a rewrite; distinct by source text."),
        samples=[items[0][3], items[n_pairs + 3][3], items[-1][3], c_text(nitems[-1][0]), ritems[-1][3],
                 sums[5]["source"]],
        exhaustive=False, exhaustive_pairs=n_pairs, histogram=dict(hist),
        correspondence_disagreements=len(disagreements), property_oracle_failures=len(failures),
        sum_cases_outside_model=len(sum_unrepresentable),
        unmodelled=["symbolic_math.simplify_constrained_range", "symbolic_math.simplify_boolean_expressions_symmath "
                    "(sympy)", "symbolic_math._integrate_over (sympy)"],
        trusted_base=common.TRUSTED_BASE_COMMON + [
            "operand/cond term <-> Python text printers and AST readers in harness/c17.py",
            "structural equality of operand terms stands for equality of ast.unparse text",
            "integer semantics cmp_sem / cmpop_sem are definitions (validated by the before/after evaluation sweep)"],
    )
    run.assumptions += ["float constants and non-integer variables are outside every theorem",
                        "sympy-based rules and simplify_constrained_range are not modelled (listed under unmodelled)"]


def replay(path: str) -> int:
    data = json.loads(Path(path).read_text())
    mods = common.import_impl()
    print(json.dumps({k: data[k] for k in data if k in ("kind", "explanation", "site", "source", "output", "problem")},
                     indent=1))
    if data.get("kind") == "property-oracle" and data.get("site") == "simplify_boolean_expressions":
        print("now:", property_fails(mods, data["source"], mods["symbolic_math"].simplify_boolean_expressions))
    return 0
